"""K8: canonical access to named-tuple records.

wcmatch keeps the split pattern as a list of `_GlobPart` named tuples and reads them three ways: by field name
(`part.dir_only`), by position (`this[0]`) and -- after a refactoring -- by unpacking (`pattern, magic, ... = part`,
`this, *rest = parts`).  The three are the same read; the rules name values by provenance, so the analysis brings them to one
form first: field access by name, and head/tail unpacking as `tail = xs[:]; head = tail.pop(0)`.

Which expressions are records is decided by a small local type inference over the annotations the code already carries
(parameter annotations, `# type:` comments, `self.x` declarations in the class), never by guessing from names.  Where the type of
an expression is not known nothing is rewritten, and the rules see the code as written.
"""
from __future__ import annotations

import ast
from typing import Any

LISTY = {'list', 'List', 'Sequence', 'Iterable', 'Iterator', 'MutableSequence', 'tuple', 'Tuple'}


def namedtuple_classes(tree: ast.Module) -> dict[str, list[str]]:
    out: dict[str, list[str]] = {}

    def nt_call(c: ast.AST) -> list[str] | None:
        if isinstance(c, ast.Call) and (getattr(c.func, 'id', None) == 'namedtuple' or getattr(c.func, 'attr', None) == 'namedtuple') and len(c.args) >= 2:
            f = c.args[1]
            if isinstance(f, (ast.List, ast.Tuple)) and all(isinstance(e, ast.Constant) and isinstance(e.value, str) for e in f.elts):
                return [e.value for e in f.elts]
            if isinstance(f, ast.Constant) and isinstance(f.value, str):
                return f.value.replace(',', ' ').split()
        return None
    for st in tree.body:
        if isinstance(st, ast.ClassDef):
            for b in st.bases:
                fs = nt_call(b)
                if fs:
                    out[st.name] = fs
                elif getattr(b, 'id', None) == 'NamedTuple' or getattr(b, 'attr', None) == 'NamedTuple':
                    out[st.name] = [s.target.id for s in st.body if isinstance(s, ast.AnnAssign) and isinstance(s.target, ast.Name)]
        elif isinstance(st, ast.Assign) and len(st.targets) == 1 and isinstance(st.targets[0], ast.Name):
            fs = nt_call(st.value)
            if fs:
                out[st.targets[0].id] = fs
    return out


def _ann_type(a: Any, classes: dict[str, list[str]]) -> tuple[int, str] | None:
    """(depth, class): depth 0 = a record, 1 = list of records, 2 = list of lists."""
    if a is None:
        return None
    if isinstance(a, str):
        try:
            a = ast.parse(a.strip(), mode='eval').body
        except SyntaxError:
            return None
    if isinstance(a, ast.Constant) and isinstance(a.value, str):
        return _ann_type(a.value, classes)
    if isinstance(a, ast.Name):
        return (0, a.id) if a.id in classes else None
    if isinstance(a, ast.BinOp) and isinstance(a.op, ast.BitOr):
        l, r = _ann_type(a.left, classes), _ann_type(a.right, classes)
        return l or r
    if isinstance(a, ast.Subscript):
        base = getattr(a.value, 'id', None) or getattr(a.value, 'attr', None)
        if base == 'Optional':
            return _ann_type(a.slice, classes)
        if base in LISTY:
            inner = a.slice.elts[0] if isinstance(a.slice, ast.Tuple) and a.slice.elts else a.slice
            t = _ann_type(inner, classes)
            return (t[0] + 1, t[1]) if t else None
    return None


def _pure(n: ast.AST) -> bool:
    if isinstance(n, ast.Name):
        return True
    if isinstance(n, ast.Attribute):
        return _pure(n.value)
    if isinstance(n, ast.Subscript):
        return _pure(n.value) and (isinstance(n.slice, ast.Constant) or _pure(n.slice))
    return False


class _Fn:
    def __init__(self, fn: ast.FunctionDef, classes: dict[str, list[str]], attrs: dict[str, tuple[int, str]]) -> None:
        self.fn, self.classes, self.attrs = fn, classes, attrs
        self.env: dict[str, tuple[int, str] | None] = {}
        self.conflict: set[str] = set()
        a = fn.args
        for p in a.posonlyargs + a.args + a.kwonlyargs:
            t = _ann_type(p.annotation, classes)
            if t:
                self.env[p.arg] = t
        for _ in range(4):
            before = dict(self.env)
            for st in self._walk(fn):
                self._learn(st)
            if self.env == before:
                break

    def read(self, name: str) -> bool:
        return any(isinstance(x, ast.Name) and x.id == name and isinstance(x.ctx, ast.Load) for x in ast.walk(self.fn))

    def _walk(self, fn: ast.AST):
        stack = list(ast.iter_child_nodes(fn))
        while stack:
            n = stack.pop()
            if isinstance(n, (ast.FunctionDef, ast.AsyncFunctionDef, ast.ClassDef, ast.Lambda)):
                continue
            yield n
            stack.extend(ast.iter_child_nodes(n))

    def _bind(self, name: str, t: tuple[int, str] | None) -> None:
        if t is None or name in self.conflict:
            return
        old = self.env.get(name)
        if old is not None and old != t:
            self.conflict.add(name)
            self.env.pop(name, None)
            return
        self.env[name] = t

    def _learn(self, st: ast.AST) -> None:
        if isinstance(st, ast.Assign) and len(st.targets) == 1:
            tg = st.targets[0]
            t = _ann_type(st.type_comment, self.classes) if getattr(st, 'type_comment', None) else None
            t = t or self.typeof(st.value)
            if isinstance(tg, ast.Name):
                self._bind(tg.id, t)
            elif isinstance(tg, ast.Tuple) and any(isinstance(e, ast.Starred) for e in tg.elts) and t and t[0] >= 1:
                for e in tg.elts:
                    if isinstance(e, ast.Starred) and isinstance(e.value, ast.Name):
                        self._bind(e.value.id, t)
                    elif isinstance(e, ast.Name):
                        self._bind(e.id, (t[0] - 1, t[1]))
        elif isinstance(st, ast.AnnAssign) and isinstance(st.target, ast.Name):
            self._bind(st.target.id, _ann_type(st.annotation, self.classes) or (self.typeof(st.value) if st.value else None))
        elif isinstance(st, (ast.For, ast.comprehension)) and isinstance(st.target, ast.Name):
            t = self.typeof(st.iter)
            if t and t[0] >= 1:
                self._bind(st.target.id, (t[0] - 1, t[1]))
        elif isinstance(st, ast.NamedExpr) and isinstance(st.target, ast.Name):
            self._bind(st.target.id, self.typeof(st.value))

    def typeof(self, e: ast.AST | None) -> tuple[int, str] | None:
        if e is None:
            return None
        if isinstance(e, ast.Name):
            return self.env.get(e.id)
        if isinstance(e, ast.Attribute) and isinstance(e.value, ast.Name) and e.value.id == 'self':
            return self.attrs.get(e.attr)
        if isinstance(e, ast.Subscript):
            t = self.typeof(e.value)
            if t and t[0] >= 1:
                return t if isinstance(e.slice, ast.Slice) else (t[0] - 1, t[1])
            return None
        if isinstance(e, ast.IfExp):
            ts = [self.typeof(x) for x in (e.body, e.orelse) if not (isinstance(x, ast.Constant) and x.value is None)]
            return ts[0] if ts and all(t == ts[0] for t in ts) else None
        if isinstance(e, ast.Call):
            if isinstance(e.func, ast.Name) and e.func.id in self.classes:
                return (0, e.func.id)
            if isinstance(e.func, ast.Name) and e.func.id in ('list', 'reversed', 'tuple') and len(e.args) == 1:
                return self.typeof(e.args[0])
            if isinstance(e.func, ast.Attribute):
                t = self.typeof(e.func.value)
                if t and t[0] >= 1:
                    if e.func.attr == 'pop':
                        return (t[0] - 1, t[1])
                    if e.func.attr == 'copy':
                        return t
        return None


class _Rewrite(ast.NodeTransformer):
    def __init__(self, f: _Fn) -> None:
        self.f = f
        self.n = 0

    def visit_FunctionDef(self, n: ast.FunctionDef) -> Any:
        return n if n is not self.f.fn else self.generic_visit(n)

    visit_AsyncFunctionDef = visit_FunctionDef

    def visit_Lambda(self, n: ast.Lambda) -> Any:
        return n

    def visit_ClassDef(self, n: ast.ClassDef) -> Any:
        return n

    def visit_Subscript(self, n: ast.Subscript) -> Any:
        self.generic_visit(n)
        if isinstance(n.ctx, ast.Load) and isinstance(n.slice, ast.Constant) and isinstance(n.slice.value, int) and not isinstance(n.slice.value, bool):
            t = self.f.typeof(n.value)
            if t and t[0] == 0:
                fields = self.f.classes[t[1]]
                k = n.slice.value
                if -len(fields) <= k < len(fields):
                    self.n += 1
                    return ast.copy_location(ast.Attribute(value=n.value, attr=fields[k], ctx=ast.Load()), n)
        return n

    def visit_Assign(self, n: ast.Assign) -> Any:
        self.generic_visit(n)
        if len(n.targets) != 1 or not isinstance(n.targets[0], ast.Tuple):
            return n
        elts = n.targets[0].elts
        t = self.f.typeof(n.value)
        if t is None:
            return n
        if t[0] == 0 and all(isinstance(e, ast.Name) for e in elts) and len(elts) == len(self.f.classes[t[1]]):
            out = []
            src: ast.AST = n.value
            if not _pure(n.value):
                # the record is computed once (`a, b, ... = xs.pop(0)`): name it, then read the fields
                tmp = f'_rec{self.n}'
                out.append(ast.copy_location(ast.Assign(targets=[ast.Name(id=tmp, ctx=ast.Store())], value=n.value, lineno=n.lineno), n))
                src = ast.Name(id=tmp, ctx=ast.Load())
            for e, fld in zip(elts, self.f.classes[t[1]]):
                if e.id == '_' or (e.id.startswith('_') and not self.f.read(e.id)):
                    continue
                out.append(ast.copy_location(ast.Assign(targets=[e], value=ast.Attribute(value=src, attr=fld, ctx=ast.Load()), lineno=n.lineno), n))
            self.n += 1
            return out or ast.copy_location(ast.Pass(), n)
        if not _pure(n.value):
            return n
        if t[0] >= 1 and len(elts) == 2 and isinstance(elts[0], ast.Name) and isinstance(elts[1], ast.Starred) and isinstance(elts[1].value, ast.Name):
            head, tail = elts[0], elts[1].value
            cp = ast.Assign(targets=[ast.Name(id=tail.id, ctx=ast.Store())],
                            value=ast.Subscript(value=n.value, slice=ast.Slice(lower=None, upper=None, step=None), ctx=ast.Load()), lineno=n.lineno)
            pop = ast.Assign(targets=[ast.Name(id=head.id, ctx=ast.Store())],
                             value=ast.Call(func=ast.Attribute(value=ast.Name(id=tail.id, ctx=ast.Load()), attr='pop', ctx=ast.Load()),
                                            args=[ast.Constant(value=0)], keywords=[]), lineno=n.lineno)
            self.n += 1
            return [ast.copy_location(cp, n), ast.copy_location(pop, n)]
        return n


def canon_namedtuples(tree: ast.Module) -> int:
    classes = namedtuple_classes(tree)
    if not classes:
        return 0
    total = 0
    for cls in [c for c in tree.body if isinstance(c, ast.ClassDef)] + [tree]:
        attrs: dict[str, tuple[int, str]] = {}
        fns = [f for f in cls.body if isinstance(f, (ast.FunctionDef, ast.AsyncFunctionDef))]
        if cls is not tree:
            for f in fns:
                for st in ast.walk(f):
                    tg = None
                    if isinstance(st, ast.Assign) and len(st.targets) == 1 and getattr(st, 'type_comment', None):
                        tg, t = st.targets[0], _ann_type(st.type_comment, classes)
                    elif isinstance(st, ast.AnnAssign):
                        tg, t = st.target, _ann_type(st.annotation, classes)
                    if tg is not None and t and isinstance(tg, ast.Attribute) and isinstance(tg.value, ast.Name) and tg.value.id == 'self':
                        attrs[tg.attr] = t
        for f in fns:
            info = _Fn(f, classes, attrs)
            rw = _Rewrite(info)
            rw.visit(f)
            total += rw.n
    if total:
        ast.fix_missing_locations(tree)
    return total
