"""Call resolution inside the package and a whole-package call graph."""
from __future__ import annotations

import ast
from typing import Any

from .model import ClassRef, ExtRef, FuncInfo, FuncRef, ModRef, Repo, dotted, norm_src, walk_no_nested


def local_names(fi: FuncInfo) -> set[str]:
    v = getattr(fi.node, '_wc_locals', None)
    if v is None:
        v = _local_names(fi)
        fi.node._wc_locals = v
    return v


def _local_names(fi: FuncInfo) -> set[str]:
    out = set(fi.params())
    for n in walk_no_nested(fi.node):
        if isinstance(n, ast.Name) and isinstance(n.ctx, ast.Store):
            out.add(n.id)
        elif isinstance(n, ast.ExceptHandler) and n.name:
            out.add(n.name)
    return out


def resolve_callee(repo: Repo, fi: FuncInfo, call: ast.Call) -> list[FuncInfo] | str | None:
    """Return package functions a call may reach, or a dotted external name, or None (unresolved)."""
    v = getattr(call, '_wc_callee', _MISSING)
    if v is _MISSING:
        v = resolve_func_expr(repo, fi, call.func)
        call._wc_callee = v
    return v


_MISSING = object()


def resolve_func_expr(repo: Repo, fi: FuncInfo, f: ast.AST, depth: int = 0) -> list[FuncInfo] | str | None:
    mod = repo.mod(fi.module)
    locs = local_names(fi)
    # nested function defined in this function
    if isinstance(f, ast.Name):
        nested = f'{fi.qualname}.{f.id}'
        if nested in mod.functions:
            return [mod.functions[nested]]
        if fi.parent:
            sib = f'{fi.parent}.{f.id}'
            if sib in mod.functions:
                return [mod.functions[sib]]
        if f.id in locs:
            return None
        r = mod.env.get(f.id)
        if isinstance(r, FuncRef):
            return [repo.mod(r.module).functions[r.qualname]]
        if isinstance(r, ClassRef):
            init = repo.find_method(r.module, r.name, '__init__')
            return [init] if init else f'{r.module}.{r.name}'
        if isinstance(r, ExtRef):
            return f'{r.module}.{r.name}'
        if f.id in mod.env:
            return None
        return f'builtins.{f.id}'
    if isinstance(f, ast.Attribute):
        # super().m()
        if isinstance(f.value, ast.Call) and isinstance(f.value.func, ast.Name) and f.value.func.id == 'super' and fi.cls:
            for ci in repo.mro(fi.module, fi.cls)[1:]:
                if f.attr in ci.methods:
                    return [ci.methods[f.attr]]
            return f'super.{f.attr}'
        if isinstance(f.value, ast.Name) and f.value.id in ('self', 'cls') and fi.cls:
            out = []
            m = repo.find_method(fi.module, fi.cls, f.attr)
            if m:
                out.append(m)
            for sub in repo.subclasses(fi.module, fi.cls):
                if f.attr in sub.methods:
                    out.append(sub.methods[f.attr])
            return out or None
        d = dotted(f)
        if d:
            head = d.split('.')[0]
            if head not in locs or head in ('self',):
                r = repo.resolve_name(fi.module, f)
                if isinstance(r, FuncRef):
                    return [repo.mod(r.module).functions[r.qualname]]
                if isinstance(r, ClassRef):
                    init = repo.find_method(r.module, r.name, '__init__')
                    return [init] if init else f'{r.module}.{r.name}'
                if isinstance(r, ExtRef):
                    return f'{r.module}.{r.name}'
        # receiver with a statically known package class: Class(...).m(), f(...).m() via return annotation,
        # annotated parameters / class-level annotated attributes / locals bound to a constructor call
        cls = type_of(repo, fi, f.value, depth + 1)
        if cls is not None:
            m = repo.find_method(cls[0], cls[1], f.attr)
            if m:
                return [m]
        return None
    return None


def _ann_class(repo: Repo, module: str, ann: ast.AST | None) -> tuple[str, str] | None:
    if ann is None:
        return None
    if isinstance(ann, ast.Constant) and isinstance(ann.value, str):
        try:
            ann = ast.parse(ann.value, mode='eval').body
        except SyntaxError:
            return None
    if isinstance(ann, ast.BinOp) and isinstance(ann.op, ast.BitOr):  # X | None
        return _ann_class(repo, module, ann.left) or _ann_class(repo, module, ann.right)
    r = repo.resolve_name(module, ann)
    if isinstance(r, ClassRef):
        return (r.module, r.name)
    return None


def type_of(repo: Repo, fi: FuncInfo, e: ast.AST, depth: int = 0) -> tuple[str, str] | None:
    """Package class of the value of expression `e` in function `fi`, when statically evident."""
    if depth > 4:
        return None
    if isinstance(e, ast.Call):
        r = resolve_func_expr(repo, fi, e.func, depth + 1)
        if isinstance(r, list) and r:
            t = r[0]
            if t.name == '__init__' and t.cls:
                # constructor call: the class named at the call site
                cr = repo.resolve_name(fi.module, e.func)
                if isinstance(cr, ClassRef):
                    return (cr.module, cr.name)
                return (t.module, t.cls)
            return _ann_class(repo, t.module, getattr(t.node, 'returns', None))
        return None
    if isinstance(e, ast.Name):
        a = fi.node.args
        for p in a.posonlyargs + a.args + a.kwonlyargs:
            if p.arg == e.id:
                return _ann_class(repo, fi.module, p.annotation)
        if e.id == 'self' and fi.cls:
            return (fi.module, fi.cls)
        defs = [n for n in walk_no_nested(fi.node) if isinstance(n, ast.Assign) and
                any(isinstance(t, ast.Name) and t.id == e.id for t in n.targets)]
        types = {type_of(repo, fi, d.value, depth + 1) for d in defs}
        if len(types) == 1:
            return types.pop()
        return None
    if isinstance(e, ast.Attribute) and isinstance(e.value, ast.Name) and e.value.id == 'self' and fi.cls:
        for ci in repo.mro(fi.module, fi.cls):
            for st in ci.node.body:
                if isinstance(st, ast.AnnAssign) and isinstance(st.target, ast.Name) and st.target.id == e.attr:
                    return _ann_class(repo, ci.module, st.annotation)
    return None


class CallGraph:
    def __init__(self, repo: Repo) -> None:
        self.repo = repo
        self.edges: dict[str, set[str]] = {}
        self.external: dict[str, set[str]] = {}
        self.unresolved: dict[str, list[str]] = {}
        self.sites: dict[str, list[tuple[ast.Call, Any]]] = {}
        self.resolved = self.total = 0
        for fi in repo.all_functions():
            e: set[str] = set()
            x: set[str] = set()
            u: list[str] = []
            s = []
            for c in walk_no_nested(fi.node):
                if not isinstance(c, ast.Call):
                    continue
                self.total += 1
                r = resolve_callee(repo, fi, c)
                s.append((c, r))
                if isinstance(r, list):
                    self.resolved += 1
                    for t in r:
                        e.add(t.fq)
                elif isinstance(r, str):
                    self.resolved += 1
                    x.add(r)
                else:
                    u.append(norm_src(c.func))
                # function values passed as arguments (callbacks)
                for a in list(c.args) + [k.value for k in c.keywords]:
                    if isinstance(a, (ast.Name, ast.Attribute)):
                        rr = resolve_func_expr(repo, fi, a)
                        if isinstance(rr, list):
                            for t in rr:
                                if t.name != '__init__':
                                    e.add(t.fq)
            # nested defs are reachable from their parent (they are defined to be called)
            for q, other in repo.mod(fi.module).functions.items():
                if other.parent == fi.qualname:
                    e.add(other.fq)
            self.edges[fi.fq] = e
            self.external[fi.fq] = x
            self.unresolved[fi.fq] = u
            self.sites[fi.fq] = s

    def reachable(self, start: str) -> set[str]:
        seen = {start}
        todo = [start]
        while todo:
            x = todo.pop()
            for y in self.edges.get(x, ()):
                if y not in seen:
                    seen.add(y)
                    todo.append(y)
        return seen


def callgraph(repo: Repo) -> CallGraph:
    store = repo.__dict__.setdefault('_wc_cache', {})
    if 'callgraph' not in store:
        store['callgraph'] = CallGraph(repo)
    return store['callgraph']
