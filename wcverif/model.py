"""Program model: loader, module-level constant resolver, function/class index, name resolution.

Nothing here imports or executes wcmatch; everything is derived from `ast.parse` of the files under
`<repo>/wcmatch`.
"""
from __future__ import annotations

import ast
import os
import re
from dataclasses import dataclass, field
from typing import Any


class AnalysisError(Exception):
    """The checker lost sight of its subject (vanished anchor, un-analysable shape). Exit code 2."""


class Unknown(Exception):
    """Raised by the constant evaluator for expressions it cannot resolve."""


MODULES = ('__init__', '__meta__', '_wcmatch', '_wcparse', 'fnmatch', 'glob', 'pathlib', 'posix', 'util', 'wcmatch')


@dataclass(frozen=True)
class RegexConst:
    """`re.compile(pattern, flags)` seen at module level; never compiled by us as a library object."""

    pattern: Any  # str | bytes
    flags: int = 0


@dataclass(frozen=True)
class ModRef:
    """A name bound to a module (package-internal or external)."""

    name: str
    internal: bool


@dataclass(frozen=True)
class ExtRef:
    """A name imported from an external module (`from typing import X`)."""

    module: str
    name: str


@dataclass(frozen=True)
class FuncRef:
    module: str
    qualname: str


@dataclass(frozen=True)
class ClassRef:
    module: str
    name: str


@dataclass
class FuncInfo:
    module: str
    qualname: str  # e.g. "WcParse.root", "norm_pattern.norm"
    node: ast.AST  # FunctionDef | Lambda
    cls: str | None  # enclosing class name (for methods)
    parent: str | None  # enclosing function qualname (nested)
    is_overload: bool = False

    @property
    def name(self) -> str:
        return self.qualname.rsplit('.', 1)[-1]

    @property
    def fq(self) -> str:
        return f'{self.module}:{self.qualname}'

    @property
    def lineno(self) -> int:
        return getattr(self.node, 'lineno', 0)

    def params(self) -> list[str]:
        a = self.node.args
        return [x.arg for x in a.posonlyargs + a.args] + ([a.vararg.arg] if a.vararg else []) + \
            [x.arg for x in a.kwonlyargs] + ([a.kwarg.arg] if a.kwarg else [])

    def param_defaults(self) -> dict[str, ast.AST]:
        """Map parameter name -> default expression."""
        a = self.node.args
        out: dict[str, ast.AST] = {}
        pos = a.posonlyargs + a.args
        for p, d in zip(pos[len(pos) - len(a.defaults):], a.defaults):
            out[p.arg] = d
        for p, d in zip(a.kwonlyargs, a.kw_defaults):
            if d is not None:
                out[p.arg] = d
        return out


@dataclass
class ClassInfo:
    module: str
    name: str
    node: ast.ClassDef
    bases: list[ast.AST]
    methods: dict[str, FuncInfo] = field(default_factory=dict)


@dataclass
class ModuleInfo:
    name: str
    path: str
    source: str
    tree: ast.Module
    env: dict[str, Any] = field(default_factory=dict)  # resolved module-level names
    unresolved: dict[str, ast.AST] = field(default_factory=dict)
    functions: dict[str, FuncInfo] = field(default_factory=dict)  # qualname -> info (last def wins, overloads kept aside)
    overloads: list[FuncInfo] = field(default_factory=list)
    classes: dict[str, ClassInfo] = field(default_factory=dict)
    assigned_at: dict[str, list[int]] = field(default_factory=dict)  # module-level name -> lines of (re)binding
    lines: list[str] = field(default_factory=list)

    def rel(self) -> str:
        return f'wcmatch/{self.name}.py'


def norm_src(node: ast.AST) -> str:
    """Normalised source text of a node (position independent) -- used for stable keys."""
    try:
        return ast.unparse(node)
    except Exception:  # pragma: no cover
        return ast.dump(node)


class Repo:
    """Parsed view of `<root>/wcmatch/*.py`."""

    def __init__(self, root: str) -> None:
        self.root = root
        self.pkg = os.path.join(root, 'wcmatch')
        if not os.path.isdir(self.pkg):
            raise AnalysisError(f'no package directory {self.pkg}')
        self.modules: dict[str, ModuleInfo] = {}
        self.canon_counts: dict[str, int] = {}
        present = sorted(f[:-3] for f in os.listdir(self.pkg) if f.endswith('.py'))
        for name in present:
            path = os.path.join(self.pkg, name + '.py')
            with open(path, encoding='utf-8') as fh:
                src = fh.read()
            try:
                try:
                    tree = ast.parse(src, filename=path, type_comments=True)
                except SyntaxError:
                    tree = ast.parse(src, filename=path)
            except SyntaxError as e:
                raise AnalysisError(f'{path} does not parse: {e}') from e
            from .canon import canonicalise
            from .nt import canon_namedtuples
            n_nt = canon_namedtuples(tree)
            if n_nt:
                self.canon_counts['K8'] = self.canon_counts.get('K8', 0) + n_nt
            for k, v in canonicalise(tree).items():
                self.canon_counts[k] = self.canon_counts.get(k, 0) + v
            from .unhelper import restore_param_names, unhelper
            n_ren = restore_param_names(tree, name)
            if n_ren:
                self.canon_counts['parameters-renamed-back'] = self.canon_counts.get('parameters-renamed-back', 0) + n_ren
            n_inl = unhelper(tree, name)
            if n_inl:
                self.canon_counts['helpers-inlined'] = self.canon_counts.get('helpers-inlined', 0) + n_inl
            self.modules[name] = ModuleInfo(name, path, src, tree, lines=src.splitlines())
        for m in ('_wcparse', '_wcmatch', 'glob', 'fnmatch', 'pathlib', 'posix', 'util', 'wcmatch'):
            if m not in self.modules:
                raise AnalysisError(f'anchor module wcmatch/{m}.py is missing')
        # index functions/classes first, then evaluate constants in dependency order
        for mod in self.modules.values():
            self._index(mod)
        self._done: set[str] = set()
        self._active: list[str] = []
        for name in self.modules:
            self._eval_module(name)

    # ------------------------------------------------------------------ indexing
    def _index(self, mod: ModuleInfo) -> None:
        def is_overload(fn: ast.AST) -> bool:
            for d in getattr(fn, 'decorator_list', []):
                if (isinstance(d, ast.Name) and d.id == 'overload') or \
                        (isinstance(d, ast.Attribute) and d.attr == 'overload'):
                    return True
            return False

        def visit(body: list[ast.stmt], prefix: str, cls: str | None, parent: str | None) -> None:
            for st in body:
                if isinstance(st, (ast.FunctionDef, ast.AsyncFunctionDef)):
                    q = prefix + st.name
                    fi = FuncInfo(mod.name, q, st, cls, parent, is_overload(st))
                    if fi.is_overload:
                        mod.overloads.append(fi)
                    else:
                        mod.functions[q] = fi
                        if cls and parent is None and cls in mod.classes:
                            mod.classes[cls].methods[st.name] = fi
                    visit(st.body, q + '.', None, q)
                elif isinstance(st, ast.ClassDef):
                    ci = ClassInfo(mod.name, st.name, st, list(st.bases))
                    mod.classes[st.name] = ci
                    visit(st.body, st.name + '.', st.name, None)
                elif isinstance(st, (ast.If, ast.Try, ast.With, ast.For, ast.While)):
                    for sub in ('body', 'orelse', 'finalbody'):
                        visit(getattr(st, sub, []) or [], prefix, cls, parent)
                    for h in getattr(st, 'handlers', []) or []:
                        visit(h.body, prefix, cls, parent)

        visit(mod.tree.body, '', None, None)
        # lambdas get synthetic names by line
        for node in ast.walk(mod.tree):
            if isinstance(node, ast.Lambda):
                q = f'<lambda@{node.lineno}>'
                mod.functions[q] = FuncInfo(mod.name, q, node, None, None)

    # ------------------------------------------------------------------ constants
    def _eval_module(self, name: str) -> None:
        if name in self._done:
            return
        if name in self._active:
            return  # import cycle: partial env is what Python would see too
        self._active.append(name)
        mod = self.modules[name]
        ev = ConstEval(self, mod)

        def bind(target: ast.AST, value: Any, line: int) -> None:
            if isinstance(target, ast.Name):
                mod.env[target.id] = value
                mod.assigned_at.setdefault(target.id, []).append(line)
            elif isinstance(target, (ast.Tuple, ast.List)) and isinstance(value, (tuple, list)) and \
                    len(value) == len(target.elts):
                for t, v in zip(target.elts, value):
                    bind(t, v, line)

        def mark_unknown(target: ast.AST, expr: ast.AST, line: int) -> None:
            for n in ast.walk(target):
                if isinstance(n, ast.Name):
                    mod.env.pop(n.id, None)
                    mod.unresolved[n.id] = expr
                    mod.assigned_at.setdefault(n.id, []).append(line)

        def run(body: list[ast.stmt]) -> None:
            for st in body:
                if isinstance(st, ast.Import):
                    for a in st.names:
                        top = a.name.split('.')[0]
                        mod.env[a.asname or top] = ModRef(a.name if a.asname else top, False)
                elif isinstance(st, ast.ImportFrom):
                    if st.level >= 1 and not st.module:
                        for a in st.names:
                            if a.name in self.modules:
                                self._eval_module(a.name)
                                mod.env[a.asname or a.name] = ModRef(a.name, True)
                    elif st.level >= 1 and st.module:
                        src = st.module.strip()
                        if src in self.modules:
                            self._eval_module(src)
                            for a in st.names:
                                tgt = self.modules[src]
                                if a.name in tgt.classes:
                                    mod.env[a.asname or a.name] = ClassRef(src, a.name)
                                elif a.name in tgt.functions:
                                    mod.env[a.asname or a.name] = FuncRef(src, a.name)
                                elif a.name in tgt.env:
                                    mod.env[a.asname or a.name] = tgt.env[a.name]
                    else:
                        for a in st.names:
                            mod.env[a.asname or a.name] = ExtRef(st.module or '', a.name)
                elif isinstance(st, ast.Assign):
                    try:
                        v = ev.eval(st.value)
                    except Unknown:
                        for t in st.targets:
                            mark_unknown(t, st.value, st.lineno)
                    else:
                        for t in st.targets:
                            bind(t, v, st.lineno)
                elif isinstance(st, ast.AnnAssign) and st.value is not None:
                    try:
                        bind(st.target, ev.eval(st.value), st.lineno)
                    except Unknown:
                        mark_unknown(st.target, st.value, st.lineno)
                elif isinstance(st, ast.AugAssign):
                    mark_unknown(st.target, st.value, st.lineno)
                elif isinstance(st, (ast.FunctionDef, ast.AsyncFunctionDef)):
                    if st.name in mod.functions:
                        mod.env[st.name] = FuncRef(mod.name, st.name)
                elif isinstance(st, ast.ClassDef):
                    mod.env[st.name] = ClassRef(mod.name, st.name)
                elif isinstance(st, ast.If):
                    # platform-dependent module-level branches: names bound there are Unknown
                    for sub in (st.body, st.orelse):
                        for s2 in sub:
                            for n in ast.walk(s2):
                                if isinstance(n, ast.Name) and isinstance(n.ctx, ast.Store):
                                    mod.env.pop(n.id, None)
                                    mod.unresolved[n.id] = st.test
                                    mod.assigned_at.setdefault(n.id, []).append(s2.lineno)

        run(mod.tree.body)
        self._active.pop()
        self._done.add(name)

    # ------------------------------------------------------------------ access helpers
    def mod(self, name: str) -> ModuleInfo:
        try:
            return self.modules[name]
        except KeyError:
            raise AnalysisError(f'module wcmatch/{name}.py vanished') from None

    def func(self, module: str, qualname: str) -> FuncInfo:
        m = self.mod(module)
        try:
            return m.functions[qualname]
        except KeyError:
            raise AnalysisError(f'anchor function {module}:{qualname} vanished') from None

    def has_func(self, module: str, qualname: str) -> bool:
        return module in self.modules and qualname in self.modules[module].functions

    def cls(self, module: str, name: str) -> ClassInfo:
        m = self.mod(module)
        try:
            return m.classes[name]
        except KeyError:
            raise AnalysisError(f'anchor class {module}:{name} vanished') from None

    def const(self, module: str, name: str) -> Any:
        m = self.mod(module)
        if name not in m.env:
            raise AnalysisError(f'anchor constant {module}.{name} vanished or is not statically resolvable')
        return m.env[name]

    def has_const(self, module: str, name: str) -> bool:
        return module in self.modules and name in self.modules[module].env

    def const_line(self, module: str, name: str) -> int:
        return (self.mod(module).assigned_at.get(name) or [0])[-1]

    def all_functions(self) -> list[FuncInfo]:
        out = []
        for m in self.modules.values():
            out.extend(m.functions.values())
        return out

    def loc(self, module: str, node: ast.AST | int) -> str:
        line = node if isinstance(node, int) else getattr(node, 'lineno', 0)
        return f'wcmatch/{module}.py:{line}'

    def evaluator(self, module: str, extra: dict[str, Any] | None = None) -> 'ConstEval':
        return ConstEval(self, self.mod(module), extra)

    # class hierarchy inside the package
    def mro(self, module: str, cname: str) -> list[ClassInfo]:
        out: list[ClassInfo] = []
        seen: set[tuple[str, str]] = set()

        def go(mn: str, cn: str) -> None:
            if (mn, cn) in seen or mn not in self.modules or cn not in self.modules[mn].classes:
                return
            seen.add((mn, cn))
            ci = self.modules[mn].classes[cn]
            out.append(ci)
            for b in ci.bases:
                r = self.resolve_name(mn, b)
                if isinstance(r, ClassRef):
                    go(r.module, r.name)

        go(module, cname)
        return out

    def subclasses(self, module: str, cname: str) -> list[ClassInfo]:
        out = []
        for m in self.modules.values():
            for ci in m.classes.values():
                if (ci.module, ci.name) == (module, cname):
                    continue
                if any((x.module, x.name) == (module, cname) for x in self.mro(ci.module, ci.name)):
                    out.append(ci)
        return out

    def find_method(self, module: str, cname: str, meth: str) -> FuncInfo | None:
        for ci in self.mro(module, cname):
            if meth in ci.methods:
                return ci.methods[meth]
        return None

    def resolve_name(self, module: str, node: ast.AST) -> Any:
        """Resolve a Name / dotted Attribute / Subscript(Generic[...]) to a ModRef/ClassRef/FuncRef/value or None."""
        if isinstance(node, ast.Subscript):
            return self.resolve_name(module, node.value)
        if isinstance(node, ast.Name):
            return self.mod(module).env.get(node.id)
        if isinstance(node, ast.Attribute):
            base = self.resolve_name(module, node.value)
            if isinstance(base, ModRef):
                if base.internal:
                    tgt = self.mod(base.name)
                    if node.attr in tgt.classes:
                        return ClassRef(base.name, node.attr)
                    if node.attr in tgt.functions:
                        return FuncRef(base.name, node.attr)
                    return tgt.env.get(node.attr)
                return ExtRef(base.name, node.attr)
            if isinstance(base, ExtRef):
                return ExtRef(base.module + '.' + base.name, node.attr)
        return None


class ConstEval:
    """Evaluate constant expressions over a module environment. Raises Unknown when not resolvable."""

    def __init__(self, repo: Repo, mod: ModuleInfo, extra: dict[str, Any] | None = None) -> None:
        self.repo = repo
        self.mod = mod
        self.extra = extra or {}

    def eval(self, n: ast.AST) -> Any:
        m = getattr(self, 'e_' + type(n).__name__, None)
        if m is None:
            raise Unknown(type(n).__name__)
        return m(n)

    def e_Constant(self, n: ast.Constant) -> Any:
        return n.value

    def e_Name(self, n: ast.Name) -> Any:
        if n.id in self.extra:
            return self.extra[n.id]
        if n.id in self.mod.env:
            return self.mod.env[n.id]
        if n.id in ('True', 'False', 'None'):
            return {'True': True, 'False': False, 'None': None}[n.id]
        raise Unknown(n.id)

    def e_Attribute(self, n: ast.Attribute) -> Any:
        base = self.eval(n.value)
        if isinstance(base, ModRef):
            if base.internal:
                tgt = self.repo.mod(base.name)
                if n.attr in tgt.env:
                    return tgt.env[n.attr]
                raise Unknown(f'{base.name}.{n.attr}')
            if base.name == 're':
                flags = {'I': re.I, 'IGNORECASE': re.I, 'S': re.S, 'DOTALL': re.S, 'X': re.X, 'VERBOSE': re.X,
                         'M': re.M, 'MULTILINE': re.M, 'A': re.A, 'ASCII': re.A, 'U': re.U, 'UNICODE': re.U}
                if n.attr in flags:
                    return int(flags[n.attr])
            return ExtRef(base.name, n.attr)
        if isinstance(base, RegexConst) and n.attr == 'pattern':
            return base.pattern
        if isinstance(base, ExtRef):
            return ExtRef(base.module + '.' + base.name, n.attr)
        raise Unknown(norm_src(n))

    def e_Tuple(self, n: ast.Tuple) -> Any:
        return tuple(self.eval(e) for e in n.elts)

    def e_List(self, n: ast.List) -> Any:
        return [self.eval(e) for e in n.elts]

    def e_Set(self, n: ast.Set) -> Any:
        return frozenset(self.eval(e) for e in n.elts)

    def e_Dict(self, n: ast.Dict) -> Any:
        out = {}
        for k, v in zip(n.keys, n.values):
            if k is None:
                raise Unknown('dict unpack')
            out[self.eval(k)] = self.eval(v)
        return out

    def e_UnaryOp(self, n: ast.UnaryOp) -> Any:
        v = self.eval(n.operand)
        if isinstance(v, (ModRef, ExtRef, FuncRef, ClassRef, RegexConst)):
            raise Unknown('unary on ref')
        if isinstance(n.op, ast.Not):
            return not v
        if isinstance(n.op, ast.USub):
            return -v
        if isinstance(n.op, ast.Invert):
            return ~v
        if isinstance(n.op, ast.UAdd):
            return +v
        raise Unknown('unary')

    def e_BinOp(self, n: ast.BinOp) -> Any:
        a, b = self.eval(n.left), self.eval(n.right)
        for v in (a, b):
            if isinstance(v, (ModRef, ExtRef, FuncRef, ClassRef, RegexConst)):
                raise Unknown('binop on ref')
        try:
            if isinstance(n.op, ast.BitOr):
                return a | b
            if isinstance(n.op, ast.BitAnd):
                return a & b
            if isinstance(n.op, ast.BitXor):
                return a ^ b
            if isinstance(n.op, ast.Add):
                return a + b
            if isinstance(n.op, ast.Sub):
                return a - b
            if isinstance(n.op, ast.Mult):
                return a * b
            if isinstance(n.op, ast.LShift):
                return a << b
            if isinstance(n.op, ast.RShift):
                return a >> b
            if isinstance(n.op, ast.Mod) and isinstance(a, (str, bytes)):
                return a % b
        except TypeError as e:
            raise Unknown(str(e)) from e
        raise Unknown('binop')

    def e_BoolOp(self, n: ast.BoolOp) -> Any:
        vals = [self.eval(v) for v in n.values]
        r = vals[0]
        for v in vals[1:]:
            r = (r and v) if isinstance(n.op, ast.And) else (r or v)
        return r

    def e_Compare(self, n: ast.Compare) -> Any:
        left = self.eval(n.left)
        for op, c in zip(n.ops, n.comparators):
            right = self.eval(c)
            if isinstance(left, (ModRef, ExtRef)) or isinstance(right, (ModRef, ExtRef)):
                raise Unknown('compare on ref')
            try:
                ok = {ast.Eq: lambda: left == right, ast.NotEq: lambda: left != right,
                      ast.Lt: lambda: left < right, ast.LtE: lambda: left <= right,
                      ast.Gt: lambda: left > right, ast.GtE: lambda: left >= right,
                      ast.In: lambda: left in right, ast.NotIn: lambda: left not in right,
                      ast.Is: lambda: left is right, ast.IsNot: lambda: left is not right}[type(op)]()
            except TypeError as e:
                raise Unknown(str(e)) from e
            if not ok:
                return False
            left = right
        return True

    def e_IfExp(self, n: ast.IfExp) -> Any:
        return self.eval(n.body) if self.eval(n.test) else self.eval(n.orelse)

    def e_JoinedStr(self, n: ast.JoinedStr) -> Any:
        out = []
        for v in n.values:
            if isinstance(v, ast.Constant):
                out.append(v.value)
            elif isinstance(v, ast.FormattedValue):
                val = self.eval(v.value)
                if not isinstance(val, (str, int)):
                    raise Unknown('fstring value')
                spec = ''
                if v.format_spec is not None:
                    spec = self.eval(v.format_spec)
                if v.conversion not in (-1, 115):
                    raise Unknown('fstring conversion')
                out.append(format(val, spec))
        return ''.join(out)

    def e_Subscript(self, n: ast.Subscript) -> Any:
        base = self.eval(n.value)
        if isinstance(n.slice, ast.Slice):
            lo = self.eval(n.slice.lower) if n.slice.lower else None
            hi = self.eval(n.slice.upper) if n.slice.upper else None
            try:
                return base[lo:hi]
            except TypeError as e:
                raise Unknown(str(e)) from e
        idx = self.eval(n.slice)
        try:
            return base[idx]
        except (TypeError, KeyError, IndexError) as e:
            raise Unknown(str(e)) from e

    def e_Call(self, n: ast.Call) -> Any:
        if n.keywords and not (isinstance(n.func, ast.Attribute) and n.func.attr == 'format'):
            kw = {k.arg: self.eval(k.value) for k in n.keywords if k.arg}
        else:
            kw = {}
        f = n.func
        if isinstance(f, ast.Name) and f.id not in self.mod.env and f.id not in self.extra:
            args = [self.eval(a) for a in n.args]
            if f.id in ('frozenset', 'set'):
                return frozenset(args[0]) if args else frozenset()
            if f.id == 'tuple':
                return tuple(args[0]) if args else ()
            if f.id == 'bool':
                return bool(args[0])
            if f.id == 'ord':
                return ord(args[0])
            if f.id == 'len':
                return len(args[0])
            if f.id == 'int':
                return int(*args)
            if f.id in ('dict', 'list', 'sorted', 'str', 'chr', 'range', 'min', 'max') and not kw:
                try:
                    r = {'dict': dict, 'list': list, 'sorted': sorted, 'str': str, 'chr': chr, 'range': range, 'min': min,
                         'max': max}[f.id](*args)
                except Exception as e:
                    raise Unknown(str(e)) from e
                return list(r) if isinstance(r, range) else r
            raise Unknown(f.id)
        if isinstance(f, ast.Attribute):
            # str.format on a constant template
            if f.attr == 'format':
                base = self.eval(f.value)
                if isinstance(base, str):
                    args = [self.eval(a) for a in n.args]
                    kws = {k.arg: self.eval(k.value) for k in n.keywords if k.arg}
                    for k in n.keywords:
                        if k.arg is None:
                            d = self.eval(k.value)
                            if not isinstance(d, dict):
                                raise Unknown('**non-dict')
                            kws.update(d)
                    try:
                        return base.format(*args, **kws)
                    except (IndexError, KeyError) as e:
                        raise Unknown(str(e)) from e
            if any(f.attr in v for v in PURE_METHODS.values()):
                try:
                    base = self.eval(f.value)
                except Unknown:
                    base = _NOBASE
                if isinstance(base, (str, bytes, dict, tuple, frozenset, list)) and f.attr in PURE_METHODS[type(base).__name__]:
                    args = [self.eval(a) for a in n.args]
                    try:
                        r = getattr(base, f.attr)(*args, **kw)
                    except Exception as e:  # the constant expression itself fails: not a constant we can use
                        raise Unknown(str(e)) from e
                    return list(r) if f.attr in ('items', 'keys', 'values') else r
            target = self.eval(f)
            if isinstance(target, ExtRef):
                args = [self.eval(a) for a in n.args]
                if (target.module, target.name) == ('re', 'compile'):
                    flags = kw.get('flags', args[1] if len(args) > 1 else 0)
                    if not isinstance(args[0], (str, bytes)) or not isinstance(flags, int):
                        raise Unknown('re.compile args')
                    return RegexConst(args[0], int(flags))
                if (target.module, target.name) == ('re', 'escape'):
                    if isinstance(args[0], (str, bytes)):
                        return re.escape(args[0])
            raise Unknown(norm_src(f))
        raise Unknown(norm_src(f))


    # comprehensions over constant iterables (constant propagation through a finite unrolling)
    def _comp(self, n: Any) -> Any:
        def rec(gi: int, env: dict[str, Any]) -> Any:
            sub = ConstEval(self.repo, self.mod, {**self.extra, **env})
            if gi == len(n.generators):
                if isinstance(n, ast.DictComp):
                    yield (sub.eval(n.key), sub.eval(n.value))
                else:
                    yield sub.eval(n.elt)
                return
            g = n.generators[gi]
            if g.is_async:
                raise Unknown('async comprehension')
            it = sub.eval(g.iter)
            if isinstance(it, dict):
                it = list(it)
            if not isinstance(it, (list, tuple, frozenset, str, bytes, range)):
                raise Unknown('comprehension over non-constant')
            if len(it) > 100000:
                raise Unknown('comprehension too large')
            for item in (sorted(it, key=repr) if isinstance(it, frozenset) else it):
                env2 = dict(env)
                _bind(g.target, item, env2)
                s2 = ConstEval(self.repo, self.mod, {**self.extra, **env2})
                if all(s2.eval(c) for c in g.ifs):
                    yield from rec(gi + 1, env2)
        return rec(0, {})

    def e_ListComp(self, n: ast.ListComp) -> Any:
        return list(self._comp(n))

    def e_GeneratorExp(self, n: ast.GeneratorExp) -> Any:
        return list(self._comp(n))

    def e_SetComp(self, n: ast.SetComp) -> Any:
        return frozenset(self._comp(n))

    def e_DictComp(self, n: ast.DictComp) -> Any:
        return dict(self._comp(n))


_NOBASE = object()
_STRM = {'replace', 'lower', 'upper', 'join', 'strip', 'lstrip', 'rstrip', 'encode', 'decode', 'startswith', 'endswith', 'split',
         'format', 'casefold', 'swapcase', 'title'}
PURE_METHODS = {'str': _STRM, 'bytes': _STRM, 'dict': {'items', 'keys', 'values', 'get'}, 'tuple': {'index', 'count'},
                'frozenset': {'union', 'intersection', 'difference'}, 'list': {'index', 'count'}}


def _bind(t: ast.AST, v: Any, env: dict[str, Any]) -> None:
    if isinstance(t, ast.Name):
        env[t.id] = v
    elif isinstance(t, (ast.Tuple, ast.List)) and isinstance(v, (tuple, list)) and len(v) == len(t.elts):
        for tt, vv in zip(t.elts, v):
            _bind(tt, vv, env)
    else:
        raise Unknown('comprehension target')


def walk_no_nested(node: ast.AST):
    """ast.walk that does not descend into nested function/class/lambda definitions (but yields them)."""
    todo = list(ast.iter_child_nodes(node))
    while todo:
        n = todo.pop()
        yield n
        if isinstance(n, (ast.FunctionDef, ast.AsyncFunctionDef, ast.ClassDef, ast.Lambda)):
            continue
        todo.extend(ast.iter_child_nodes(n))


def calls_in(node: ast.AST) -> list[ast.Call]:
    return sorted((n for n in walk_no_nested(node) if isinstance(n, ast.Call)),
                  key=lambda c: (c.lineno, c.col_offset))


def dotted(node: ast.AST) -> str | None:
    """`a.b.c` -> 'a.b.c' for Name/Attribute chains, else None."""
    parts = []
    while isinstance(node, ast.Attribute):
        parts.append(node.attr)
        node = node.value
    if isinstance(node, ast.Name):
        parts.append(node.id)
        return '.'.join(reversed(parts))
    return None
