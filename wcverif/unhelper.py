"""Undo helper extraction: inline calls of functions that are not part of the pinned vocabulary into their callers (AST level).

Applied at load time after the canonical forms.  "Extract method / extract function" is the most common behaviour-preserving
edit; rules that look at the structure of a function (CFG dominance, guards, typestate, def-use) would otherwise see a call
where they used to see the statements.  Only the simple, certainly-equivalent shapes are inlined; anything else is left as a
call (the abstract evaluator follows such calls by value anyway):

  A  statement call         `self._h(a, b)`                 helper without `return <value>` and without early `return`
  B  value call             `x = self._h(a)` / `return ..`  helper whose only `return` is its last statement
  C  delegation             `yield from self._h(a)`         generator helper without `return`
  D  expression call        `... self._h(a) ...`            helper that is a single `return <expr>`

Arguments that are not plain names / attributes / constants, or parameters the helper assigns, are bound to fresh locals first;
helper locals that clash with names of the caller are renamed.
"""
from __future__ import annotations

import ast
import copy
from typing import Any

from .vocabulary import PINNED_FUNCTIONS


def _simple(n: ast.AST) -> bool:
    if isinstance(n, (ast.Name, ast.Constant)):
        return True
    if isinstance(n, ast.Attribute):
        return _simple(n.value)
    return False


def _body(fn: ast.FunctionDef) -> list[ast.stmt]:
    b = list(fn.body)
    if b and isinstance(b[0], ast.Expr) and isinstance(b[0].value, ast.Constant) and isinstance(b[0].value.value, str):
        b = b[1:]
    return b


def _walk_own(body: list[ast.stmt]) -> Any:
    todo = list(body)
    while todo:
        n = todo.pop()
        yield n
        for c in ast.iter_child_nodes(n):
            if not isinstance(c, (ast.FunctionDef, ast.AsyncFunctionDef, ast.ClassDef, ast.Lambda)):
                todo.append(c)


def _names_bound(body: list[ast.stmt]) -> set[str]:
    return {x.id for x in _walk_own(body) if isinstance(x, ast.Name) and isinstance(x.ctx, (ast.Store, ast.Del))}


def _names_any(body: list[ast.stmt]) -> set[str]:
    return {x.id for x in _walk_own(body) if isinstance(x, ast.Name)}


class _Helper:
    def __init__(self, fn: ast.FunctionDef, is_method: bool, nested: bool = False) -> None:
        self.fn = fn
        self.is_method = is_method
        self.nested = nested
        self.body = _body(fn)
        # a nested function: the names it declares nonlocal are the caller's own variables once its body stands in the caller
        self.keep: set[str] = set()
        if nested:
            self.keep = {nm for s in self.body if isinstance(s, ast.Nonlocal) for nm in s.names}
            self.body = [s for s in self.body if not isinstance(s, ast.Nonlocal)]
        own = list(_walk_own(self.body))
        self.returns = [x for x in own if isinstance(x, ast.Return)]
        self.is_gen = any(isinstance(x, (ast.Yield, ast.YieldFrom)) for x in own)
        if self.is_gen and self.returns and all(r.value is None for r in self.returns) and self.body and \
                isinstance(self.body[-1], (ast.For, ast.While)) and not self.body[-1].orelse:
            # a generator that ends with a loop and leaves it by a bare `return`: that is a `break` of the loop
            loop = self.body[-1]

            def direct(stmts: list[ast.stmt]) -> list[ast.Return]:
                out: list[ast.Return] = []
                for s in stmts:
                    if isinstance(s, ast.Return):
                        out.append(s)
                    elif isinstance(s, (ast.For, ast.While, ast.FunctionDef, ast.AsyncFunctionDef, ast.ClassDef)):
                        continue
                    else:
                        for fld in ('body', 'orelse', 'finalbody'):
                            v = getattr(s, fld, None)
                            if isinstance(v, list) and v and isinstance(v[0], ast.stmt):
                                out += direct(v)
                        for hd in getattr(s, 'handlers', []) or []:
                            out += direct(hd.body)
                return out
            inside = direct(loop.body)
            if len(inside) == len(self.returns):
                import copy as _copy
                body = _copy.deepcopy(self.body)

                class R(ast.NodeTransformer):
                    def visit_Return(self, n: ast.Return) -> Any:
                        return ast.copy_location(ast.Break(), n)

                    def visit_FunctionDef(self, n: ast.FunctionDef) -> Any:
                        return n
                body[-1] = R().visit(body[-1])
                self.body = body
                self.returns = []
        self.has_nested = any(isinstance(x, (ast.FunctionDef, ast.AsyncFunctionDef, ast.ClassDef, ast.Lambda, ast.Global, ast.Nonlocal))
                              for s in self.body for x in ast.walk(s))
        a = fn.args
        self.static = len(fn.decorator_list) == 1 and isinstance(fn.decorator_list[0], ast.Name) and fn.decorator_list[0].id == 'staticmethod'
        self.ok_sig = not a.vararg and not a.kwarg and not a.posonlyargs and (not fn.decorator_list or self.static)
        self.params = [x.arg for x in a.args] + [x.arg for x in a.kwonlyargs]
        n_def = len(a.defaults)
        self.defaults: dict[str, ast.AST] = {}
        for p, d in zip([x.arg for x in a.args][len(a.args) - n_def:], a.defaults):
            self.defaults[p] = d
        for p, d in zip([x.arg for x in a.kwonlyargs], a.kw_defaults):
            if d is not None:
                self.defaults[p] = d

    @property
    def kind(self) -> str | None:
        if not self.ok_sig or self.has_nested or not self.body:
            return None
        if self.is_gen:
            return 'gen' if not any(r.value is not None for r in self.returns) and not self.returns else None
        if not self.returns or all(r.value is None for r in self.returns):
            return 'proc' if not self.returns else None
        if len(self.returns) == 1 and self.returns[0] is self.body[-1]:
            return 'expr' if len(self.body) == 1 else 'value'
        return None


def _loop_gen(h: _Helper) -> bool:
    """Generator helper of the shape `<simple statements>; for v in it: ...; yield x` with exactly one yield, in tail position of the loop."""
    if not h.body or not isinstance(h.body[-1], ast.For) or h.body[-1].orelse:
        return False
    own = list(_walk_own(h.body))
    ys = [x for x in own if isinstance(x, (ast.Yield, ast.YieldFrom))]
    if len(ys) != 1 or not isinstance(ys[0], ast.Yield):
        return False
    if any(isinstance(x, (ast.For, ast.While, ast.Try, ast.With)) for s in h.body[:-1] for x in ast.walk(s)):
        return False
    loop = h.body[-1]
    if any(isinstance(x, (ast.For, ast.While, ast.Try, ast.With, ast.Break, ast.Continue)) for s in loop.body for x in ast.walk(s)):
        return False

    def tail(body: list[ast.stmt]) -> bool:
        last = body[-1]
        if isinstance(last, ast.Expr) and last.value is ys[0]:
            return True
        if isinstance(last, ast.If):
            return tail(last.body) or (bool(last.orelse) and tail(last.orelse))
        return False
    return tail(loop.body)


class _Sub(ast.NodeTransformer):
    def __init__(self, mapping: dict[str, ast.AST]) -> None:
        self.mapping = mapping

    def visit_Name(self, n: ast.Name) -> Any:
        if n.id in self.mapping:
            new = copy.deepcopy(self.mapping[n.id])
            if isinstance(n.ctx, (ast.Store, ast.Del)) and isinstance(new, ast.Name):
                new.ctx = n.ctx
            return ast.copy_location(new, n)
        return n


def _bind(h: _Helper, call: ast.Call, caller_names: set[str], tag: str) -> tuple[list[ast.stmt], dict[str, ast.AST]] | None:
    params = h.params[1:] if h.is_method else h.params
    if any(isinstance(a, ast.Starred) for a in call.args) or any(k.arg is None for k in call.keywords):
        return None
    given: dict[str, ast.AST] = {}
    if len(call.args) > len(params):
        return None
    for p, a in zip(params, call.args):
        given[p] = a
    for k in call.keywords:
        if k.arg not in params or k.arg in given:
            return None
        given[k.arg] = k.value
    for p in params:
        if p not in given:
            if p not in h.defaults:
                return None
            given[p] = h.defaults[p]
    assigned = _names_bound(h.body)
    pre: list[ast.stmt] = []
    mapping: dict[str, ast.AST] = {}
    if h.is_method:
        mapping[h.params[0]] = ast.Name(id='self', ctx=ast.Load())
    for p in params:
        a = given[p]
        if _simple(a) and p not in assigned:
            mapping[p] = a
        else:
            fresh = p if (p not in caller_names and p not in mapping) else f'_{tag}_{p}'
            pre.append(ast.copy_location(ast.Assign(targets=[ast.Name(id=fresh, ctx=ast.Store())], value=a, lineno=call.lineno), call))
            mapping[p] = ast.Name(id=fresh, ctx=ast.Load())
    for loc in sorted(assigned - set(params) - h.keep):
        if loc in caller_names:
            mapping[loc] = ast.Name(id=f'_{tag}_{loc}', ctx=ast.Load())
    return pre, mapping


def _instantiate(h: _Helper, mapping: dict[str, ast.AST], at: ast.AST) -> list[ast.stmt]:
    out = []
    for st in h.body:
        new = _Sub(mapping).visit(copy.deepcopy(st))
        for x in ast.walk(new):
            if hasattr(x, 'lineno'):
                x.lineno = getattr(at, 'lineno', 1)
                x.end_lineno = getattr(at, 'end_lineno', None)
                x.col_offset = getattr(at, 'col_offset', 0)
                x.end_col_offset = getattr(at, 'end_col_offset', None)
        out.append(new)
    return out


class _Inliner(ast.NodeTransformer):
    def __init__(self, helpers: dict[str, _Helper], module_helpers: dict[str, _Helper], caller: ast.FunctionDef) -> None:
        self.helpers = helpers
        self.module_helpers = module_helpers
        self.caller = caller
        self.caller_names = _names_any(_body(caller)) | {a.arg for a in caller.args.args + caller.args.kwonlyargs}
        self.count = 0

    def _target(self, call: ast.AST) -> _Helper | None:
        if not isinstance(call, ast.Call):
            return None
        f = call.func
        if isinstance(f, ast.Attribute) and isinstance(f.value, ast.Name) and f.attr in self.helpers and \
                (f.value.id == 'self' or (self.helpers[f.attr].static and f.value.id == getattr(self.helpers[f.attr], 'owner', None))):
            h = self.helpers[f.attr]
            return h if h.fn is not self.caller else None
        if isinstance(f, ast.Name) and f.id in self.module_helpers:
            h = self.module_helpers[f.id]
            return h if h.fn is not self.caller else None
        return None

    def _stmts(self, body: list[ast.stmt]) -> list[ast.stmt]:
        out: list[ast.stmt] = []
        for st in body:
            out.extend(self._stmt(st))
        return out

    def _stmt(self, st: ast.stmt) -> list[ast.stmt]:
        # recurse into compound statements first
        for fld in ('body', 'orelse', 'finalbody'):
            v = getattr(st, fld, None)
            if isinstance(v, list) and v and isinstance(v[0], ast.stmt) and not isinstance(st, (ast.FunctionDef, ast.AsyncFunctionDef, ast.ClassDef)):
                setattr(st, fld, self._stmts(v))
        for hd in getattr(st, 'handlers', []) or []:
            hd.body = self._stmts(hd.body)
        if isinstance(st, (ast.FunctionDef, ast.AsyncFunctionDef, ast.ClassDef)):
            return [st]
        tag = f'i{self.count}'
        # A / C
        if isinstance(st, ast.Expr):
            v = st.value
            h = self._target(v)
            if h is not None and h.kind == 'proc':
                b = _bind(h, v, self.caller_names, tag)
                if b is not None:
                    self.count += 1
                    return b[0] + _instantiate(h, b[1], st)
            if isinstance(v, ast.YieldFrom):
                h = self._target(v.value)
                if h is not None and h.kind == 'gen':
                    b = _bind(h, v.value, self.caller_names, tag)
                    if b is not None:
                        self.count += 1
                        return b[0] + _instantiate(h, b[1], st)
        # E: `for T in helper(...): BODY` where the helper is a generator whose only yield is the last thing its single loop does:
        # the consumer's body takes the place of the yield
        if isinstance(st, ast.For) and not st.orelse:
            h = self._target(st.iter)
            if h is not None and h.kind == 'gen' and _loop_gen(h):
                b = _bind(h, st.iter, self.caller_names, tag)
                if b is not None:
                    self.count += 1
                    inst = _instantiate(h, b[1], st)
                    loop = inst[-1]

                    def place(body: list[ast.stmt]) -> bool:
                        last = body[-1]
                        if isinstance(last, ast.Expr) and isinstance(last.value, ast.Yield):
                            val = last.value.value if last.value.value is not None else ast.Constant(value=None)
                            body[-1:] = [ast.copy_location(ast.Assign(targets=[st.target], value=val, lineno=st.lineno), st)] + st.body
                            return True
                        if isinstance(last, ast.If):
                            return place(last.body) or (bool(last.orelse) and place(last.orelse))
                        return False
                    if place(loop.body):  # type: ignore[attr-defined]
                        return b[0] + inst
        # B
        val = getattr(st, 'value', None) if isinstance(st, (ast.Assign, ast.AnnAssign, ast.AugAssign, ast.Return)) else None
        h = self._target(val) if val is not None else None
        if h is not None and h.kind == 'value':
            b = _bind(h, val, self.caller_names, tag)
            if b is not None:
                self.count += 1
                inst = _instantiate(h, b[1], st)
                ret = inst.pop()
                st.value = ret.value  # type: ignore[attr-defined]
                return b[0] + inst + [st]
        # B': a value helper used inside a larger expression of the statement, where it is the first call evaluated and is
        # evaluated unconditionally: compute it into a fresh local just before the statement
        if isinstance(st, (ast.Assign, ast.AnnAssign, ast.AugAssign, ast.Return, ast.Expr, ast.If)):
            root = st.test if isinstance(st, ast.If) else getattr(st, 'value', None)
            hit = self._first_call(root) if root is not None else None
            if hit is not None:
                call, h = hit
                b = _bind(h, call, self.caller_names, tag)
                if b is not None:
                    self.count += 1
                    inst = _instantiate(h, b[1], st)
                    ret = inst.pop()
                    tmp = f'_{tag}_{h.fn.name.strip("_")}'
                    assign = ast.copy_location(ast.Assign(targets=[ast.Name(id=tmp, ctx=ast.Store())], value=ret.value, lineno=st.lineno), st)  # type: ignore[attr-defined]

                    class R(ast.NodeTransformer):
                        def visit_Call(self, n: ast.Call) -> Any:
                            if n is call:
                                return ast.copy_location(ast.Name(id=tmp, ctx=ast.Load()), n)
                            return self.generic_visit(n)
                    if isinstance(st, ast.If):
                        st.test = R().visit(st.test)
                    else:
                        st.value = R().visit(st.value)  # type: ignore[attr-defined]
                    return b[0] + inst + [assign, st]
        # D: expression helpers anywhere inside the statement (not inside nested bodies, those were handled above)
        st2 = _ExprInliner(self).visit_shallow(st)
        return [st2]

    def _first_call(self, root: ast.AST) -> tuple[ast.Call, _Helper] | None:
        """The single value-helper call in `root` if it is evaluated unconditionally and before any other call."""
        found: list[tuple[ast.Call, _Helper, bool]] = []

        def walk(n: ast.AST, cond: bool) -> None:
            if isinstance(n, (ast.Lambda, ast.GeneratorExp, ast.ListComp, ast.SetComp, ast.DictComp)):
                return
            if isinstance(n, ast.Call):
                h = self._target(n)
                if h is not None and h.kind == 'value':
                    found.append((n, h, cond))
            if isinstance(n, ast.BoolOp):
                for i_, v in enumerate(n.values):
                    walk(v, cond or i_ > 0)
                return
            if isinstance(n, ast.IfExp):
                walk(n.test, cond)
                walk(n.body, True)
                walk(n.orelse, True)
                return
            for c in ast.iter_child_nodes(n):
                walk(c, cond)
        walk(root, False)
        if len(found) != 1 or found[0][2]:
            return None
        call, h, _c = found[0]
        inner = {id(x) for x in ast.walk(call)}
        for x in ast.walk(root):
            if isinstance(x, (ast.Call, ast.Yield, ast.YieldFrom, ast.Await)) and id(x) not in inner and x is not call:
                if (x.lineno, x.col_offset) < (call.lineno, call.col_offset):
                    return None
        return call, h


class _ExprInliner(ast.NodeTransformer):
    def __init__(self, owner: _Inliner) -> None:
        self.owner = owner

    def visit_shallow(self, st: ast.stmt) -> ast.stmt:
        for fld, v in ast.iter_fields(st):
            if fld in ('body', 'orelse', 'finalbody', 'handlers'):
                continue
            if isinstance(v, ast.AST):
                setattr(st, fld, self.visit(v))
            elif isinstance(v, list):
                setattr(st, fld, [self.visit(x) if isinstance(x, ast.AST) else x for x in v])
        return st

    def visit_Lambda(self, n: ast.Lambda) -> Any:
        return n

    def visit_Call(self, n: ast.Call) -> Any:
        self.generic_visit(n)
        h = self.owner._target(n)
        if h is not None and h.kind == 'expr':
            b = _bind(h, n, self.owner.caller_names, f'i{self.owner.count}')
            if b is not None and not b[0]:
                self.owner.count += 1
                expr = _Sub(b[1]).visit(copy.deepcopy(h.body[0].value))  # type: ignore[attr-defined]
                return ast.copy_location(expr, n)
        return n


def unhelper(tree: ast.Module, module: str) -> int:
    """Inline non-pinned helpers in place; returns the number of call sites inlined."""
    total = 0
    for _round in range(3):
        n = 0
        mod_helpers = {f.name: _Helper(f, False) for f in tree.body
                       if isinstance(f, ast.FunctionDef) and f'{module}:{f.name}' not in PINNED_FUNCTIONS and f.name.startswith('_')}
        mod_helpers = {k: v for k, v in mod_helpers.items() if v.kind}
        scopes: list[tuple[dict[str, _Helper], list[ast.FunctionDef]]] = [({}, [f for f in tree.body if isinstance(f, ast.FunctionDef)])]
        for c in tree.body:
            if isinstance(c, ast.ClassDef):
                def _static(f: ast.FunctionDef) -> bool:
                    return len(f.decorator_list) == 1 and isinstance(f.decorator_list[0], ast.Name) and f.decorator_list[0].id == 'staticmethod'
                hs = {f.name: _Helper(f, not _static(f)) for f in c.body
                      if isinstance(f, ast.FunctionDef) and f'{module}:{c.name}.{f.name}' not in PINNED_FUNCTIONS and f.name.startswith('_') and
                      not f.name.startswith('__') and (_static(f) or (f.args.args and f.args.args[0].arg == 'self'))}
                for h in hs.values():
                    h.owner = c.name
                hs = {k: v for k, v in hs.items() if v.kind}
                scopes.append((hs, [f for f in c.body if isinstance(f, ast.FunctionDef)]))
        for hs, fns in scopes:
            for fn in fns:
                # closures defined directly in the function that are not part of the pinned vocabulary
                owner = next((c.name for c in tree.body if isinstance(c, ast.ClassDef) and fn in c.body), None)
                fq0 = f'{module}:{owner}.{fn.name}' if owner else f'{module}:{fn.name}'
                nh = {g.name: _Helper(g, False, nested=True) for g in fn.body
                      if isinstance(g, ast.FunctionDef) and f'{fq0}.{g.name}' not in PINNED_FUNCTIONS}
                nh = {k: v for k, v in nh.items() if v.kind}
                if not hs and not mod_helpers and not nh:
                    continue
                inl = _Inliner(hs, {**mod_helpers, **nh}, fn)
                fn.body = inl._stmts(fn.body)
                n += inl.count
                for k, v in nh.items():
                    if not any(isinstance(x, ast.Name) and x.id == k for s in fn.body if s is not v.fn for x in ast.walk(s)):
                        fn.body = [s for s in fn.body if s is not v.fn]
        total += n
        if not n:
            break
    if total:
        # a helper whose every use was inlined no longer exists for the rules (its statements live in the callers now)
        def refs(name: str, method: bool, scope: ast.AST) -> int:
            k = 0
            for x in ast.walk(scope):
                if method and isinstance(x, ast.Attribute) and x.attr == name and not (isinstance(x.ctx, ast.Store)):
                    k += 1
                if not method and isinstance(x, ast.Name) and x.id == name:
                    k += 1
            return k
        for f in [f for f in tree.body if isinstance(f, ast.FunctionDef)]:
            if f'{module}:{f.name}' not in PINNED_FUNCTIONS and f.name.startswith('_') and refs(f.name, False, tree) == 0:
                tree.body.remove(f)
        for c in tree.body:
            if isinstance(c, ast.ClassDef):
                for f in [f for f in c.body if isinstance(f, ast.FunctionDef)]:
                    if f'{module}:{c.name}.{f.name}' not in PINNED_FUNCTIONS and f.name.startswith('_') and not f.name.startswith('__') and \
                            refs(f.name, True, tree) == 0:
                        c.body.remove(f)
        ast.fix_missing_locations(tree)
    return total


def restore_param_names(tree: ast.Module, module: str) -> int:
    """Alpha-rename parameters of pinned functions back to the names they had when the rules were written (same arity only).

    Parameter names of internal functions show up in the rules only through the tables' value tags; renaming them is a
    behaviour-preserving edit (all internal call sites are updated with it), so the analysis undoes it.  Keyword arguments at call
    sites `self.<name>(..., new=...)` / `<name>(..., new=...)` are renamed along.
    """
    from .vocabulary import PINNED_PARAMS
    n = 0
    renames: dict[str, dict[str, str]] = {}

    def handle(fn: ast.FunctionDef, fq: str) -> None:
        nonlocal n
        want = PINNED_PARAMS.get(fq)
        if want is None:
            return
        a = fn.args
        have = [x.arg for x in a.posonlyargs + a.args] + [x.arg for x in a.kwonlyargs]
        if len(have) != len(want) or have == list(want) or a.vararg or a.kwarg:
            return
        mp = {h: w for h, w in zip(have, want) if h != w}
        used = {x.id for x in ast.walk(fn) if isinstance(x, ast.Name)} | set(have)
        if any(w in used for w in mp.values()):
            return  # the old name is in use for something else
        for x in a.posonlyargs + a.args + a.kwonlyargs:
            if x.arg in mp:
                x.arg = mp[x.arg]
        for x in ast.walk(fn):
            if isinstance(x, ast.Name) and x.id in mp:
                x.id = mp[x.id]
        renames[fn.name] = mp
        n += len(mp)
    for f in tree.body:
        if isinstance(f, ast.FunctionDef):
            handle(f, f'{module}:{f.name}')
        elif isinstance(f, ast.ClassDef):
            for g in f.body:
                if isinstance(g, ast.FunctionDef):
                    handle(g, f'{module}:{f.name}.{g.name}')
    if renames:
        for c in ast.walk(tree):
            if isinstance(c, ast.Call):
                nm = c.func.attr if isinstance(c.func, ast.Attribute) else (c.func.id if isinstance(c.func, ast.Name) else None)
                if nm in renames:
                    for k in c.keywords:
                        if k.arg in renames[nm]:
                            k.arg = renames[nm][k.arg]
    return n
