"""Command line: /verif/check <ID> [--tier quick|thorough] [--repo DIR] [--replay FILE]."""
from __future__ import annotations

import argparse
import json
import os
import sys
import time
import traceback

from .model import AnalysisError, Repo
from .report import Ctx, finish


def run_property(prop: str, repo_root: str, tier: str, seed: int, write_evidence: bool = True,
                 replay_dir: str | None = None, only_rule: str | None = None) -> int:
    from .registry import PROPERTIES
    t0 = time.time()
    if prop not in PROPERTIES:
        print(f'ANALYSIS-ERROR: unknown property {prop}')
        return 2
    spec = PROPERTIES[prop]
    try:
        repo = Repo(repo_root)
        ctx = Ctx(prop, repo, tier, seed)
        ctx.counters['modules_parsed'] = len(repo.modules)
        ctx.counters['functions_indexed'] = len(repo.all_functions())
        for rule_id, fn, rtier in spec['rules']:
            if rtier == 'thorough' and tier != 'thorough':
                continue
            if only_rule and rule_id != only_rule:
                continue
            try:
                fn(ctx, rule_id)
            except AnalysisError as e:
                # one rule losing sight of its subject must not hide what the other rules of the property report
                ctx.rule_errors.append(f'{rule_id} ({fn.__name__}): {e}')
        if os.environ.get('WCVERIF_LIST'):
            for o in ctx.obs:
                print(('ok  ' if o.ok else 'FAIL'), o.key, '|', o.site, '|', o.expect[:70], '|', o.got[:90])
        if not ctx.obs and not ctx.rule_errors:
            raise AnalysisError(f'{prop}: no obligations were generated')
        return finish(ctx, t0, spec['explanation'], spec['assumptions'], write_evidence, replay_dir)
    except AnalysisError as e:
        print(f'ANALYSIS-ERROR: property={prop} {e}')
        return 2
    except Exception:  # a crash of the checker is never a verdict
        traceback.print_exc()
        print(f'ANALYSIS-ERROR: property={prop} internal error in the checker (see traceback)')
        return 2


def main(argv: list[str] | None = None) -> int:
    ap = argparse.ArgumentParser(prog='check')
    ap.add_argument('prop')
    ap.add_argument('--tier', default=os.environ.get('VERIF_TIER', 'quick'), choices=['quick', 'thorough'])
    ap.add_argument('--repo', default='/repo')
    ap.add_argument('--replay', default=None, help='re-evaluate the obligation stored in a replay file')
    ap.add_argument('--rule', default=None)
    ap.add_argument('--no-evidence', action='store_true')
    ap.add_argument('--replay-dir', default=None)
    a = ap.parse_args(argv)
    seed = int(os.environ.get('VERIF_SEED', '0') or 0)
    if a.replay:
        with open(a.replay, encoding='utf-8') as fh:
            rp = json.load(fh)
        print(f'replaying {rp["key"]} ({rp["rule"]}) on {a.repo}')
        rc = run_property(rp['property'], a.repo, a.tier, seed, write_evidence=False, replay_dir=a.replay_dir)
        return rc
    if a.prop == 'all':
        from .registry import PROPERTIES
        worst = 0
        for p in PROPERTIES:
            rc = run_property(p, a.repo, a.tier, seed, not a.no_evidence, a.replay_dir)
            worst = max(worst, rc)
        return worst
    if a.tier == 'thorough':
        from .selftest import run_selftest
        rc = run_property(a.prop, a.repo, a.tier, seed, not a.no_evidence, a.replay_dir, a.rule)
        if rc == 0 and a.repo == '/repo':
            rc2 = run_selftest(a.prop, seed)
            if rc2 != 0:
                return rc2
        return rc
    return run_property(a.prop, a.repo, a.tier, seed, not a.no_evidence, a.replay_dir, a.rule)


if __name__ == '__main__':
    sys.exit(main())
