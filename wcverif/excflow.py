"""Exception-escape analysis: which exceptions can leave each function of the package.

escapes(f) is the least fixpoint of: explicit raises, re-raises, implicit StopIteration of next(...), modelled builtin
raisers and the escapes of resolved callees, minus what enclosing handlers catch.  Language rules encoded: a `for`
absorbs only its own iterator's StopIteration (never one raised in its body); a StopIteration that leaves a generator
body becomes RuntimeError.  Context refinement: a raise that is control-dependent on a boolean parameter being true is
dropped at call sites that bind that parameter to False (literally or by default).
"""
from __future__ import annotations

import ast
from dataclasses import dataclass
from typing import Any

from .callgraph import resolve_callee
from .cfg import has_yield
from .model import FuncInfo, Repo, norm_src, walk_no_nested
from .pathq import fq

BASES = {
    'BaseException': None, 'Exception': 'BaseException', 'StopIteration': 'Exception', 'ArithmeticError': 'Exception',
    'OverflowError': 'ArithmeticError', 'LookupError': 'Exception', 'KeyError': 'LookupError', 'IndexError': 'LookupError',
    'ValueError': 'Exception', 'UnicodeError': 'ValueError', 'UnicodeDecodeError': 'UnicodeError',
    'UnicodeEncodeError': 'UnicodeError', 'TypeError': 'Exception', 'SyntaxError': 'Exception', 'RuntimeError': 'Exception',
    'NotImplementedError': 'RuntimeError', 'RecursionError': 'RuntimeError', 'OSError': 'Exception',
    'AttributeError': 'Exception', 'AssertionError': 'Exception', 'ExpansionLimitException': 'Exception',
    'DeprecationWarning': 'Exception',
}


@dataclass(frozen=True)
class Esc:
    exc: str  # class name
    origin: str  # "module:function:line kind"
    via: tuple = ()  # call chain (function fq names) from the reporting function down to the origin
    cond: frozenset = frozenset()  # parameter names that must be True in the origin function for the raise to happen

    def short(self) -> str:
        return f'{self.exc} from {self.origin}' + (f' via {" -> ".join(self.via)}' if self.via else '')


class ExcFlow:
    def __init__(self, repo: Repo) -> None:
        self.repo = repo
        self.bases = dict(BASES)
        for m in repo.modules.values():
            for ci in m.classes.values():
                for b in ci.bases:
                    bn = norm_src(b).split('.')[-1]
                    if bn in self.bases or bn.endswith('Exception') or bn.endswith('Error'):
                        self.bases[ci.name] = bn
        self.funcs = {f.fq: f for f in repo.all_functions()}
        self.escapes: dict[str, frozenset] = {k: frozenset() for k in self.funcs}
        self.iterations = 0
        self._cb_cache: dict[int, Any] = {}
        self._pc_cache: dict[int, frozenset] = {}
        self.raise_sites = 0
        self.next_sites = 0
        self._solve()

    def is_sub(self, exc: str, catcher: str) -> bool:
        cur: str | None = exc
        seen = 0
        while cur is not None and seen < 20:
            if cur == catcher:
                return True
            cur = self.bases.get(cur, 'Exception' if cur not in ('BaseException',) else None)
            if cur == 'Exception' and catcher == 'Exception':
                return True
            seen += 1
        return False

    # ---------------------------------------------------------------------------------------------------------
    def _solve(self) -> None:
        changed = True
        while changed:
            changed = False
            self.iterations += 1
            for k, fi in self.funcs.items():
                new = self._function(fi)
                if {(e.exc, e.origin, e.cond) for e in new} != {(e.exc, e.origin, e.cond) for e in self.escapes[k]}:
                    self.escapes[k] = new
                    changed = True
            if self.iterations > 50:
                break

    def _function(self, fi: FuncInfo) -> frozenset:
        if not isinstance(getattr(fi.node, 'body', None), list):
            body_esc = self._expr(fi, fi.node.body, ())
        else:
            body_esc = self._block(fi, fi.node.body, ())
        out = set()
        gen = isinstance(getattr(fi.node, 'body', None), list) and any(has_yield(s) for s in fi.node.body)
        for e in body_esc:
            if gen and e.exc == 'StopIteration':
                out.add(Esc('RuntimeError', e.origin + ' (StopIteration leaving a generator)', e.via, e.cond))
            else:
                out.add(e)
        best: dict[tuple, Esc] = {}
        for e in out:
            k = (e.exc, e.origin, e.cond)
            if k not in best or (len(e.via), e.via) < (len(best[k].via), best[k].via):
                best[k] = e
        return frozenset(best.values())

    def _block(self, fi: FuncInfo, body: list[ast.stmt], handlers: tuple) -> set:
        out: set = set()
        for st in body:
            out |= self._stmt(fi, st, handlers)
        return out

    def _catches(self, h: ast.ExceptHandler) -> list[str]:
        if h.type is None:
            return ['BaseException']
        ts = h.type.elts if isinstance(h.type, ast.Tuple) else [h.type]
        return [norm_src(t).split('.')[-1] for t in ts]

    def _stmt(self, fi: FuncInfo, st: ast.stmt, handlers: tuple) -> set:
        if isinstance(st, ast.Try):
            inner = self._block(fi, st.body, handlers)
            out: set = set()
            for e in inner:
                caught = False
                for h in st.handlers:
                    if any(self.is_sub(e.exc, c) for c in self._catches(h)):
                        caught = True
                        break
                if not caught:
                    out.add(e)
            for h in st.handlers:
                names = self._catches(h)
                hb = self._block(fi, h.body, handlers)
                # bare `raise` re-raises what was caught: the classes of `inner` that this handler catches
                for s2 in [x for b in h.body for x in [b, *walk_no_nested(b)]]:
                    if isinstance(s2, ast.Raise) and s2.exc is None:
                        for e in inner:
                            if any(self.is_sub(e.exc, c) for c in names):
                                out.add(e)
                out |= hb
            out |= self._block(fi, st.orelse, handlers)
            out |= self._block(fi, st.finalbody, handlers)
            return out
        if isinstance(st, ast.Raise):
            self.raise_sites += 1
            if st.exc is None:
                return set()  # handled where the enclosing handler is known
            tgt = st.exc.func if isinstance(st.exc, ast.Call) else st.exc
            name = norm_src(tgt).split('.')[-1]
            cond = self._param_conditions(fi, st)
            out = {Esc(name, f'{fi.fq}:{st.lineno} raise', (), cond)}
            if isinstance(st.exc, ast.Call):
                for a in st.exc.args:
                    out |= self._expr(fi, a, handlers)
            return out
        if isinstance(st, (ast.FunctionDef, ast.AsyncFunctionDef, ast.ClassDef)):
            return set()
        out = set()
        for fld in ('test', 'iter', 'value', 'targets', 'target', 'items', 'exc', 'msg'):
            v = getattr(st, fld, None)
            if v is None:
                continue
            for x in (v if isinstance(v, list) else [v]):
                if isinstance(x, ast.withitem):
                    out |= self._expr(fi, x.context_expr, handlers)
                elif isinstance(x, ast.AST):
                    out |= self._expr(fi, x, handlers)
        for fld in ('body', 'orelse'):
            v = getattr(st, fld, None)
            if isinstance(v, list) and v and isinstance(v[0], ast.stmt):
                out |= self._block(fi, v, handlers)
        return out

    def _param_conditions(self, fi: FuncInfo, st: ast.stmt) -> frozenset:
        if id(st) not in self._pc_cache:
            self._pc_cache[id(st)] = self._param_conditions_uncached(fi, st)
        return self._pc_cache[id(st)]

    def _param_conditions_uncached(self, fi: FuncInfo, st: ast.stmt) -> frozenset:
        try:
            q = fq(fi)
            g = q.guards(st)
        except Exception:
            return frozenset()
        params = set(fi.params())
        return frozenset(t for t, pol in g if pol == 'T' and t in params)

    def _expr(self, fi: FuncInfo, e: ast.AST, handlers: tuple) -> set:
        out: set = set()
        for n in [e, *walk_no_nested(e)]:
            if isinstance(n, (ast.Lambda,)):
                continue
            if isinstance(n, ast.Call):
                out |= self._call(fi, n)
        return out

    def _call(self, fi: FuncInfo, c: ast.Call) -> set:
        out: set = set()
        fname = norm_src(c.func)
        if fname == 'next':
            self.next_sites += 1
            out.add(Esc('StopIteration', f'{fi.fq}:{c.lineno} next()'))
            return out
        r = resolve_callee(self.repo, fi, c)
        if isinstance(r, list):
            for t in r:
                for e in self.escapes.get(t.fq, ()):
                    if e.cond and not e.via and self._binds_false(t, c, e.cond):
                        continue
                    # conditions only refer to the origin function's own parameters; once propagated they are dropped
                    out.add(Esc(e.exc, e.origin, (t.fq,) + e.via if len(e.via) < 6 else e.via, frozenset()))
        elif isinstance(r, str):
            if r == 'unicodedata.lookup':
                out.add(Esc('KeyError', f'{fi.fq}:{c.lineno} unicodedata.lookup'))
        if not isinstance(r, list):
            # function values handed to an external / unresolved callee are assumed to be called by it (re.sub callbacks)
            from .callgraph import resolve_func_expr
            for a in list(c.args) + [k.value for k in c.keywords]:
                if isinstance(a, (ast.Name, ast.Attribute)):
                    ck = id(a)
                    if ck not in self._cb_cache:
                        self._cb_cache[ck] = resolve_func_expr(self.repo, fi, a)
                    rr = self._cb_cache[ck]
                    if isinstance(rr, list):
                        for t in rr:
                            if t.name == '__init__':
                                continue
                            for e in self.escapes.get(t.fq, ()):
                                out.add(Esc(e.exc, e.origin, (t.fq,) + e.via if len(e.via) < 6 else e.via, frozenset()))
        return out

    def _binds_false(self, callee: FuncInfo, c: ast.Call, cond: frozenset) -> bool:
        """True if some parameter in `cond` is bound to False at this call site (so the guarded raise cannot happen)."""
        params = callee.params()
        if callee.cls and callee.parent is None and params and params[0] in ('self', 'cls'):
            params = params[1:]
        defaults = callee.param_defaults()
        for p in cond:
            if p not in params:
                continue
            idx = params.index(p)
            arg = next((k.value for k in c.keywords if k.arg == p), c.args[idx] if idx < len(c.args) else None)
            if arg is None:
                d = defaults.get(p)
                if isinstance(d, ast.Constant) and d.value is False:
                    return True
            elif isinstance(arg, ast.Constant) and arg.value is False:
                return True
        return False


def excflow(repo: Repo) -> ExcFlow:
    store = repo.__dict__.setdefault('_wc_cache', {})
    if 'excflow' not in store:
        store['excflow'] = ExcFlow(repo)
    return store['excflow']
