"""Which rules decide which property."""
from __future__ import annotations

from .rules import frag, c01, c02, c03, c10, c11, c14, c18, c19, c20, cglob, cflags, clists, cextra

ASSUME = [
    'stdlib ast and re._parser front ends are correct',
    "the checker's reference tables (fragment roles, decision tables, C-locale classes) state the documented behaviour",
    'a satisfied obligation set is a necessary condition of the property, not the property itself (see DESIGN.md)',
]

PROPERTIES = {
    'C01': {
        'explanation': 'static analysis of /repo/wcmatch: regex-fragment language equivalence against documented roles, '
                       'extglob dispatch table, anchoring and application of compiled patterns, POSIX class tables, '
                       'literal escaping',
        'assumptions': ASSUME,
        'rules': [
            ('C01-R1', frag.rule_attr_fragments, 'quick'),
            ('C01-R1', frag.rule_const_fragments, 'quick'),
            ('C01-R2', c01.rule_extglob_dispatch, 'quick'),
            ('C01-R3i', frag.rule_parse_wrapper, 'quick'),
            ('C01-R3ii', c01.rule_fullmatch_sites, 'quick'),
            ('C01-R4', c01.rule_posix_tables, 'quick'),
            ('C01-R5', c01.rule_literal_escaping, 'quick'),
            ('C17-R7', cextra.rule_flag_mask_agreement, 'quick'),
            ('C09-R4', cextra.rule_extend_guards, 'quick'),
            ('C01-R6', cextra.rule_inverse_cleanup, 'quick'),
            ('C01-R7', cextra.rule_sequence_shape, 'quick'),
            ('C03-R3', c03.rule_start_typestate, 'quick'),  # an extglob group that loses START guards changes what the group matches
            ('C03-R2', c03.rule_guard_tables, 'quick'),  # rounds 4/5: a seeded change of C01 was visible to this rule only
        ],
    },
    'C02': {
        'explanation': 'static analysis of /repo/wcmatch: path-mode fragment language equivalence, separator discipline at '
                       'every emission site (CFG guards), scanner abort predicates, globstar / MATCHBASE decision tables, '
                       'NODIR twins, forced PATHNAME (flag flow)',
        'assumptions': ASSUME,
        'rules': [
            ('C02-R1', frag.rule_attr_fragments, 'quick'),
            ('C02-R1', frag.rule_site_templates, 'quick'),
            ('C02-R2', c02.rule_separator_consumers, 'quick'),
            ('C02-R3', c02.rule_separator_pairing, 'quick'),
            ('C02-R4', c02.rule_bracket_abort, 'quick'),
            ('C02-R5', c02.rule_globstar_predicate, 'quick'),
            ('C02-R6', c02.rule_matchbase, 'quick'),
            ('C02-R7', c02.rule_nodir, 'quick'),
            ('C02-R8', c02.rule_forced_pathname, 'quick'),
            ('C03-R2', c03.rule_guard_tables, 'quick'),
            ('C02-R9', cextra.rule_references_table, 'quick'),
            ('C02-R10', cextra.rule_lookahead_putback, 'quick'),
            ('C01-R6', cextra.rule_inverse_cleanup, 'quick'),  # !(..) must stop at the separator in path mode
            ('C01-R3ii', c01.rule_fullmatch_sites, 'quick'),  # round 4: a seeded change of C02 was visible to this rule only
        ],
    },
    'C03': {
        'explanation': 'static analysis of /repo/wcmatch: dot-guard fragment language equivalence, guard selection decision '
                       'tables, START typestate of the parser, forced DOTMATCH on exclusion compile sites (bit-vector flag '
                       'flow), hidden filter of the glob walker (CFG guards)',
        'assumptions': ASSUME,
        'rules': [
            ('C03-R1', frag.rule_attr_fragments, 'quick'),
            ('C03-R1', frag.rule_const_fragments, 'quick'),
            ('C03-R1', frag.rule_handle_dot_inline, 'quick'),
            ('C03-R2', c03.rule_guard_tables, 'quick'),
            ('C02-R2', c02.rule_separator_consumers, 'quick'),
            ('C02-R3', c02.rule_separator_pairing, 'quick'),
            ('C03-R3', c03.rule_start_typestate, 'quick'),
            ('C03-R4', c03.rule_exclusion_dotmatch, 'quick'),
            ('C03-R5', c03.rule_walker_hidden, 'quick'),
            ('C05-R4', cglob.rule_specials_and_start, 'quick'),  # round 4: a seeded change of C03 was visible to this rule only
        ],
    },
    'C11': {
        'explanation': 'static analysis of /repo/wcmatch: value of every `limit` default (constant resolver), forwarding of '
                       '`limit` along every delegation (resolved call sites), hand-over to bracex and exception conversion, '
                       'clamp discipline of budget arithmetic (CFG successor rule), budget continuity across passes',
        'assumptions': ASSUME,
        'rules': [
            ('C11-R1', c11.rule_limit_defaults, 'quick'),
            ('C11-R2', c11.rule_limit_forwarding, 'quick'),
            ('C11-R3', c11.rule_limit_handover, 'quick'),
            ('C11-R4', c11.rule_budget_clamp, 'quick'),
            ('C11-R5', c11.rule_budget_continuity, 'quick'),
            ('C11-R6', c11.rule_expansion_unavoidable, 'quick'),
            ('C08-R4', clists.rule_translate_compile_siblings, 'quick'),  # budget arithmetic of translate and compile_pattern must agree
        ],
    },
    'C18': {
        'explanation': 'static analysis of /repo/wcmatch: latin-1 equality of every (str, bytes) twin constant, typing of '
                       'every twin subscript against the enclosing isinstance test (CFG guards / reaching definitions), '
                       'decode/encode pairing, dominance of the TypeError tests, literal twins inside functions',
        'assumptions': ASSUME,
        'rules': [
            ('C18-R1', c18.rule_twin_constants, 'quick'),
            ('C18-R2', c18.rule_twin_indexing, 'quick'),
            ('C18-R3', c18.rule_latin1_pairing, 'quick'),
            ('C18-R4', c01.rule_posix_tables, 'quick'),
            ('C18-R5', c18.rule_type_checks, 'quick'),
            ('C18-R6', c18.rule_literal_twins, 'quick'),
            ('C07-R2', clists.rule_is_negative_table, 'quick'),
            ('C10-R5', c10.rule_range_safety, 'quick'),
            ('C18-R7', cextra.rule_mypy_str_bytes, 'quick'),
            ('C20-R1', c20.rule_decoder_roles, 'quick'),  # the bytes decoder indexes a regex with one group fewer
            ('C14-R3', c14.rule_wcmatch_predicates, 'quick'),
            ('C02-R7', c02.rule_nodir, 'quick'),  # round 4: a seeded change of C18 was visible to this rule only
            ('C02-R5', c02.rule_globstar_predicate, 'quick'),  # round 4: a seeded change of C18 was visible to this rule only
            ('C05-R4', cglob.rule_specials_and_start, 'quick'),  # F29: descriptor scans report str names
        ],
    },
    'C19': {
        'explanation': 'effect analysis of /repo/wcmatch: no function writes module-level state; cache-key completeness of the '
                       'only memo (_compile) over the call-graph closure of what it reads; parser/walker objects are per call; '
                       'immutability and eq/hash/pickle field agreement of the matcher objects',
        'assumptions': ASSUME + ["CPython's functools.lru_cache and re are thread-safe",
                                 'tests that mock util.platform change an ambient input that is deliberately not in the key'],
        'rules': [
            ('C19-R1', c19.rule_no_module_state, 'quick'),
            ('C19-R2', c19.rule_cache_key, 'quick'),
            ('C19-R3', c19.rule_per_call_objects, 'quick'),
            ('C19-R4', c19.rule_immutability, 'quick'),
            ('C19-R5', c19.rule_glob_instance_state, 'quick'),
            ('C07-R7', cextra.rule_match_siblings, 'quick'),
        ],
    },
    'C20': {
        'explanation': 'static analysis of /repo/wcmatch: roles of the decoder regex groups derived from their language and '
                       'compared with the group numbers the callback reads (decision table of `norm`), control dependence of '
                       'every decoding expression on RAWCHARS, translation table, normalise-before-expand reaching definitions',
        'assumptions': ASSUME,
        'rules': [
            ('C20-R1', c20.rule_decoder_roles, 'quick'),
            ('C20-R2', c20.rule_decode_only_raw, 'quick'),
            ('C20-R3', c20.rule_translation_table, 'quick'),
            ('C20-R4', c20.rule_normalise_before_expand, 'quick'),
            ('C14-R1', c14.rule_wcmatch_flags, 'quick'),  # RAWCHARS must survive WcMatch's flag masking
            ('C08-R4', clists.rule_translate_compile_siblings, 'quick'),
            ('C07-R5', clists.rule_expand_order, 'quick'),  # round 4: a seeded change of C20 was visible to this rule only
        ],
    },
    'C14': {
        'explanation': 'static analysis of /repo/wcmatch/wcmatch.py: bit-vector tables of the flag words, path enumeration of '
                       'the file loop (exactly one of on_match/on_skip, skip accounting), decision tables of the validity '
                       'predicates, in-place pruning of the os.walk list',
        'assumptions': ASSUME + ['os.walk honours in-place edits of its dirs list in top-down mode (documented stdlib behaviour)'],
        'rules': [
            ('C14-R1', c14.rule_wcmatch_flags, 'quick'),
            ('C14-R2', c14.rule_match_or_skip, 'quick'),
            ('C14-R3', c14.rule_wcmatch_predicates, 'quick'),
            ('C14-R4', c14.rule_pruning, 'quick'),
            ('C15-R3', c14.rule_run_prologue, 'quick'),
            ('C14-R5', cextra.rule_is_hidden, 'quick'),
            ('C07-R3', clists.rule_negateall_default, 'quick'),  # WcMatch relies on the implicit `**` of negation-only patterns
            ('C08-R4', clists.rule_translate_compile_siblings, 'quick'),
            ('C02-R3', c02.rule_separator_pairing, 'quick'),  # rounds 4/5: a seeded change of C14 was visible to this rule only
        ],
    },
    'C15': {
        'explanation': 'control-flow analysis of WcMatch._walk / imatch: every CFG cycle polls the abort flag with an exiting '
                       'true edge, who-may-write rule for _abort and _skipped, dominance of the per-run prologue, yield operands',
        'assumptions': ASSUME + ['kill() from another thread at an arbitrary instant is not analysed (plain attribute, no synchronisation)'],
        'rules': [
            ('C15-R1', c14.rule_abort_polls, 'quick'),
            ('C15-R2', c14.rule_abort_flag_writers, 'quick'),
            ('C15-R3', c14.rule_run_prologue, 'quick'),
            ('C15-R4', c14.rule_match_or_skip, 'quick'),
            ('C15-R4', c14.rule_yield_passthrough, 'quick'),
            ('C15-R5', cextra.rule_prologue_every_path, 'quick'),
        ],
    },
    'C04': {
        'explanation': 'agreement analysis between the glob walker and the REALPATH matcher: regex application, platform twin '
                       'selection, follow rule, flag normalisation, capture-group budget, directory slash, root-relative '
                       'file-system access (taint rule), existence gate',
        'assumptions': ASSUME + ['equality of the two result sets on real trees is a runtime quantity and is not decided'],
        'rules': [
            ('C01-R3ii', c01.rule_fullmatch_sites, 'quick'),
            ('C04-R2', cglob.rule_platform_twins, 'quick'),
            ('C04-R3', cglob.rule_follow_rule, 'quick'),
            ('C04-R4', cglob.rule_negate_flags_normalised, 'quick'),
            ('C02-R8', c02.rule_forced_pathname, 'quick'),
            ('C04-R5', cglob.rule_globstar_capture, 'quick'),
            ('C04-R5', frag.rule_capture_budget, 'quick'),
            ('C04-R6', cglob.rule_exclusion_slash, 'quick'),
            ('C04-R7', cglob.rule_root_relative_fs, 'quick'),
            ('C04-R8', cglob.rule_no_root_first, 'quick'),
            ('C04-R8', frag.rule_const_fragments, 'quick'),
            ('C04-R9', cglob.rule_existence_gate, 'quick'),
            ('C03-R4', c03.rule_exclusion_dotmatch, 'quick'),
            ('C06-R1', cglob.rule_link_test, 'quick'),
            ('C04-R10', cextra.rule_dirfd_siblings, 'quick'),
            ('C12-R6', cextra.rule_same_name_forwarding, 'quick'),
            ('C07-R7', cextra.rule_match_siblings, 'quick'),
            ('C02-R6', c02.rule_matchbase, 'quick'),
            ('C13-R3', cglob.rule_dedupe_predicate, 'quick'),
            ('C05-R5', cglob.rule_globstar_handover, 'quick'),  # round 4: a seeded change of C04 was visible to this rule only
            ('C02-R7', c02.rule_nodir, 'quick'),  # round 4: a seeded change of C04 was visible to this rule only
        ],
    },
    'C05': {
        'explanation': 'static analysis of the glob walker: full-match application of per-segment patterns, case-fold agreement, '
                       'magic classification, provenance of `.`/`..`, globstar hand-over shape',
        'assumptions': ASSUME + ['completeness on real trees and Bash equivalence are runtime quantities and are not decided'],
        'rules': [
            ('C01-R3ii', c01.rule_fullmatch_sites, 'quick'),
            ('C05-R2', cglob.rule_case_fold_agreement, 'quick'),
            ('C13-R1', cglob.rule_seen_key, 'quick'),
            ('C05-R3', cglob.rule_magic_classification, 'quick'),
            ('C02-R5', c02.rule_globstar_predicate, 'quick'),
            ('C05-R4', cglob.rule_specials_and_start, 'quick'),
            ('C03-R5', c03.rule_walker_hidden, 'quick'),
            ('C05-R5', cglob.rule_globstar_handover, 'quick'),
            ('C02-R6', c02.rule_matchbase, 'quick'),
            ('C05-R6', cextra.rule_loop_fresh_lists, 'quick'),
            ('C09-R4', cextra.rule_extend_guards, 'quick'),
            ('C12-R5', cglob.rule_abs_pattern_def, 'quick'),
            ('C06-R1', cglob.rule_link_test, 'quick'),  # round 4: a seeded change of C05 was visible to this rule only
        ],
    },
    'C06': {
        'explanation': 'control-dependence analysis of the recursive descent on the link test, follow-rule decision tables, symlink '
                       'inspection of the matcher, followlinks of WcMatch',
        'assumptions': ASSUME + ['scandir call counts and wall-clock bounds are not decided'],
        'rules': [
            ('C06-R1', cglob.rule_link_test, 'quick'),
            ('C03-R5', c03.rule_walker_hidden, 'quick'),
            ('C04-R3', cglob.rule_follow_rule, 'quick'),
            ('C02-R6', c02.rule_matchbase, 'quick'),
            ('C06-R3', cglob.rule_fs_match_links, 'quick'),
            ('C04-R5', cglob.rule_globstar_capture, 'quick'),
            ('C14-R4', c14.rule_pruning, 'quick'),
            ('C14-R1', c14.rule_wcmatch_flags, 'quick'),
            ('C04-R4', cglob.rule_negate_flags_normalised, 'quick'),
            ('C03-R4', c03.rule_exclusion_dotmatch, 'quick'),
            ('C05-R5', cglob.rule_globstar_handover, 'quick'),  # the follow rule of `***` must not leak into a later `**`
            ('C04-R9', cglob.rule_existence_gate, 'quick'),
            ('C19-R1', c19.rule_no_module_state, 'quick'),  # a symlink cache shared between calls goes stale
            ('C07-R7', cextra.rule_match_siblings, 'quick'),  # round 4: a seeded change of C06 was visible to this rule only
        ],
    },
    'C12': {
        'explanation': 'static analysis of glob.py: argument forwarding glob -> iglob -> Glob, trailing-separator decision table, '
                       'NODIR pairing, root-relative file-system access (taint rule), definition-before-use of is_abs_pattern',
        'assumptions': ASSUME + ['existence of each result and its spelling are runtime quantities and are not decided'],
        'rules': [
            ('C12-R1', cglob.rule_iglob_glob, 'quick'),
            ('C12-R2', cglob.rule_trailing_separator, 'quick'),
            ('C12-R3', cglob.rule_nodir_glob, 'quick'),
            ('C04-R6', cglob.rule_exclusion_slash, 'quick'),
            ('C04-R2', cglob.rule_platform_twins, 'quick'),
            ('C04-R7', cglob.rule_root_relative_fs, 'quick'),
            ('C12-R5', cglob.rule_abs_pattern_def, 'quick'),
            ('C18-R5', c18.rule_type_checks, 'quick'),
            ('C13-R2', cglob.rule_yield_filtered, 'quick'),
            ('C04-R10', cextra.rule_dirfd_siblings, 'quick'),
            ('C05-R4', cglob.rule_specials_and_start, 'quick'),
            ('C02-R7', c02.rule_nodir, 'quick'),
            ('C12-R6', cextra.rule_same_name_forwarding, 'quick'),
            ('C12-R7', cextra.rule_descriptor_presence, 'quick'),
        ],
    },
    'C13': {
        'explanation': 'static analysis of glob.py: seen-set key agreement, dominance of every yield by the exclusion test, de-dupe '
                       'predicates (propositional comparison), forced DOTMATCH on exclusion compiles',
        'assumptions': ASSUME + ['that the union really is the union on every tree is a runtime quantity and is not decided'],
        'rules': [
            ('C13-R1', cglob.rule_seen_key, 'quick'),
            ('C13-R2', cglob.rule_yield_filtered, 'quick'),
            ('C13-R3', cglob.rule_dedupe_predicate, 'quick'),
            ('C03-R4', c03.rule_exclusion_dotmatch, 'quick'),
            ('C04-R6', cglob.rule_exclusion_slash, 'quick'),
            ('C12-R5', cglob.rule_abs_pattern_def, 'quick'),
            ('C16-R5', cextra.rule_pathlib_norm, 'quick'),
            ('C03-R5', c03.rule_walker_hidden, 'quick'),  # round 4: a seeded change of C13 was visible to this rule only
            ('C06-R1', cglob.rule_link_test, 'quick'),  # round 4: a seeded change of C13 was visible to this rule only
            ('C17-R7', cextra.rule_flag_mask_agreement, 'quick'),  # round 4: a seeded change of C13 was visible to this rule only
        ],
    },
    'C16': {
        'explanation': 'static analysis of wcmatch/pathlib.py: argument forwarding and flag composition of every method '
                       '(bit-vector flag flow), platform decision table of _translate_flags, ValueError sites for absolute '
                       'patterns, directory-slash rule of _translate_path',
        'assumptions': ASSUME + ['the rglob/match correspondence on real trees is a runtime quantity and is not decided'],
        'rules': [
            ('C16-R1', cflags.rule_pathlib_forwarding, 'quick'),
            ('C16-R2', cflags.rule_translate_flags, 'quick'),
            ('C16-R3', cflags.rule_noabsolute, 'quick'),
            ('C16-R4', cflags.rule_translate_path, 'quick'),
            ('C13-R2', cglob.rule_yield_filtered, 'quick'),
            ('C13-R3', cglob.rule_dedupe_predicate, 'quick'),
            ('C04-R2', cglob.rule_platform_twins, 'quick'),
            ('C02-R6', c02.rule_matchbase, 'quick'),
            ('C16-R5', cextra.rule_pathlib_norm, 'quick'),
            ('C17-R7', cextra.rule_flag_mask_agreement, 'quick'),
            ('C12-R6', cextra.rule_same_name_forwarding, 'quick'),
            ('C02-R3', c02.rule_separator_pairing, 'quick'),
            ('C03-R4', c03.rule_exclusion_dotmatch, 'quick'),  # round 4: a seeded change of C16 was visible to this rule only
            ('C04-R9', cglob.rule_existence_gate, 'quick'),  # round 4: a seeded change of C16 was visible to this rule only
        ],
    },
    'C17': {
        'explanation': 'decision tables of the case and platform selectors (bit-vector evaluation over all flag valuations), '
                       'FORCEWIN^FORCEUNIX cancellation on every entry path (flag flow), drive-letter case emission, '
                       'separator-parametric fragment templates',
        'assumptions': ASSUME + ['closure of the accepted language under case / separator substitution is not decided'],
        'rules': [
            ('C17-R1', cflags.rule_case_table, 'quick'),
            ('C17-R2', cflags.rule_platform_table, 'quick'),
            ('C17-R3', cflags.rule_cancellation, 'quick'),
            ('C02-R8', c02.rule_forced_pathname, 'quick'),
            ('C01-R3i', frag.rule_parse_wrapper, 'quick'),
            ('C17-R4', cflags.rule_case_emission, 'quick'),
            ('C05-R2', cglob.rule_case_fold_agreement, 'quick'),
            ('C17-R5', cflags.rule_sep_parametric, 'quick'),
            ('C02-R1', frag.rule_attr_fragments, 'quick'),  # FORCEWIN: every fragment treats `/` and `\\` alike (round 4)
            ('C02-R1', frag.rule_site_templates, 'quick'),
            ('C20-R4', c20.rule_normalise_before_expand, 'quick'),
            ('C17-R7', cextra.rule_flag_mask_agreement, 'quick'),
            ('C17-R6', cextra.rule_case_fold_consistency, 'quick'),
            ('C02-R9', cextra.rule_references_table, 'quick'),
            ('C17-R8', cextra.rule_sequence_separator, 'quick'),
            ('C02-R2', c02.rule_separator_consumers, 'quick'),
            ('C02-R3', c02.rule_separator_pairing, 'quick'),
            ('C07-R1', clists.rule_routing, 'quick'),
            ('C08-R4', clists.rule_translate_compile_siblings, 'quick'),
            ('C02-R10', cextra.rule_lookahead_putback, 'quick'),  # rounds 4/5: a seeded change of C17 was visible to this rule only
        ],
    },
    'C07': {
        'explanation': 'static analysis of the list machinery: routing of negative patterns and forced bits (flag flow), decision '
                       'table of is_negative, NEGATEALL default in the three sibling loops, def-use shape of include/exclude '
                       'evaluation, nesting of the expanders, agreement of the three bracket scanners on bracket extents',
        'assumptions': ASSUME + ['brace expansion itself (bracex) is not analysed'],
        'rules': [
            ('C07-R1', clists.rule_routing, 'quick'),
            ('C03-R4', c03.rule_exclusion_dotmatch, 'quick'),
            ('C04-R4', cglob.rule_negate_flags_normalised, 'quick'),
            ('C07-R2', clists.rule_is_negative_table, 'quick'),
            ('C07-R3', clists.rule_negateall_default, 'quick'),
            ('C07-R4', clists.rule_evaluation_shape, 'quick'),
            ('C13-R3', cglob.rule_dedupe_predicate, 'quick'),
            ('C07-R5', clists.rule_expand_order, 'quick'),
            ('C07-R6', clists.rule_bracket_extents, 'quick'),
            ('C02-R4', c02.rule_bracket_abort, 'quick'),
            ('C09-R4', cextra.rule_extend_guards, 'quick'),
            ('C07-R7', cextra.rule_match_siblings, 'quick'),
            ('C12-R6', cextra.rule_same_name_forwarding, 'quick'),
            ('C02-R7', c02.rule_nodir, 'quick'),  # the NODIR exclusion must see the NEGATEALL default
            ('C04-R3', cglob.rule_follow_rule, 'quick'),  # round 4: a seeded change of C07 was visible to this rule only
            ('C02-R9', cextra.rule_references_table, 'quick'),  # escapes must consume what they escape (SPLIT pre-pass)
        ],
    },
    'C08': {
        'explanation': 'static analysis of translate: capture/plain template pairs (regex equivalence), capture-group budget of every '
                       'fragment, marker handling under self.capture, sibling summaries of translate and compile_pattern, NODIR twins',
        'assumptions': ASSUME + ['language equality of the two regexes for every pattern needs execution and is not decided'],
        'rules': [
            ('C08-R1', frag.rule_capture_pairs, 'quick'),
            ('C08-R2', frag.rule_capture_budget, 'quick'),
            ('C04-R5', cglob.rule_globstar_capture, 'quick'),
            ('C08-R3', clists.rule_marker_handling, 'quick'),
            ('C08-R4', clists.rule_translate_compile_siblings, 'quick'),
            ('C19-R2', c19.rule_cache_key, 'quick'),
            ('C02-R7', c02.rule_nodir, 'quick'),
            ('C01-R2', c01.rule_extglob_dispatch, 'quick'),
            ('C01-R6', cextra.rule_inverse_cleanup, 'quick'),
            ('C01-R3ii', c01.rule_fullmatch_sites, 'quick'),  # translate output is anchored for fullmatch semantics
        ],
    },
    'C09': {
        'explanation': 'table agreement analysis: escape class vs magic tables vs the characters every parser / splitter dispatch chain '
                       'tests (extracted from the AST), decision table of _get_magic_symbols, entry-point forwarding',
        'assumptions': ASSUME + ['"escape(s) denotes exactly {s}" is a language statement and is not decided'],
        'rules': [
            ('C09-R1', clists.rule_escape_covers, 'quick'),
            ('C18-R1', c18.rule_twin_constants, 'quick'),
            ('C09-R2', clists.rule_magic_tables, 'quick'),
            ('C07-R2', clists.rule_is_negative_table, 'quick'),
            ('C09-R3', clists.rule_escape_entry_points, 'quick'),
            ('C05-R3', cglob.rule_magic_classification, 'quick'),
            ('C01-R3ii', c01.rule_fullmatch_sites, 'quick'),
            ('C09-R4', cextra.rule_extend_guards, 'quick'),
            ('C09-R5', cextra.rule_is_magic_guard, 'quick'),
            ('C12-R6', cextra.rule_same_name_forwarding, 'quick'),
            ('C20-R3', c20.rule_translation_table, 'quick'),
            ('C02-R9', cextra.rule_references_table, 'quick'),  # escapes must consume what they escape (SPLIT pre-pass)
            ('C10-R4', c10.rule_recovery_pairing, 'quick'),  # look-ahead / recovery pairing: an escaped character must not be swallowed
        ],
    },
    'C10': {
        'explanation': 'exception-escape analysis (least fixpoint over the resolved call graph with handler subtraction, generator '
                       'and for-loop rules, parameter-guard context refinement), definite-assignment dataflow on every CFG, '
                       'recovery pairing of the StopIteration handlers, range safety of bracket expressions',
        'assumptions': ASSUME + ['re.error from an unbalanced regex, IndexError on current[-1] and RecursionError are not decided',
                                 'StringIter.rewind never rewinds past the beginning (index bookkeeping invariant)'],
        'rules': [
            ('C10-R1', c10.rule_internal_exceptions, 'quick'),
            ('C10-R2', c10.rule_documented_errors, 'quick'),
            ('C10-R3', c10.rule_definite_assignment, 'quick'),
            ('C10-R4', c10.rule_recovery_pairing, 'quick'),
            ('C10-R5', c10.rule_range_safety, 'quick'),
            ('C01-R4', c01.rule_posix_tables, 'quick'),
            ('C20-R3', c20.rule_translation_table, 'quick'),
            ('C02-R5', c02.rule_globstar_predicate, 'quick'),
            ('C17-R5', cflags.rule_sep_parametric, 'quick'),
            ('C02-R10', cextra.rule_lookahead_putback, 'quick'),
            ('C01-R6', cextra.rule_inverse_cleanup, 'quick'),  # unbalanced regex = re.error (F23)
            ('C02-R7', c02.rule_nodir, 'quick'),  # the tail of translate / compile_pattern indexes positive[0]
            ('C05-R4', cglob.rule_specials_and_start, 'quick'),  # F29: descriptor scans report str names
            ('C13-R2', cglob.rule_yield_filtered, 'quick'),  # IndexError from an unguarded pop of the remaining parts
        ],
    },
}
