"""Which rules decide which property."""
from __future__ import annotations

from .rules import frag, c01

ASSUME = [
    'stdlib ast and re._parser front ends are correct',
    "the checker's reference tables (fragment roles, decision tables, C-locale classes) state the documented behaviour",
    'a satisfied obligation set is a necessary condition of the property, not the property itself (see DESIGN.md)',
]

PROPERTIES = {
    'C01': {
        'explanation': 'static analysis of /repo/wcmatch: regex-fragment language equivalence against documented roles, '
                       'extglob dispatch table, anchoring and application of compiled patterns, POSIX class tables, '
                       'literal escaping',
        'assumptions': ASSUME,
        'rules': [
            ('C01-R1', frag.rule_attr_fragments, 'quick'),
            ('C01-R1', frag.rule_const_fragments, 'quick'),
            ('C01-R2', c01.rule_extglob_dispatch, 'quick'),
            ('C01-R3i', frag.rule_parse_wrapper, 'quick'),
            ('C01-R3ii', c01.rule_fullmatch_sites, 'quick'),
            ('C01-R4', c01.rule_posix_tables, 'quick'),
            ('C01-R5', c01.rule_literal_escaping, 'quick'),
        ],
    },
}
