"""Backward program slice of a function body with respect to a set of variables at its end.

The slice keeps (a) every statement that may define one of the wanted variables (names and `self.<attr>`), transitively
through the variables those statements read, (b) every statement that can leave the function or a loop (return / raise /
break / continue) together with the tests that control it, because they decide which of the kept statements execute.
Everything else is dropped.  The result is an executable sub-program over the same parameters whose decision table is the
projection of the function's table onto what matters for the wanted variables -- small enough to enumerate.
"""
from __future__ import annotations

import ast
import copy
from typing import Any

from .model import FuncInfo


PURE_BUILTINS = {'len', 'str', 'bytes', 'int', 'bool', 'isinstance', 'type', 'tuple', 'list', 'set', 'frozenset', 'sorted', 'enumerate', 'zip', 'range',
                 'min', 'max', 'any', 'all', 'repr', 'ord', 'chr', 'iter', 'next', 'id', 'hash', 'getattr', 'hasattr'}


def _key(n: ast.AST) -> str | None:
    if isinstance(n, ast.Name):
        return n.id
    if isinstance(n, ast.Attribute) and isinstance(n.value, ast.Name) and n.value.id == 'self':
        return f'self.{n.attr}'
    return None


def uses(n: ast.AST | None) -> set[str]:
    out: set[str] = set()
    if n is None:
        return out
    for x in ast.walk(n):
        if isinstance(x, (ast.Name, ast.Attribute)) and isinstance(getattr(x, 'ctx', None), ast.Load):
            k = _key(x)
            if k is not None:
                out.add(k)
                if k.startswith('self.'):
                    out.add('self')
    out.discard('self')
    return out


def stores(n: ast.AST) -> tuple[set[str], set[str]]:
    """(strong definitions, weak definitions) made anywhere inside n."""
    strong: set[str] = set()
    weak: set[str] = set()
    for x in ast.walk(n):
        if isinstance(x, (ast.Name, ast.Attribute)) and isinstance(getattr(x, 'ctx', None), (ast.Store, ast.Del)):
            k = _key(x)
            if k is not None:
                strong.add(k)
        elif isinstance(x, ast.Subscript) and isinstance(x.ctx, (ast.Store, ast.Del)):
            k = _key(x.value)
            if k is not None:
                weak.add(k)
        elif isinstance(x, ast.Call):
            if isinstance(x.func, ast.Attribute):
                k = _key(x.func.value)
                if k is not None and k != 'self':
                    weak.add(k)  # a method call on the object may change it
            if not (isinstance(x.func, ast.Name) and x.func.id in PURE_BUILTINS):
                for a in list(x.args) + [kw.value for kw in x.keywords]:
                    k = _key(a)
                    if k is not None and k != 'self':
                        weak.add(k)  # an object handed to other code may be changed by it
    return strong, weak


def _new_helper_call(n: ast.AST) -> bool:
    """Does the statement call a method of self that is not part of the pinned vocabulary (an extracted helper with unknown effects)?"""
    from .vocabulary import PINNED_FUNCTIONS
    if not OWNER[0]:
        return False
    for c in ast.walk(n):
        if isinstance(c, ast.Call) and isinstance(c.func, ast.Attribute) and isinstance(c.func.value, ast.Name) and c.func.value.id == 'self':
            if f'{OWNER[0]}.{c.func.attr}' not in PINNED_FUNCTIONS and c.func.attr.startswith('_') and not c.func.attr.startswith('__'):
                return True
    return False


def _site(n: ast.AST) -> bool:
    return KEEP_CALL[0] is not None and any(isinstance(x, ast.Call) and KEEP_CALL[0](x) for x in ast.walk(n))


def _has_exit(n: ast.AST) -> bool:
    return any(isinstance(x, (ast.Return, ast.Raise, ast.Break, ast.Continue)) for x in ast.walk(n))


KEEP_EXITS = [True]
OWNER = ['']  # '<module>:<class>' of the function being sliced
KEEP_CALL = [None]  # predicate on ast.Call: statements containing such a call are kept (sites of interest)


def _slice_body(body: list[ast.stmt], need: set[str], self_calls_define: set[str], after: bool = False) -> tuple[list[ast.stmt], set[str]]:
    """`after`: a site of interest follows this block (in an enclosing block, or in a later iteration of an enclosing loop)."""
    out: list[ast.stmt] = []
    for st in reversed(body):
        keep, need = _slice_stmt(st, need, self_calls_define, after)
        if keep is not None:
            out.append(keep)
        if _site(st):
            after = True
    out.reverse()
    return out, need


def _slice_stmt(st: ast.stmt, need: set[str], scd: set[str], after: bool = False) -> tuple[ast.stmt | None, set[str]]:
    if isinstance(st, (ast.Return, ast.Raise)):
        if not KEEP_EXITS[0]:
            # an exit that holds a site, or that comes before one (`if c: return` guards everything after it), stays
            if _site(st) or after:
                return st, need | uses(st)
            return None, need
        return st, need | uses(st)
    if isinstance(st, (ast.Break, ast.Continue)):
        return st, need
    if isinstance(st, (ast.Assign, ast.AnnAssign, ast.AugAssign)) and _new_helper_call(st):
        return st, need | uses(st)
    if isinstance(st, (ast.Assign, ast.AnnAssign, ast.AugAssign)):
        strong, weak = stores(st)
        if isinstance(st, ast.AnnAssign) and st.value is None:
            return None, need
        if (strong | weak) & need or _site(st):
            val = st.value
            tgt_uses: set[str] = set()
            for t in (st.targets if isinstance(st, ast.Assign) else [st.target]):
                if isinstance(t, ast.Subscript):
                    tgt_uses |= uses(t.slice) | ({_key(t.value)} if _key(t.value) else set())
            new_need = (need - strong) if not isinstance(st, ast.AugAssign) else set(need)
            new_need |= uses(val) | tgt_uses
            if isinstance(st, ast.AugAssign):
                k = _key(st.target)
                if k:
                    new_need.add(k)
            return st, new_need
        return None, need
    if isinstance(st, ast.Expr):
        if isinstance(st.value, ast.Constant):
            return None, need
        _strong, weak = stores(st)
        calls_self = any(isinstance(c, ast.Call) and isinstance(c.func, ast.Attribute) and isinstance(c.func.value, ast.Name) and
                         c.func.value.id == 'self' for c in ast.walk(st))
        if _new_helper_call(st):
            return st, need | uses(st)
        if weak & need or (calls_self and scd & need) or any(isinstance(x, (ast.Yield, ast.YieldFrom)) for x in ast.walk(st)) or _site(st):
            return st, need | uses(st)
        return None, need
    if isinstance(st, ast.If):
        sb, nb = _slice_body(st.body, set(need), scd, after)
        so, no = _slice_body(st.orelse, set(need), scd, after)
        if sb or so:
            new = copy.copy(st)
            new.body = sb or [ast.copy_location(ast.Pass(), st)]
            new.orelse = so
            return new, nb | no | uses(st.test)
        return None, need
    if isinstance(st, (ast.For, ast.While, ast.Try, ast.With)):
        strong, weak = stores(st)
        if isinstance(st, (ast.For, ast.While)) and not ((strong | weak) & need) and not (_has_exit(st) and KEEP_EXITS[0]) and _site(st):
            # a loop kept only for the sites inside it: slice its body too
            body, nb = _slice_body(st.body, set(need), scd, True)
            new = copy.copy(st)
            new.body = body or [ast.copy_location(ast.Pass(), st)]
            return new, need | nb | uses(st.iter if isinstance(st, ast.For) else st.test)
        if (strong | weak) & need or (_has_exit(st) and KEEP_EXITS[0]) or _site(st):
            return st, need | uses(st)
        return None, need
    if isinstance(st, (ast.Pass, ast.Import, ast.ImportFrom, ast.Global, ast.Nonlocal, ast.Assert, ast.Delete)):
        return None, need
    if isinstance(st, (ast.FunctionDef, ast.ClassDef)):
        if st.name in need:
            return st, (need - {st.name}) | uses(st)  # a closure reads the enclosing frame's variables
        return None, need
    return st, need | uses(st)


def slice_function(fi: FuncInfo, want: set[str], self_calls_define: set[str] | None = None, name: str = 'slice',
                   keep_exits: bool = True, keep_call: Any = None) -> FuncInfo:
    """The backward slice of `fi` for the variables `want` at every exit, as a synthetic function with the same parameters.

    `self_calls_define`: attributes that calls of methods on self may assign (those call statements are then kept when one of
    these attributes is wanted).  `keep_exits=False` drops return / raise statements: the slice then has more paths than the
    function (it runs on where the function would have left), which is sound for claims of the form "on every path that
    reaches the end, the wanted variables are ...".
    """
    KEEP_EXITS[0] = keep_exits
    KEEP_CALL[0] = keep_call
    OWNER[0] = f'{fi.module}:{fi.cls}' if fi.cls else ''
    try:
        body, _need = _slice_body(list(fi.node.body), set(want), set(self_calls_define or ()))
    finally:
        KEEP_EXITS[0] = True
        KEEP_CALL[0] = None
        OWNER[0] = ''
    node = copy.copy(fi.node)
    node.body = body or [ast.copy_location(ast.Pass(), fi.node)]
    return FuncInfo(fi.module, fi.qualname + '::' + name, node, fi.cls, fi.parent)
