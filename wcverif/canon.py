"""Canonical forms: a semantics-preserving rewrite of the parsed tree applied before any rule looks at it.

Every rewrite replaces a spelling by an equivalent one, so that rules (and the CFG's condition atoms) see ONE spelling of
things developers write in several ways.  Only rewrites that are equivalences for every Python value of the operands are
made; operands that are duplicated or dropped must be pure (names, attributes, constants, subscripts of those).

  K1  x == a or x == b [or x in (c, d)]      ->  x in (a, b, c, d)      (constants, sorted, de-duplicated)
      x != a and x != b [and x not in (c,)]  ->  x not in (a, b, c)
  K2  x in (a,) -> x == a ; x in [b, a] / {b, a} -> x in (a, b)           (constant collections only)
  K3  not (a == b) -> a != b ; not (a in b) -> a not in b ; not (a is b) -> a is not b ; not not a -> a (boolean context)
  K4  if not A: X else: Y  ->  if A: Y else: X ; (X if not A else Y) -> (Y if A else X)
  K5  (e & F) != 0, 0 != (e & F)  ->  bool(e & F) ; (e & F) == 0 -> not (e & F)
  K6  x = x | E -> x |= E ; x = x & E -> x &= E   (x a plain name)
  K7  A | B | C with every operand a name / attribute / constant -> operands sorted
"""
from __future__ import annotations

import ast
from typing import Any


def _pure(n: ast.AST) -> bool:
    if isinstance(n, (ast.Name, ast.Constant)):
        return True
    if isinstance(n, ast.Attribute):
        return _pure(n.value)
    if isinstance(n, ast.Subscript):
        return _pure(n.value) and (_pure(n.slice) or (isinstance(n.slice, ast.Slice) and all(
            x is None or _pure(x) for x in (n.slice.lower, n.slice.upper, n.slice.step))))
    if isinstance(n, ast.UnaryOp) and isinstance(n.op, (ast.USub, ast.Invert)):
        return _pure(n.operand)
    return False


def _consts(n: ast.AST) -> list | None:
    if isinstance(n, (ast.Tuple, ast.List, ast.Set)) and n.elts and all(
            isinstance(e, ast.Constant) and isinstance(e.value, (str, bytes, int)) and not isinstance(e.value, bool)
            for e in n.elts):
        return [e.value for e in n.elts]
    return None


def _member(x: ast.AST, vals: list, neg: bool, like: ast.AST) -> ast.AST:
    uniq = sorted({repr(v): v for v in vals}.items())
    vs = [v for _r, v in uniq]
    if len(vs) == 1:
        new: ast.AST = ast.Compare(left=x, ops=[ast.NotEq() if neg else ast.Eq()], comparators=[ast.Constant(value=vs[0])])
    else:
        new = ast.Compare(left=x, ops=[ast.NotIn() if neg else ast.In()],
                          comparators=[ast.Tuple(elts=[ast.Constant(value=v) for v in vs], ctx=ast.Load())])
    return ast.copy_location(new, like)


def _eq_info(n: ast.AST, neg: bool) -> tuple[str, ast.AST, list] | None:
    """(text of x, x, constants) when n is `x == k` / `x in (k...)` (or the negated forms when neg)."""
    if not (isinstance(n, ast.Compare) and len(n.ops) == 1 and _pure(n.left)):
        return None
    op, c = n.ops[0], n.comparators[0]
    if isinstance(op, ast.NotEq if neg else ast.Eq) and isinstance(c, ast.Constant) and \
            isinstance(c.value, (str, bytes, int)) and not isinstance(c.value, bool):
        return ast.unparse(n.left), n.left, [c.value]
    if isinstance(op, ast.NotIn if neg else ast.In):
        vals = _consts(c)
        if vals is not None:
            return ast.unparse(n.left), n.left, vals
    return None


class Canon(ast.NodeTransformer):
    def __init__(self) -> None:
        self.count: dict[str, int] = {}

    def _hit(self, k: str) -> None:
        self.count[k] = self.count.get(k, 0) + 1

    # K1
    def visit_BoolOp(self, n: ast.BoolOp) -> Any:
        self.generic_visit(n)
        neg = isinstance(n.op, ast.And)
        out: list[ast.AST] = []
        for v in n.values:
            info = _eq_info(v, neg)
            prev = _eq_info(out[-1], neg) if out else None
            if info is not None and prev is not None and info[0] == prev[0]:
                out[-1] = _member(prev[1], prev[2] + info[2], neg, out[-1])
                self._hit('K1')
            else:
                out.append(v)
        if len(out) == 1:
            return out[0]
        n.values = out
        return n

    # K2, K5
    def visit_Compare(self, n: ast.Compare) -> Any:
        self.generic_visit(n)
        if len(n.ops) != 1:
            return n
        op, c = n.ops[0], n.comparators[0]
        if isinstance(op, (ast.In, ast.NotIn)) and _pure(n.left):
            vals = _consts(c)
            if vals is not None:
                new = _member(n.left, vals, isinstance(op, ast.NotIn), n)
                if ast.unparse(new) != ast.unparse(n):
                    self._hit('K2')
                return new
        # (e & F) != 0
        left, right = n.left, c
        if isinstance(left, ast.Constant) and left.value == 0 and not isinstance(left.value, bool):
            left, right = right, left
        if isinstance(right, ast.Constant) and right.value == 0 and not isinstance(right.value, bool) and \
                isinstance(left, ast.BinOp) and isinstance(left.op, ast.BitAnd):
            if isinstance(op, ast.NotEq):
                self._hit('K5')
                return ast.copy_location(ast.Call(func=ast.Name(id='bool', ctx=ast.Load()), args=[left], keywords=[]), n)
            if isinstance(op, ast.Eq):
                self._hit('K5')
                return ast.copy_location(ast.UnaryOp(op=ast.Not(), operand=left), n)
        return n

    # K3
    def visit_UnaryOp(self, n: ast.UnaryOp) -> Any:
        self.generic_visit(n)
        if isinstance(n.op, ast.Not):
            o = n.operand
            if isinstance(o, ast.Compare) and len(o.ops) == 1:
                flip = {ast.Eq: ast.NotEq, ast.NotEq: ast.Eq, ast.In: ast.NotIn, ast.NotIn: ast.In, ast.Is: ast.IsNot,
                        ast.IsNot: ast.Is}.get(type(o.ops[0]))
                if flip is not None:
                    self._hit('K3')
                    return ast.copy_location(ast.Compare(left=o.left, ops=[flip()], comparators=o.comparators), n)
        return n

    # K4
    def visit_If(self, n: ast.If) -> Any:
        self.generic_visit(n)
        if isinstance(n.test, ast.UnaryOp) and isinstance(n.test.op, ast.Not) and n.orelse and \
                not (len(n.orelse) == 1 and isinstance(n.orelse[0], ast.If)):
            self._hit('K4')
            n.test, n.body, n.orelse = n.test.operand, n.orelse, n.body
        elif n.orelse and not (len(n.orelse) == 1 and isinstance(n.orelse[0], ast.If)) and \
                isinstance(n.test, ast.Compare) and len(n.test.ops) == 1 and isinstance(n.test.ops[0], (ast.NotEq, ast.NotIn, ast.IsNot)):
            flip = {ast.NotEq: ast.Eq, ast.NotIn: ast.In, ast.IsNot: ast.Is}[type(n.test.ops[0])]
            self._hit('K4')
            n.test = ast.copy_location(ast.Compare(left=n.test.left, ops=[flip()], comparators=n.test.comparators), n.test)
            n.body, n.orelse = n.orelse, n.body
        return n

    def visit_IfExp(self, n: ast.IfExp) -> Any:
        self.generic_visit(n)
        if isinstance(n.test, ast.UnaryOp) and isinstance(n.test.op, ast.Not):
            self._hit('K4')
            n.test, n.body, n.orelse = n.test.operand, n.orelse, n.body
        elif isinstance(n.test, ast.Compare) and len(n.test.ops) == 1 and isinstance(n.test.ops[0], (ast.NotEq, ast.NotIn, ast.IsNot)):
            flip = {ast.NotEq: ast.Eq, ast.NotIn: ast.In, ast.IsNot: ast.Is}[type(n.test.ops[0])]
            self._hit('K4')
            n.test = ast.copy_location(ast.Compare(left=n.test.left, ops=[flip()], comparators=n.test.comparators), n.test)
            n.body, n.orelse = n.orelse, n.body
        return n

    # K6
    def visit_Assign(self, n: ast.Assign) -> Any:
        self.generic_visit(n)
        if len(n.targets) == 1 and isinstance(n.targets[0], ast.Name) and isinstance(n.value, ast.BinOp) and \
                isinstance(n.value.op, (ast.BitOr, ast.BitAnd)) and isinstance(n.value.left, ast.Name) and \
                n.value.left.id == n.targets[0].id:
            self._hit('K6')
            return ast.copy_location(ast.AugAssign(target=n.targets[0], op=n.value.op, value=n.value.right), n)
        return n

    # K7
    def visit_BinOp(self, n: ast.BinOp) -> Any:
        self.generic_visit(n)
        if isinstance(n.op, ast.BitOr):
            ops: list[ast.AST] = []

            def flat(x: ast.AST) -> None:
                if isinstance(x, ast.BinOp) and isinstance(x.op, ast.BitOr):
                    flat(x.left)
                    flat(x.right)
                else:
                    ops.append(x)
            flat(n)
            if len(ops) >= 2 and all(isinstance(o, (ast.Name, ast.Attribute, ast.Constant)) and _pure(o) for o in ops):
                srt = sorted(ops, key=ast.unparse)
                if [ast.unparse(o) for o in srt] != [ast.unparse(o) for o in ops]:
                    self._hit('K7')
                    cur = srt[0]
                    for o in srt[1:]:
                        cur = ast.copy_location(ast.BinOp(left=cur, op=ast.BitOr(), right=o), n)
                    return cur
        return n


def canonicalise(tree: ast.AST) -> dict[str, int]:
    c = Canon()
    c.visit(tree)
    ast.fix_missing_locations(tree)
    return c.count
