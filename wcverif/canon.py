"""Canonical forms: a semantics-preserving rewrite of the parsed tree applied before any rule looks at it.

Every rewrite replaces a spelling by an equivalent one, so that rules (and the CFG's condition atoms) see ONE spelling of
things developers write in several ways.  Only rewrites that are equivalences for every Python value of the operands are
made; operands that are duplicated or dropped must be pure (names, attributes, constants, subscripts of those).

  K1  x == a or x == b [or x in (c, d)]      ->  x in (a, b, c, d)      (constants, sorted, de-duplicated)
      x != a and x != b [and x not in (c,)]  ->  x not in (a, b, c)
  K2  x in (a,) -> x == a ; x in [b, a] / {b, a} -> x in (a, b)           (constant collections only)
  K3  not (a == b) -> a != b ; not (a in b) -> a not in b ; not (a is b) -> a is not b ; not not a -> a (boolean context)
  K4  if not A: X else: Y  ->  if A: Y else: X ; (X if not A else Y) -> (Y if A else X)
  K5  (e & F) != 0, 0 != (e & F)  ->  bool(e & F) ; (e & F) == 0 -> not (e & F)
  K6  x = x | E -> x |= E ; x = x & E -> x &= E   (x a plain name)
  K7  A | B | C with every operand a name / attribute / constant -> operands sorted
"""
from __future__ import annotations

import ast
from typing import Any


def _pure(n: ast.AST) -> bool:
    if isinstance(n, (ast.Name, ast.Constant)):
        return True
    if isinstance(n, ast.Attribute):
        return _pure(n.value)
    if isinstance(n, ast.Subscript):
        return _pure(n.value) and (_pure(n.slice) or (isinstance(n.slice, ast.Slice) and all(
            x is None or _pure(x) for x in (n.slice.lower, n.slice.upper, n.slice.step))))
    if isinstance(n, ast.UnaryOp) and isinstance(n.op, (ast.USub, ast.Invert)):
        return _pure(n.operand)
    return False


def _consts(n: ast.AST) -> list | None:
    if isinstance(n, (ast.Tuple, ast.List, ast.Set)) and n.elts and all(
            isinstance(e, ast.Constant) and isinstance(e.value, (str, bytes, int)) and not isinstance(e.value, bool)
            for e in n.elts):
        return [e.value for e in n.elts]
    return None


def _member(x: ast.AST, vals: list, neg: bool, like: ast.AST) -> ast.AST:
    uniq = sorted({repr(v): v for v in vals}.items())
    vs = [v for _r, v in uniq]
    if len(vs) == 1:
        new: ast.AST = ast.Compare(left=x, ops=[ast.NotEq() if neg else ast.Eq()], comparators=[ast.Constant(value=vs[0])])
    else:
        new = ast.Compare(left=x, ops=[ast.NotIn() if neg else ast.In()],
                          comparators=[ast.Tuple(elts=[ast.Constant(value=v) for v in vs], ctx=ast.Load())])
    return ast.copy_location(new, like)


def _eq_info(n: ast.AST, neg: bool) -> tuple[str, ast.AST, list] | None:
    """(text of x, x, constants) when n is `x == k` / `x in (k...)` (or the negated forms when neg)."""
    if not (isinstance(n, ast.Compare) and len(n.ops) == 1 and _pure(n.left)):
        return None
    op, c = n.ops[0], n.comparators[0]
    if isinstance(op, ast.NotEq if neg else ast.Eq) and isinstance(c, ast.Constant) and \
            isinstance(c.value, (str, bytes, int)) and not isinstance(c.value, bool):
        return ast.unparse(n.left), n.left, [c.value]
    if isinstance(op, ast.NotIn if neg else ast.In):
        vals = _consts(c)
        if vals is not None:
            return ast.unparse(n.left), n.left, vals
    return None


class Canon(ast.NodeTransformer):
    def __init__(self) -> None:
        self.count: dict[str, int] = {}

    def _hit(self, k: str) -> None:
        self.count[k] = self.count.get(k, 0) + 1

    # K1
    def visit_BoolOp(self, n: ast.BoolOp) -> Any:
        self.generic_visit(n)
        neg = isinstance(n.op, ast.And)
        out: list[ast.AST] = []
        for v in n.values:
            info = _eq_info(v, neg)
            prev = _eq_info(out[-1], neg) if out else None
            if info is not None and prev is not None and info[0] == prev[0]:
                out[-1] = _member(prev[1], prev[2] + info[2], neg, out[-1])
                self._hit('K1')
            else:
                out.append(v)
        if len(out) == 1:
            return out[0]
        n.values = out
        return n

    # K2, K5
    def visit_Compare(self, n: ast.Compare) -> Any:
        self.generic_visit(n)
        if len(n.ops) != 1:
            return n
        op, c = n.ops[0], n.comparators[0]
        if isinstance(op, (ast.In, ast.NotIn)) and _pure(n.left):
            vals = _consts(c)
            if vals is not None:
                new = _member(n.left, vals, isinstance(op, ast.NotIn), n)
                if ast.unparse(new) != ast.unparse(n):
                    self._hit('K2')
                return new
        # (e & F) != 0
        left, right = n.left, c
        if isinstance(left, ast.Constant) and left.value == 0 and not isinstance(left.value, bool):
            left, right = right, left
        if isinstance(right, ast.Constant) and right.value == 0 and not isinstance(right.value, bool) and \
                isinstance(left, ast.BinOp) and isinstance(left.op, ast.BitAnd):
            if isinstance(op, ast.NotEq):
                self._hit('K5')
                return ast.copy_location(ast.Call(func=ast.Name(id='bool', ctx=ast.Load()), args=[left], keywords=[]), n)
            if isinstance(op, ast.Eq):
                self._hit('K5')
                return ast.copy_location(ast.UnaryOp(op=ast.Not(), operand=left), n)
        return n

    # K3
    def visit_UnaryOp(self, n: ast.UnaryOp) -> Any:
        self.generic_visit(n)
        if isinstance(n.op, ast.Not):
            o = n.operand
            if isinstance(o, ast.Compare) and len(o.ops) == 1:
                flip = {ast.Eq: ast.NotEq, ast.NotEq: ast.Eq, ast.In: ast.NotIn, ast.NotIn: ast.In, ast.Is: ast.IsNot,
                        ast.IsNot: ast.Is}.get(type(o.ops[0]))
                if flip is not None:
                    self._hit('K3')
                    return ast.copy_location(ast.Compare(left=o.left, ops=[flip()], comparators=o.comparators), n)
        return n

    # K4
    def visit_If(self, n: ast.If) -> Any:
        self.generic_visit(n)
        if isinstance(n.test, ast.UnaryOp) and isinstance(n.test.op, ast.Not) and n.orelse and \
                not (len(n.orelse) == 1 and isinstance(n.orelse[0], ast.If)):
            self._hit('K4')
            n.test, n.body, n.orelse = n.test.operand, n.orelse, n.body
        elif n.orelse and not (len(n.orelse) == 1 and isinstance(n.orelse[0], ast.If)) and \
                isinstance(n.test, ast.Compare) and len(n.test.ops) == 1 and isinstance(n.test.ops[0], (ast.NotEq, ast.NotIn, ast.IsNot)):
            flip = {ast.NotEq: ast.Eq, ast.NotIn: ast.In, ast.IsNot: ast.Is}[type(n.test.ops[0])]
            self._hit('K4')
            n.test = ast.copy_location(ast.Compare(left=n.test.left, ops=[flip()], comparators=n.test.comparators), n.test)
            n.body, n.orelse = n.orelse, n.body
        return n

    def visit_IfExp(self, n: ast.IfExp) -> Any:
        self.generic_visit(n)
        if isinstance(n.test, ast.UnaryOp) and isinstance(n.test.op, ast.Not):
            self._hit('K4')
            n.test, n.body, n.orelse = n.test.operand, n.orelse, n.body
        elif isinstance(n.test, ast.Compare) and len(n.test.ops) == 1 and isinstance(n.test.ops[0], (ast.NotEq, ast.NotIn, ast.IsNot)):
            flip = {ast.NotEq: ast.Eq, ast.NotIn: ast.In, ast.IsNot: ast.Is}[type(n.test.ops[0])]
            self._hit('K4')
            n.test = ast.copy_location(ast.Compare(left=n.test.left, ops=[flip()], comparators=n.test.comparators), n.test)
            n.body, n.orelse = n.orelse, n.body
        return n

    # K12: `for x in E: yield x` is `yield from E`
    def visit_For(self, n: ast.For) -> Any:
        self.generic_visit(n)
        if not n.orelse and len(n.body) == 1 and isinstance(n.body[0], ast.Expr) and isinstance(n.body[0].value, ast.Yield) and \
                isinstance(n.target, ast.Name) and isinstance(n.body[0].value.value, ast.Name) and n.body[0].value.value.id == n.target.id:
            self._hit('K12')
            return ast.copy_location(ast.Expr(value=ast.copy_location(ast.YieldFrom(value=n.iter), n)), n)
        return n

    # K6
    def visit_Assign(self, n: ast.Assign) -> Any:
        self.generic_visit(n)
        if len(n.targets) == 1 and isinstance(n.targets[0], ast.Name) and isinstance(n.value, ast.BinOp) and \
                isinstance(n.value.op, (ast.BitOr, ast.BitAnd)) and isinstance(n.value.left, ast.Name) and \
                n.value.left.id == n.targets[0].id:
            self._hit('K6')
            return ast.copy_location(ast.AugAssign(target=n.targets[0], op=n.value.op, value=n.value.right), n)
        return n

    # K7
    def visit_BinOp(self, n: ast.BinOp) -> Any:
        self.generic_visit(n)
        if isinstance(n.op, ast.BitOr):
            ops: list[ast.AST] = []

            def flat(x: ast.AST) -> None:
                if isinstance(x, ast.BinOp) and isinstance(x.op, ast.BitOr):
                    flat(x.left)
                    flat(x.right)
                else:
                    ops.append(x)
            flat(n)
            if len(ops) >= 2 and all(isinstance(o, (ast.Name, ast.Attribute, ast.Constant)) and _pure(o) for o in ops):
                srt = sorted(ops, key=ast.unparse)
                if [ast.unparse(o) for o in srt] != [ast.unparse(o) for o in ops]:
                    self._hit('K7')
                    cur = srt[0]
                    for o in srt[1:]:
                        cur = ast.copy_location(ast.BinOp(left=cur, op=ast.BitOr(), right=o), n)
                    return cur
        return n


def _unroll_yield_from(tree: ast.AST) -> int:
    """K9: `yield from (E for a in A for b in B if c)` is the loop nest `for a in A: for b in B: if c: yield E` (the consumer sees the
    same values in the same order, and the outermost iterable is evaluated at the same point).  Done only when the comprehension
    variables are not names of the enclosing function, since a loop binds them in the function's scope."""
    n = 0
    for fn in [f for f in ast.walk(tree) if isinstance(f, (ast.FunctionDef, ast.AsyncFunctionDef))]:
        for parent in ast.walk(fn):
            for fld in ('body', 'orelse', 'finalbody'):
                body = getattr(parent, fld, None)
                if not (isinstance(body, list) and body and isinstance(body[0], ast.stmt)):
                    continue
                for k, st in enumerate(body):
                    if not (isinstance(st, ast.Expr) and isinstance(st.value, ast.YieldFrom) and isinstance(st.value.value, (ast.GeneratorExp, ast.ListComp))):
                        continue
                    comp = st.value.value
                    if any(g.is_async for g in comp.generators):
                        continue
                    bound = {x.id for g in comp.generators for x in ast.walk(g.target) if isinstance(x, ast.Name)}
                    inside = {id(x) for x in ast.walk(comp)}
                    outer = {x.id for x in ast.walk(fn) if isinstance(x, ast.Name) and id(x) not in inside} | {a.arg for a in ast.walk(fn.args) if isinstance(a, ast.arg)}
                    if bound & outer:
                        continue
                    inner: ast.stmt = ast.Expr(value=ast.Yield(value=comp.elt))
                    for g in reversed(comp.generators):
                        for cond in reversed(g.ifs):
                            inner = ast.If(test=cond, body=[inner], orelse=[])
                        inner = ast.For(target=g.target, iter=g.iter, body=[inner], orelse=[], type_comment=None)
                    for x in ast.walk(inner):
                        if isinstance(x, ast.Name) and x.id in bound and isinstance(x.ctx, ast.Load) and any(x is t or x in ast.walk(t) for g in comp.generators for t in [g.target]):
                            x.ctx = ast.Store()
                    for g in comp.generators:
                        for x in ast.walk(g.target):
                            if hasattr(x, 'ctx'):
                                x.ctx = ast.Store()
                    ast.copy_location(inner, st)
                    for x in ast.walk(inner):
                        if isinstance(x, (ast.stmt, ast.expr)) and not hasattr(x, 'lineno'):
                            ast.copy_location(x, st)
                    body[k] = inner
                    n += 1
    return n


def _correlated_constants(tree: ast.AST) -> int:
    """K10: a closure that reads a variable of the enclosing function which is an integer constant chosen together with a boolean flag
    (`if ...: flag = True; k = 5` / `else: flag = False; k = 6`, nothing else assigns `k`) reads `5 if flag else 6`.  Substituted into
    the closure, so that its table correlates the constant with the flag instead of treating it as an unknown."""
    import copy
    n = 0
    for fn in [f for f in ast.walk(tree) if isinstance(f, (ast.FunctionDef, ast.AsyncFunctionDef))]:
        inner = [g for g in fn.body if isinstance(g, (ast.FunctionDef, ast.AsyncFunctionDef))]
        if not inner:
            continue
        for st in fn.body:
            if not (isinstance(st, ast.If) and st.orelse):
                continue
            def consts(body: list[ast.stmt]) -> dict[str, ast.Constant]:
                out: dict[str, ast.Constant] = {}
                for a in body:
                    if isinstance(a, ast.Assign) and len(a.targets) == 1 and isinstance(a.targets[0], ast.Name) and isinstance(a.value, ast.Constant):
                        out[a.targets[0].id] = a.value
                return out
            ct, cf = consts(st.body), consts(st.orelse)
            flags = [k for k in ct if k in cf and ct[k].value is True and cf[k].value is False] + \
                    [k for k in ct if k in cf and ct[k].value is False and cf[k].value is True]
            if len(flags) != 1:
                continue
            flag = flags[0]
            pos = ct[flag].value is True
            names = [k for k in ct if k in cf and k != flag and type(ct[k].value) is int and type(cf[k].value) is int]
            for k in names:
                stores = [x for x in ast.walk(fn) if isinstance(x, ast.Name) and x.id == k and isinstance(x.ctx, (ast.Store, ast.Del))]
                fstores = [x for x in ast.walk(fn) if isinstance(x, ast.Name) and x.id == flag and isinstance(x.ctx, (ast.Store, ast.Del))]
                if len(stores) != 2 or len(fstores) != 2:
                    continue
                a, b = (ct[k], cf[k]) if pos else (cf[k], ct[k])

                class R(ast.NodeTransformer):
                    def visit_Name(self, x: ast.Name) -> Any:
                        nonlocal n
                        if x.id == k and isinstance(x.ctx, ast.Load):
                            n += 1
                            return ast.copy_location(ast.IfExp(test=ast.Name(id=flag, ctx=ast.Load()), body=copy.deepcopy(a), orelse=copy.deepcopy(b)), x)
                        return x
                for g in inner:
                    if any(p.arg in (k, flag) for p in ast.walk(g.args) if isinstance(p, ast.arg)):
                        continue
                    R().visit(g)
    return n


def canonicalise(tree: ast.AST) -> dict[str, int]:
    c = Canon()
    k10 = _correlated_constants(tree)
    if k10:
        c.count['K10'] = k10
    k9 = _unroll_yield_from(tree)
    if k9:
        c.count['K9'] = k9
    c.visit(tree)
    ast.fix_missing_locations(tree)
    return c.count
