"""Variant catalogue (filled in below); see DESIGN.md section 5.1."""
from __future__ import annotations


def run_variants_for(prop: str, seed: int) -> int:
    return 0
