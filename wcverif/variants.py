"""Both-ways self-test: breaking and behaviour-preserving variants of /repo/wcmatch on scratch copies.

Each variant is one textual edit (the `old` text must occur exactly once in the file). A *breaking* variant changes
behaviour (witness given) and must make every listed property check exit 1 with a VIOLATION whose replay names the
edited construct; a *neutral* variant is a refactor that must leave every check at exit 0.  Scratch copies live under a
`tempfile.mkdtemp()` directory outside /repo and /verif and are removed in a `finally`.
A failing self-test is an ANALYSIS-ERROR (exit 2): the checker is broken, the property is not judged.
"""
from __future__ import annotations

import ast
import contextlib
import io
import json
import os
import shutil
import tempfile
from concurrent.futures import ProcessPoolExecutor
from dataclasses import dataclass, field


@dataclass
class Variant:
    vid: str
    kind: str  # 'break' | 'neutral'
    props: list[str]  # properties whose check must fire (break) / all properties are run for neutral
    file: str  # relative to the repo root
    old: str
    new: str
    expect: str = ''  # substring expected in a violated obligation key
    witness: str = ''
    count: int = 1  # how many occurrences of `old` are replaced (must match exactly)


V = Variant
P = 'wcmatch/_wcparse.py'
G = 'wcmatch/glob.py'
M = 'wcmatch/_wcmatch.py'
W = 'wcmatch/wcmatch.py'
U = 'wcmatch/util.py'
L = 'wcmatch/pathlib.py'
F = 'wcmatch/fnmatch.py'
X = 'wcmatch/posix.py'

VARIANTS: list[Variant] = [
    # ---------------------------------------------------------------- fragments (C01/C02/C03/C08)
    V('b-plus-group', 'break', ['C01', 'C08'], P, "_PLUS_GROUP = r'(?:{})+'", "_PLUS_GROUP = r'(?:{})*'", '_PLUS', "fnmatch('', '+(a)', E) becomes True"),
    V('b-qmark-any', 'break', ['C01'], P, "_QMARK = r'.'", "_QMARK = r'[^\\n]'", '_QMARK', "fnmatch('\\n', '?') becomes False"),
    V('b-star-plus', 'break', ['C01'], P, "_STAR = r'.*?'", "_STAR = r'.+?'", '_STAR', "fnmatch('a', 'a*') becomes False"),
    V('b-path-star-any', 'break', ['C02'], P, "_PATH_STAR = r'[^{sep}]*?'", "_PATH_STAR = r'.*?'", 'path_star', "globmatch('a/b/c', 'a/*') becomes True"),
    V('b-no-slash-dot', 'break', ['C02', 'C03'], P, "_PATH_NO_SLASH_DOT = r'(?![{sep}.])'", "_PATH_NO_SLASH_DOT = r'(?![{sep}])'", 'seq_path_dot', "globmatch('.a', '?a') becomes True"),
    V('b-need-char-path', 'break', ['C02'], P, "_NEED_CHAR_PATH = r'(?=[^{sep}])'", "_NEED_CHAR_PATH = r'(?=.)'", 'need_char', "globmatch('a/', 'a/*') becomes True"),
    V('b-gstar-nodot', 'break', ['C02', 'C03'], P, "_PATH_GSTAR_NO_DOTMATCH = r'(?:(?!(?:[{sep}]|^)\\.).)*?'", "_PATH_GSTAR_NO_DOTMATCH = r'(?:(?!(?:[{sep}])\\.).)*?'", 'path_gstar_dot2', "globmatch('.a/b', '**', G) becomes True"),
    V('b-eop-dollar', 'break', ['C01'], P, "_EOP = r'\\Z'", "_EOP = r'$'", '_EOP', "fnmatch('a\\n', '!(a)', E) becomes False (regression of the repaired F8)"),
    V('b-capture-template', 'break', ['C08'], P, "_STAR_CAPTURE_GROUP = r'((?#)(?:{})*)'", "_STAR_CAPTURE_GROUP = r'((?#)(?:{}))*'", '_STAR_CAPTURE_GROUP', "translate('*(a)', E) captures only the last iteration"),
    V('b-capture-in-fragment', 'break', ['C08', 'C04'], P, "_PATH_NO_SLASH = r'(?![{sep}])'", "_PATH_NO_SLASH = r'(?!([{sep}]))'", 'groups', "translate('@(a)?', ...) gets an extra group; _fs_match would read it as a `**` capture"),
    V('b-no-root', 'break', ['C04'], P, "_NO_ROOT = r'(?!/)'", "_NO_ROOT = r'(?!//)'", '_NO_ROOT', "globmatch('/etc', '**', G, REALPATH) becomes True"),
    V('b-sep-run', 'break', ['C02'], P, "                    current.append(self.sep + _ONE_OR_MORE)\n                    self.consume_path_sep(i)", "                    current.append(self.sep)\n                    self.consume_path_sep(i)", 'sep', "globmatch('a//b', 'a/b') becomes False"),
    V('b-trail', 'break', ['C02'], P, "current.append(_PATH_TRAIL.format(self.sep))", "current.append(_PATH_TRAIL.format(self.bare_sep))", '_PATH_TRAIL', "FORCEWIN: trailing separators no longer tolerated"),
    V('b-wrapper-dotall', 'break', ['C01'], P, "pattern = Rf'^(?s{case_flag}:{\"\".join(result)})$'", "pattern = Rf'^(?{case_flag}:{\"\".join(result)})$'", 'wrapper', "fnmatch('\\n', '?') becomes False"),
    V('b-case-flag', 'break', ['C01', 'C17'], P, "case_flag = 'i' if not self.case_sensitive else ''", "case_flag = 'i' if self.case_sensitive else ''", 'wrapper', "fnmatch('A', 'a', CASE) becomes True"),
    # ---------------------------------------------------------------- C01 other rules
    V('b-swap-ext-arms', 'break', ['C01', 'C08'], P, "            if list_type == '?':\n                current.append((_QMARK_CAPTURE_GROUP if self.capture else _QMARK_GROUP)", "            if list_type == '?':\n                current.append((_CAPTURE_GROUP if self.capture else _GROUP)", "arm[?]", "fnmatch('b', '?(a)b', E) becomes False"),
    V('b-posix-upper', 'break', ['C01', 'C18'], X, '    "upper": "\\x41-\\x5a",\n    "word": "\\x30-\\x39\\x41-\\x5a\\x5f\\x61-\\x7a",\n    "xdigit": "\\x30-\\x39\\x41-\\x46\\x61-\\x66"\n}\n\nascii', '    "upper": "\\x41-\\x59",\n    "word": "\\x30-\\x39\\x41-\\x5a\\x5f\\x61-\\x7a",\n    "xdigit": "\\x30-\\x39\\x41-\\x46\\x61-\\x66"\n}\n\nascii', 'unicode_posix_properties[upper]', "fnmatch('Z', '[[:upper:]]') becomes False (str only)"),
    V('b-raw-char', 'break', ['C01'], P, "            else:\n                current.append(re.escape(c))\n\n            self.update_dir_state()\n\n        self.clean_up_inverse(current)", "            else:\n                current.append(c)\n\n            self.update_dir_state()\n\n        self.clean_up_inverse(current)", 'emit', "fnmatch('aab', 'a+b') becomes True"),
    V('b-match-not-fullmatch', 'break', ['C01', 'C04', 'C05'], G, "            matcher = target.fullmatch", "            matcher = target.match", '_get_matcher', "glob('[a]') returns a file named 'a\\n' (regression of the repaired F6)"),
    V('b-exclude-search', 'break', ['C01', 'C04'], M, "                for pattern in self.exclude:\n                    if pattern.fullmatch(self.filename):", "                for pattern in self.exclude:\n                    if pattern.match(self.filename):", 'pattern.match', "fnmatch('a\\n', '*', exclude='a') becomes False"),
    V('b-posix-limit-ascii', 'break', ['C01', 'C18'], P, "result.append(posix.get_posix_property(m.group(1), self.is_bytes))", "result.append(posix.get_posix_property(m.group(1)))", 'limit_ascii', "bytes pattern [[:^alpha:]] embeds code points > 255"),
    # ---------------------------------------------------------------- C02
    V('b-star-pathname-guard', 'break', ['C02'], P, "        if self.pathname:\n            if self.after_start and not self.dot:\n                star = self.path_star_dot2", "        if self.pathname and self.extend:\n            if self.after_start and not self.dot:\n                star = self.path_star_dot2", '_STAR', "globmatch('a/b', '*') becomes True without EXTGLOB"),
    V('b-qmark-unrestricted', 'break', ['C02', 'C03'], P, "                current.append(self._restrict_sequence() + _QMARK)\n            elif c == '/':\n                if self.pathname:\n                    self.set_start_dir()", "                current.append(_QMARK)\n            elif c == '/':\n                if self.pathname:\n                    self.set_start_dir()", '_QMARK', "globmatch('a/b', 'a?b') becomes True"),
    V('b-no-set-start-dir', 'break', ['C02', 'C03'], P, "                if self.pathname:\n                    self.set_start_dir()\n                    self.clean_up_inverse(current)", "                if self.pathname:\n                    self.clean_up_inverse(current)", 'separator-token', "globmatch('a/.b', 'a/*') becomes True"),
    V('b-no-consume-sep', 'break', ['C02'], P, "                    current.append(self.sep + _ONE_OR_MORE)\n                    self.consume_path_sep(i)\n                    self.matchbase = False", "                    current.append(self.sep + _ONE_OR_MORE)\n                    self.matchbase = False", 'separator-token', "globmatch('a/b', 'a//b') becomes False"),
    V('b-matchbase-not-cleared', 'break', ['C02'], P, "                    current.append(self.sep + _ONE_OR_MORE)\n                    self.consume_path_sep(i)\n                    self.matchbase = False", "                    current.append(self.sep + _ONE_OR_MORE)\n                    self.consume_path_sep(i)", 'separator-token', "globmatch('x/a/b', 'a/b', MATCHBASE) becomes True"),
    V('b-sequence-no-abort', 'break', ['C02', 'C07'], P, "            elif c == '/':\n                if self.pathname:\n                    raise StopIteration\n                value = c", "            elif c == '/':\n                value = c", 'abort-on-slash', "globmatch('a/b', 'a[/]b') becomes True"),
    V('b-globstar-pred', 'break', ['C02', 'C05'], P, "self.globstar = self.pathname and (self.globstarlong or bool(flags & GLOBSTAR))", "self.globstar = self.globstarlong or bool(flags & GLOBSTAR)", 'self.globstar', "fnmatch-mode `**` handling changes; definite assignment of `capture` breaks"),
    V('b-matchbase-prefix', 'break', ['C02', 'C16'], P, "        if p and (self.matchbase or self.extmatchbase):\n            result = prepend + result", "        if p and self.matchbase:\n            result = prepend + result", 'implicit-prefix', "PurePath('a/b/x').match('x') becomes False"),
    V('b-nodir-unix-select', 'break', ['C02', 'C08'], P, "negative.append(_NO_NIX_DIR[index] if is_unix else _NO_WIN_DIR[index])", "negative.append(_NO_WIN_DIR[index] if is_unix else _NO_NIX_DIR[index])", 'nodir-tail', "translate(NODIR) returns the windows regex on Linux"),
    V('b-flag-transform-pathname', 'break', ['C02', 'C04', 'C17'], G, "    flags = (flags & FLAG_MASK) | _PATHNAME\n    if flags & REALPATH:", "    flags = (flags & FLAG_MASK)\n    if flags & REALPATH:", 'PATHNAME-forced', "glob.globmatch('a/b', '*') becomes True"),
    V('b-globfilter-no-transform', 'break', ['C02', 'C04', 'C17'], G, "    return _wcparse.compile(patterns, _flag_transform(flags), limit, exclude).filter(filenames, root_dir, dir_fd)", "    return _wcparse.compile(patterns, flags | _PATHNAME, limit, exclude).filter(filenames, root_dir, dir_fd)", 'globfilter', "globfilter(..., FORCEWIN|FORCEUNIX) no longer cancels"),
    # ---------------------------------------------------------------- C03
    V('b-restrict-dot-inverted', 'break', ['C02', 'C03'], P, "            value = self.seq_path_dot if self.after_start and not self.dot else self.seq_path", "            value = self.seq_path_dot if self.after_start and self.dot else self.seq_path", '_restrict_sequence', "globmatch('.a', '?a') becomes True"),
    V('b-star-dot-table', 'break', ['C03'], P, "            elif self.after_start:\n                star = self.path_star_dot1\n                globstar = self.path_gstar_dot1", "            elif self.after_start:\n                star = self.path_star\n                globstar = self.path_gstar_dot1", 'star-selection', "globmatch('..', '*', DOTGLOB) becomes True"),
    V('b-exclude-no-dotmatch', 'break', ['C03', 'C07', 'C13', 'C04'], P, "negative = compile_pattern(exclude, flags=flags | DOTMATCH | _NO_GLOBSTAR_CAPTURE, limit=limit)[0]", "negative = compile_pattern(exclude, flags=flags | _NO_GLOBSTAR_CAPTURE, limit=limit)[0]", 'compile_pattern(exclude)', "filter(['.a','b'], '*', flags=D, exclude='*') returns ['.a']"),
    V('b-inline-negate-no-dotmatch', 'break', ['C03', 'C07'], P, "negative.append(_compile(expanded[1:], flags | _NO_GLOBSTAR_CAPTURE | DOTMATCH))", "negative.append(_compile(expanded[1:], flags | _NO_GLOBSTAR_CAPTURE))", '_compile(expanded[1:])', "fnmatch('.a', ['.*','!*'], N) becomes True"),
    V('b-glob-negate-flags', 'break', ['C03', 'C13'], G, "self.negate_flags = self.flags | DOTMATCH | _wcparse._NO_GLOBSTAR_CAPTURE", "self.negate_flags = self.flags | _wcparse._NO_GLOBSTAR_CAPTURE", 'negate_flags', "glob('.*', exclude='*') keeps dot files"),
    V('b-walker-hidden', 'break', ['C03', 'C05', 'C06'], G, "            if deep and not hidden and is_dir and follow:", "            if deep and is_dir and follow:", 'descent', "glob('**', G) lists .git/ contents"),
    V('b-nodotdir-default', 'break', ['C03', 'C05'], G, "        if not self.scandotdir and not self.flags & NODOTDIR:\n            self.flags |= NODOTDIR", "        if self.scandotdir and not self.flags & NODOTDIR:\n            self.flags |= NODOTDIR", 'NODOTDIR-default', "glob('.*') returns `.` and `..`"),
    V('b-update-dir-state', 'break', ['C03'], P, "        if self.dir_start and not self.after_start:\n            self.set_after_start()\n        elif not self.dir_start and self.after_start:\n            self.reset_dir_track()", "        if self.dir_start and not self.after_start:\n            self.set_after_start()", 'update_dir_state', "fnmatch('a.b', 'a?b')... every later token is treated as segment start"),
    V('b-alt-rearm', 'break', ['C03'], P, "                    if temp_after_start:\n                        self.set_start_dir()", "                    if temp_after_start and not self.dot:\n                        self.reset_dir_track()", 'alternative-re-arms-START', "fnmatch('.b', '@(a|*)', E) becomes True"),
    # ---------------------------------------------------------------- C04 / C05 / C06 / C12 / C13
    V('b-platform-twin', 'break', ['C04', 'C12', 'C16'], G, "            self.re_no_dir = (_wcparse.RE_WIN_NO_DIR if forcewin else _wcparse.RE_NO_DIR)[ptype]  # type: ignore[assignment]", "            self.re_no_dir = _wcparse.RE_WIN_NO_DIR[ptype]  # type: ignore[assignment]", 'RE_WIN_NO_DIR', "Linux: glob('*', NODIR) drops the file 'a\\\\' (regression of the repaired F5)"),
    V('b-follow-rule', 'break', ['C04', 'C06'], P, "bool(flags & REALPATH), bool(flags & PATHNAME), bool(flags & FOLLOW) and not bool(flags & GLOBSTARLONG)", "bool(flags & REALPATH), bool(flags & PATHNAME), bool(flags & FOLLOW)", 'WcRegexp-arguments', "globmatch('link/x', '**', G|L|GL, REALPATH) differs from glob"),
    V('b-root-ignored', 'break', ['C04', 'C12'], M, "                exists = os.path.lexists(os.path.join(root, self.filename))", "                exists = os.path.lexists(self.filename)", 'lexists', "globmatch('f', '*', REALPATH, root_dir='sub') looks in the cwd"),
    V('b-exists-gate', 'break', ['C04'], M, "            if exists:\n                symlinks = {}", "            if exists or is_abs:\n                symlinks = {}", 'match_real-under-exists', "globmatch('/nope', '/*', REALPATH) becomes True"),
    V('b-glob-dir-slash', 'break', ['C04', 'C12', 'C13'], G, "        if is_dir and not filename.endswith(self.sep):\n            filename += self.sep", "        if is_dir and filename.endswith(self.sep):\n            filename += self.sep", 'dir-slash', "glob('*', exclude='d/') keeps the directory d"),
    V('b-no-negate-glob', 'break', ['C04', 'C07'], G, "        if epats is not None:\n            flags = _wcparse.no_negate_flags(flags)", "        if epats is not None and flags & NEGATEALL:\n            flags = _wcparse.no_negate_flags(flags)", 'no_negate_flags', "glob('!x', flags=NEGATE, exclude='y') treats !x as an exclusion"),
    V('b-literal-fold', 'break', ['C05', 'C17'], G, "            if not self.case_sensitive:\n                match = target.lower()", "            if self.case_sensitive:\n                match = target.lower()", 'prefold', "glob('ReadMe', IGNORECASE) finds nothing"),
    V('b-follow-true', 'break', ['C06'], G, "            follow = not is_link or self.follow_links or globstar_follow", "            follow = not is_link or self.follow_links or globstar_follow or not hidden", 'follow-definition', "glob('**', G) loops through a symlink cycle"),
    V('b-glob-follow-links', 'break', ['C06', 'C04'], G, "self.follow_links = bool(self.flags & FOLLOW) and not self.globstarlong", "self.follow_links = bool(self.flags & FOLLOW)", 'follow_links', "glob('**', G|L|GL) traverses symlinked directories"),
    V('b-fsmatch-last-part', 'break', ['C06'], M, "                                if not at_end or (at_end and j != last_part):", "                                if not at_end and j != last_part:", 'which-parts', "globmatch('link/x/y', '**/y', G, REALPATH) misses the symlink"),
    V('b-wcmatch-followlinks', 'break', ['C06', 'C14'], W, "os.walk(self._root_dir, followlinks=self.follow_links)", "os.walk(self._root_dir, followlinks=True)", 'followlinks', "WcMatch without SYMLINKS follows a symlink cycle"),
    V('b-iglob-forward', 'break', ['C12'], G, "    return list(iglob(patterns, flags=flags, root_dir=root_dir, dir_fd=dir_fd, limit=limit, exclude=exclude))", "    return list(iglob(patterns, flags=flags, root_dir=root_dir, limit=limit, exclude=exclude))", 'forwards-all', "glob('*', dir_fd=fd) ignores dir_fd"),
    V('b-format-path-mark', 'break', ['C12'], G, "path = os.path.join(path, self.empty) if dir_only or (self.mark and is_dir) else path", "path = os.path.join(path, self.empty) if dir_only or self.mark else path", '_format_path', "glob('*', MARK) marks files too"),
    V('b-nodir-both-passes', 'break', ['C12'], G, "        if self.nodir and not force_negate:\n            self.npatterns.append(self.re_no_dir)", "        if self.nodir and force_negate:\n            self.npatterns.append(self.re_no_dir)", 'nodir-pattern', "glob('*', NODIR) returns directories unless exclude= is given"),
    V('b-seen-unfolded', 'break', ['C13', 'C05'], G, "            self.seen.add(key)", "            self.seen.add(path)", '_is_unique', "glob(['*b','A*'], I) returns 'Ab' twice (regression of the repaired F4)"),
    V('b-unfiltered-yield', 'break', ['C13', 'C16'], G, "                        for match, is_dir in results:\n                            if self._lexists(match) and not self._is_excluded(match, is_dir):", "                        for match, is_dir in results:\n                            if self._lexists(match):", 'yield', "glob('a', exclude='a') returns a"),
    V('b-dedupe-guard', 'break', ['C13', 'C07', 'C16'], G, "                    if not self.nounique or is_neg:", "                    if not self.nounique and is_neg:", 'dedupe-guard', "glob(['a','a']) scans twice"),
    V('b-auto-nounique', 'break', ['C13', 'C16'], G, "            len(self.pattern) <= 1 and", "            len(self.pattern) <= 2 and", 'auto-nounique', "glob(['a','[a]']) returns a twice"),
    # ---------------------------------------------------------------- C07 / C09
    V('b-is-negative-ext', 'break', ['C07', 'C09'], P, "        return bool(flags & NEGATE and pattern[0:1] in NEGATIVE_SYM and pattern[1:2] not in ROUND_BRACKET)", "        return bool(flags & NEGATE and pattern[0:1] in NEGATIVE_SYM)", 'is_negative', "fnmatch('x', '!(a)', N|E) becomes False"),
    V('b-negateall-default', 'break', ['C07'], P, "            positive.append(_compile(default, flags | (GLOBSTAR if flags & PATHNAME else 0)))", "            positive.append(_compile(default, flags))", 'negateall-default', "globmatch('a/b', '!x', N|A) becomes False"),
    V('b-exclude-loop', 'break', ['C07'], M, "        if matched:\n            matched = True\n            if self.exclude:\n                for pattern in self.exclude:\n                    if pattern.fullmatch(self.filename):\n                        matched = False\n                        break", "        if matched:\n            matched = True\n            if self.exclude:\n                for pattern in self.exclude:\n                    if pattern.fullmatch(self.filename):\n                        matched = False\n                    else:\n                        matched = True", '_Match.match/table', "order of exclusion patterns matters"),
    V('b-expand-order', 'break', ['C07'], P, "    for expanded in expand_braces(pattern, flags, limit):\n        for splitted in split(expanded, flags):\n            yield expand_tilde(splitted, is_unix_style(flags), flags)", "    for splitted in split(pattern, flags):\n        for expanded in expand_braces(splitted, flags, limit):\n            yield expand_tilde(expanded, is_unix_style(flags), flags)", 'nesting', "'{a|b,c}' with BRACE|SPLIT expands differently"),
    V('b-scanner-prologue', 'break', ['C07'], G, "        if c in ('!', '^'):\n            c = next(i)\n        if c == '[':\n            # A POSIX class is a unit: its `]` does not close the sequence\n            i.match(_wcparse.RE_POSIX)", "        if c == '!':\n            c = next(i)\n        if c == '[':\n            # A POSIX class is a unit: its `]` does not close the sequence\n            i.match(_wcparse.RE_POSIX)", 'closing-bracket-agreement', "glob('[^]/]x') is split inside the bracket"),
    V('b-escape-class', 'break', ['C09', 'C18'], P, "    re.compile(r'([-!~*?()\\[\\]|{}]|(?<!\\\\)(?:(?:[\\\\]{2})*)\\\\(?!\\\\))'),\n    re.compile(br'([-!~*?()\\[\\]|{}]|(?<!\\\\)(?:(?:[\\\\]{2})*)\\\\(?!\\\\))')\n)\n\nMAGIC_DEF", "    re.compile(r'([-!*?()\\[\\]|{}]|(?<!\\\\)(?:(?:[\\\\]{2})*)\\\\(?!\\\\))'),\n    re.compile(br'([-!~*?()\\[\\]|{}]|(?<!\\\\)(?:(?:[\\\\]{2})*)\\\\(?!\\\\))')\n)\n\nMAGIC_DEF", 'RE_MAGIC_ESCAPE', "escape('~') expands to the home directory under GLOBTILDE"),
    V('b-magic-extmatch', 'break', ['C09'], P, "    if flags & EXTMATCH:\n        magic |= MAGIC_EXTMATCH[ptype]  # type: ignore[arg-type]", "    if flags & EXTMATCH and flags & BRACE:\n        magic |= MAGIC_EXTMATCH[ptype]  # type: ignore[arg-type]", '_get_magic_symbols', "is_magic('@(a)', E) becomes False"),
    V('b-fnmatch-escape-path', 'break', ['C09'], F, "    return _wcparse.escape(pattern, pathname=False)", "    return _wcparse.escape(pattern)", 'fnmatch:escape', "fnmatch.escape('c:{a}') on Windows leaves braces"),
    # ---------------------------------------------------------------- C10
    V('b-lost-handler', 'break', ['C10'], P, "                try:\n                    current.append(self._sequence(i))\n                except StopIteration:\n                    i.rewind(i.index - index)\n                    current.append(re.escape(c))", "                current.append(self._sequence(i))", 'no-internal-exception-escapes', "fnmatch('x', '[a') raises RuntimeError/StopIteration"),
    V('b-dot-exception-escape', 'break', ['C10'], P, "                    current.append(value)\n                except DotException:\n                    continue\n                except StopIteration:", "                    current.append(value)\n                except StopIteration:", 'no-internal-exception-escapes', "fnmatch('.', '\\\\.') raises DotException"),
    V('b-rewind-amount', 'break', ['C10'], P, "                except StopIteration:\n                    i.rewind(i.index - index)\n                    current.append(re.escape(c))", "                except StopIteration:\n                    i.rewind(1)\n                    current.append(re.escape(c))", 'recover', "fnmatch('[ab', '[ab') becomes False"),
    V('b-range-check', 'break', ['C10'], P, "        if v2 < v1:\n            result.pop()", "        if v2 <= v1:\n            result.pop()", '_sequence_range_check', "fnmatch('a', '[a-a]') becomes False"),
    V('b-unbound-local', 'break', ['C10'], P, "            capture = self.globstar_capture\n        else:", "            if self.realpath:\n                capture = self.globstar_capture\n        else:", 'possibly-unbound', "globmatch('a', '**', G) raises UnboundLocalError"),
    V('b-new-keyerror', 'break', ['C10'], P, "    if isinstance(patterns, (str, bytes)):\n        yield patterns\n    else:\n        yield from patterns", "    if isinstance(patterns, (str, bytes)):\n        yield patterns\n    elif isinstance(patterns, dict):\n        raise KeyError('mapping')\n    else:\n        yield from patterns", 'documented-errors-only', "an undocumented KeyError escapes fnmatch()"),
    # ---------------------------------------------------------------- C11
    V('b-limit-default', 'break', ['C11'], G, "def globfilter(\n    filenames: Iterable[AnyStr | os.PathLike[AnyStr]],\n    patterns: AnyStr | Sequence[AnyStr],\n    *,\n    flags: int = 0,\n    root_dir: AnyStr | os.PathLike[AnyStr] | None = None,\n    dir_fd: int | None = None,\n    limit: int = _wcparse.PATTERN_LIMIT,", "def globfilter(\n    filenames: Iterable[AnyStr | os.PathLike[AnyStr]],\n    patterns: AnyStr | Sequence[AnyStr],\n    *,\n    flags: int = 0,\n    root_dir: AnyStr | os.PathLike[AnyStr] | None = None,\n    dir_fd: int | None = None,\n    limit: int = 100,", 'limit-default', "globfilter(names, '{1..200}', BRACE) raises"),
    V('b-limit-dropped', 'break', ['C11'], L, "        yield from self.glob(patterns, flags=flags | _EXTMATCHBASE, limit=limit, exclude=exclude)", "        yield from self.glob(patterns, flags=flags | _EXTMATCHBASE, exclude=exclude)", 'Path.rglob', "Path.rglob('{1..2000}', BRACE, limit=0) raises"),
    V('b-limit-full-budget', 'break', ['C11'], P, "            for expanded in expand(pattern, flags, current_limit):\n                count += 1\n                total += 1\n                if 0 < limit < total:\n                    raise PatternLimitException(f\"Pattern limit exceeded the limit of {limit:d}\")\n                if expanded not in seen:\n                    seen.add(expanded)\n                    if is_negative(expanded, flags):\n                        negative.append(_compile(", "            for expanded in expand(pattern, flags, limit):\n                count += 1\n                total += 1\n                if 0 < limit < total:\n                    raise PatternLimitException(f\"Pattern limit exceeded the limit of {limit:d}\")\n                if expanded not in seen:\n                    seen.add(expanded)\n                    if is_negative(expanded, flags):\n                        negative.append(_compile(", 'expand-gets-remaining-budget', "['{1..5}','{1..100000000}'] with limit=10 materialises"),
    V('b-limit-clamp', 'break', ['C11'], G, "                    self.current_limit -= count\n                    if self.current_limit < 1:\n                        self.current_limit = 1", "                    self.current_limit -= count", 'current_limit -= count', "budget reaches 0 = unlimited"),
    V('b-limit-total-reset', 'break', ['C11'], G, "        seen = set()\n        try:\n            for p in patterns:", "        seen = set()\n        try:\n            self.total = 0\n            for p in patterns:", 'total-restarts-per-pass', "glob(['a','b','c'], limit=3, exclude=['x','y','z']) no longer raises (regression of F3)"),
    V('b-limit-convert', 'break', ['C11'], P, "            except bracex.ExpansionLimitException:  # noqa: PERF203\n                raise\n            except Exception:  # pragma: no cover", "            except Exception:  # pragma: no cover", 'limit-exception-reraised', "'{1..100000000}' is silently yielded unexpanded"),
    # ---------------------------------------------------------------- C14 / C15
    V('b-wc-forced-flags', 'break', ['C14'], W, "        self.flags |= _NEGATE | _DOTMATCH | _NEGATEALL | _SPLIT", "        self.flags |= _NEGATE | _NEGATEALL | _SPLIT", '_parse_flags', "WcMatch('.', '*.txt', HIDDEN) misses .a.txt"),
    V('b-wc-matchbase-mask', 'break', ['C14', 'C10'], W, "        self.flags = self.flags & (_wcparse.FLAG_MASK ^ MATCHBASE)", "        self.flags = self.flags & _wcparse.FLAG_MASK", '_parse_flags|possibly-unbound', "MATCHBASE reaches the parser without PATHNAME"),
    V('b-wc-skip-count', 'break', ['C14', 'C15'], W, "                    else:\n                        self._skipped += 1\n                        value = self.on_skip(base, name)", "                    else:\n                        value = self.on_skip(base, name)\n                        if value is None:\n                            self._skipped += 1", 'file-loop-routing', "get_skipped() undercounts when on_skip returns a value"),
    V('b-wc-hidden', 'break', ['C14'], W, "        if valid and (not self.show_hidden and util.is_hidden(fullpath)):\n            valid = False\n        return self.on_validate_file(base, name) if valid else valid", "        if valid and (self.show_hidden and util.is_hidden(fullpath)):\n            valid = False\n        return self.on_validate_file(base, name) if valid else valid", '_valid_file', "hidden files are returned without HIDDEN"),
    V('b-wc-prune-rebind', 'break', ['C14'], W, "                    if not self._valid_folder(base, name):\n                        dirs.remove(name)", "                    if not self._valid_folder(base, name):\n                        dirs = [d for d in dirs if d != name]", 'remove-condition', "excluded folders are still descended"),
    V('b-wc-file-pathname', 'break', ['C14'], W, "                self.file_check = self._compile_wildcard(file_pattern, self.file_pathname)", "                self.file_check = self._compile_wildcard(file_pattern, self.dir_pathname)", 'pathname-arguments', "FILEPATHNAME is ignored for the file pattern"),
    V('b-kill-poll', 'break', ['C15'], W, "                        if value is not None:\n                            yield value\n\n                    if self.is_aborted():\n                        break", "                        if value is not None:\n                            yield value", 'loop[files]', "after kill() the rest of the directory is still yielded"),
    V('b-kill-poll-dirs', 'break', ['C15'], W, "                if self.is_aborted():  # pragma: no cover\n                    break", "                if self.is_aborted() and not dirs:  # pragma: no cover\n                    continue", 'loop[dirs[:]]', "kill() from on_validate_directory does not stop the pruning loop"),
    V('b-abort-cleared', 'break', ['C15'], W, "        self.on_reset()\n        self._skipped = 0", "        self.on_reset()\n        self._abort = False\n        self._skipped = 0", '_abort-writers', "kill() before match() is lost"),
    V('b-no-reset-skipped', 'break', ['C15', 'C14'], W, "        self.on_reset()\n        self._skipped = 0\n        for f in self._walk():", "        self.on_reset()\n        for f in self._walk():", 'prologue|_skipped-writers', "second match() continues the skipped counter"),
    V('b-hook-value', 'break', ['C15'], W, "                        yield self.on_match(base, name)", "                        yield os.path.join(base, name)", 'yield', "on_match overrides are ignored"),
    # ---------------------------------------------------------------- C16 / C17
    V('b-pathlib-match', 'break', ['C16'], L, "        return self.globmatch(patterns, flags=flags | _EXTMATCHBASE, limit=limit, exclude=exclude)", "        return self.globmatch(patterns, flags=flags, limit=limit, exclude=exclude)", 'PurePath.match', "PurePath('a/b').match('b') becomes False"),
    V('b-pathlib-noabs', 'break', ['C16'], L, "                flags | _NOABSOLUTE\n            ) | ((_PATHLIB | SCANDOTDIR) if scandotdir else _PATHLIB)", "                flags\n            ) | ((_PATHLIB | SCANDOTDIR) if scandotdir else _PATHLIB)", 'Path.glob/flags', "Path('.').glob('/etc/*') no longer raises"),
    V('b-pathlib-platform', 'break', ['C16'], L, "        elif isinstance(self, PurePosixPath):\n            if flags & _FORCEWIN:\n                raise ValueError(\"Posix pathlike objects cannot be forced to behave like a Windows path\")\n            flags |= _FORCEUNIX", "        elif isinstance(self, PurePosixPath):\n            flags |= _FORCEUNIX", '_translate_flags', "PurePosixPath.globmatch(REALPATH) on Windows no longer raises"),
    V('b-noabs-root', 'break', ['C16'], P, "        if self.no_abs and root_specified:\n            raise ValueError('The pattern must be a relative path pattern')", "        if self.no_abs and root_specified and self.realpath:\n            raise ValueError('The pattern must be a relative path pattern')", 'absolute-rejected', "PurePath('x').match('/x') no longer raises"),
    V('b-translate-path', 'break', ['C16'], L, "        if isinstance(self, Path) and name and self.is_dir():", "        if isinstance(self, Path) and self.is_dir():", '_translate_path', "Path('').globmatch(...) gets a bare separator"),
    V('b-get-case', 'break', ['C17'], P, "    if not bool(flags & CASE_FLAGS):\n        case_sensitive = is_case_sensitive(flags)\n    elif flags & CASE:\n        case_sensitive = True", "    if not bool(flags & CASE_FLAGS):\n        case_sensitive = is_case_sensitive(flags)\n    elif flags & IGNORECASE:\n        case_sensitive = False\n    elif flags & CASE:\n        case_sensitive = True", 'get_case', "CASE|IGNORECASE becomes insensitive"),
    V('b-unix-style', 'break', ['C17'], P, "            (not bool(flags & REALPATH) and bool(flags & FORCEUNIX))", "            bool(flags & FORCEUNIX)", 'is_unix_style', "REALPATH|FORCEUNIX on Windows picks unix rules"),
    V('b-cancel-fnmatch', 'break', ['C17'], F, "    if flags & FORCEUNIX and flags & FORCEWIN:\n        flags ^= FORCEWIN | FORCEUNIX", "    if flags & FORCEUNIX and flags & FORCEWIN:\n        flags ^= FORCEWIN", 'fnmatch:_flag_transform', "FORCEWIN|FORCEUNIX behaves as FORCEUNIX"),
    V('b-escape-drive-case', 'break', ['C17'], P, "    return f'(?i:{re.escape(drive)})' if case else re.escape(drive)", "    return f'(?i:{re.escape(drive)})' if not case else re.escape(drive)", 'escape_drive', "drive letters compare case-sensitively under CASE"),
    V('b-bslash-abort', 'break', ['C17'], P, "            self.bslash_abort = self.pathname\n            sep = {\"sep\": re.escape('\\\\/')}", "            self.bslash_abort = True\n            sep = {\"sep\": re.escape('\\\\/')}", 'windows-only-switches', "fnmatch (name mode) FORCEWIN treats an escaped backslash as a path separator"),
    # ---------------------------------------------------------------- C18 / C19 / C20
    V('b-twin-bytes-half', 'break', ['C18', 'C09'], P, "RE_MAGIC = (\n    re.compile(r'([-!~*?(\\[|{\\\\])'),\n    re.compile(br'([-!~*?(\\[|{\\\\])')\n)", "RE_MAGIC = (\n    re.compile(r'([-!~*?(\\[|{\\\\])'),\n    re.compile(br'([-!*?(\\[|{\\\\])')\n)", 'RE_MAGIC', "bytes and str variants disagree"),
    V('b-twin-index', 'break', ['C18'], P, "    if isinstance(pattern, bytes):\n        ptype = util.BYTES\n    else:\n        ptype = util.UNICODE\n\n    drive_pat = RE_WIN_DRIVE[ptype]", "    if isinstance(pattern, bytes):\n        ptype = util.UNICODE\n    else:\n        ptype = util.UNICODE\n\n    drive_pat = RE_WIN_DRIVE[ptype]", 'RE_WIN_DRIVE[ptype]', "is_magic(b'c:/x', FORCEWIN) raises TypeError"),
    V('b-latin1-codec', 'break', ['C18'], P, "            pattern = self._parse(self.pattern.decode('latin-1')).encode('latin-1')", "            pattern = self._parse(self.pattern.decode('latin-1')).encode('utf-8')", 'WcParse.parse/out', "fnmatch(b'\\xe9', b'\\xe9') becomes False"),
    V('b-literal-twin', 'break', ['C18'], P, "        replace = br'\\\\\\1'\n        slash = b'\\\\'", "        replace = br'\\\\\\1'\n        slash = b'/'", 'slash', "escape(b'a\\\\b') differs from escape('a\\\\b')"),
    V('b-module-cache', 'break', ['C19'], P, "def is_case_sensitive(flags: int) -> bool:\n    \"\"\"Is case sensitive.\"\"\"\n", "_CASE_MEMO = {}  # type: dict[int, bool]\n\n\ndef is_case_sensitive(flags: int) -> bool:\n    \"\"\"Is case sensitive.\"\"\"\n\n    if flags in _CASE_MEMO:\n        return _CASE_MEMO[flags]\n    _CASE_MEMO[flags] = bool(flags & FORCEUNIX)\n", 'module-state-writes', "results depend on call history"),
    V('b-cache-untyped', 'break', ['C19'], P, "@functools.lru_cache(maxsize=256, typed=True)", "@functools.lru_cache(maxsize=256)", '_compile/decorator', "cache key no longer separates argument types"),
    V('b-cache-ambient', 'break', ['C19'], P, "    return re.compile(WcParse(pattern, flags & FLAG_MASK).parse())", "    return re.compile(WcParse(pattern, (flags | (FORCEWIN if os.sep == '\\\\' else 0)) & FLAG_MASK).parse())", '_compile', "cached value depends on ambient os.sep"),
    V('b-shared-parser', 'break', ['C19'], P, "    if flags & SPLIT:\n        yield from WcSplit(pattern, flags).split()", "    if flags & SPLIT:\n        split.cache = WcSplit(pattern, flags)\n        yield from split.cache.split()", 'WcSplit()', "a splitter object is shared between calls"),
    V('b-eq-field', 'break', ['C19'], M, "            self._path == other._path and\n            self._follow == other._follow\n        )", "            self._path == other._path\n        )", '__eq__', "FOLLOW and non-FOLLOW matchers compare equal"),
    V('b-pickle-field', 'break', ['C19'], M, "copyreg.pickle(WcRegexp, lambda p: (WcRegexp, (p._include, p._exclude, p._real, p._path, p._follow)))", "copyreg.pickle(WcRegexp, lambda p: (WcRegexp, (p._include, p._exclude, p._real, p._path)))", 'copyreg.pickle(WcRegexp)', "an unpickled FOLLOW matcher loses FOLLOW"),
    V('b-norm-swap', 'break', ['C20'], U, "    (\\\\[^NUux]) |\n    (\\\\[NUux])\n    '''\n)\n\nRE_BNORM", "    (\\\\[NUux]) |\n    (\\\\[^NUux])\n    '''\n)\n\nRE_BNORM", 'RE_NORM/roles', "`\\q` raises SyntaxError under RAWCHARS"),
    V('b-norm-group-index', 'break', ['C20'], U, "        elif not is_raw_chars or m.group(5 if is_bytes else 6):", "        elif not is_raw_chars or m.group(6):", 'norm_pattern.norm', "bytes `\\q` raises SyntaxError under RAWCHARS"),
    V('b-norm-unguarded', 'break', ['C20'], U, "        elif is_raw_chars and m.group(4):", "        elif m.group(4):", 'norm_pattern.norm', "`\\101` is decoded without RAWCHARS on FORCEWIN"),
    V('b-translation-table', 'break', ['C20', 'C10'], U, "    r\"\\v\": '\\v',\n    r\"\\\\\": r'\\\\',\n    br\"\\a\"", "    r\"\\v\": '\\t',\n    r\"\\\\\": r'\\\\',\n    br\"\\a\"", 'BACK_SLASH_TRANSLATION', "`\\v` decodes to a tab"),
    V('b-norm-after-expand', 'break', ['C20', 'C17'], P, "            pattern = util.norm_pattern(pattern, not is_unix, bool(flags & RAWCHARS))\n            count = 0\n            for expanded in expand(pattern, flags, current_limit):\n                count += 1\n                total += 1\n                if 0 < limit < total:\n                    raise PatternLimitException(f\"Pattern limit exceeded the limit of {limit:d}\")\n                if expanded not in seen:\n                    seen.add(expanded)\n                    if is_negative(expanded, flags):\n                        negative.append(WcParse(", "            pattern = util.norm_pattern(pattern, not is_unix, bool(flags & NEGATE))\n            count = 0\n            for expanded in expand(pattern, flags, current_limit):\n                count += 1\n                total += 1\n                if 0 < limit < total:\n                    raise PatternLimitException(f\"Pattern limit exceeded the limit of {limit:d}\")\n                if expanded not in seen:\n                    seen.add(expanded)\n                    if is_negative(expanded, flags):\n                        negative.append(WcParse(", 'expand-argument', "translate() decodes escapes under NEGATE instead of RAWCHARS"),

    # ================================================================ neutral variants (must stay silent)
    V('n-star-greedy', 'neutral', [], P, "_STAR = r'.*?'", "_STAR = r'(?:.)*'", witness='same language'),
    V('n-path-star-group', 'neutral', [], P, "_PATH_STAR = r'[^{sep}]*?'", "_PATH_STAR = r'(?:[^{sep}])*?'"),
    V('n-no-dot-class', 'neutral', [], P, "_NO_DOT = r'(?![.])'", "_NO_DOT = r'(?!\\.)'"),
    V('n-qmark-group', 'neutral', [], P, "_QMARK_GROUP = r'(?:{})?'", "_QMARK_GROUP = r'(?:{}){{0,1}}'"),
    V('n-gstar-order', 'neutral', [], P, "_PATH_GSTAR_NO_DOTMATCH = r'(?:(?!(?:[{sep}]|^)\\.).)*?'", "_PATH_GSTAR_NO_DOTMATCH = r'(?:(?!(?:^|[{sep}])\\.).)*?'"),
    V('n-rename-local', 'neutral', [], P, "    magical = False\n    unix = is_unix_style(flags)", "    magical = False\n    unix = is_unix_style(flags)\n    _unused = None"),
    V('n-nested-if', 'neutral', [], G, "            if deep and not hidden and is_dir and follow:\n                yield from self._glob_dir(path, matcher, dir_only, deep, globstar_follow)", "            if deep and not hidden:\n                if is_dir and follow:\n                    yield from self._glob_dir(path, matcher, dir_only, deep, globstar_follow)"),
    V('n-reorder-conjuncts', 'neutral', [], G, "            not force_negate and\n            len(self.pattern) <= 1 and", "            len(self.pattern) <= 1 and\n            not force_negate and"),
    V('n-line-shift', 'neutral', [], P, '"""Wildcard parsing."""\n', '"""Wildcard parsing."""\n\n# a comment that shifts every line number\n\n'),
    V('n-line-shift-glob', 'neutral', [], G, 'from __future__ import annotations\nimport os\nimport sys', '# shifted\n# shifted\nfrom __future__ import annotations\nimport os\nimport sys'),
    V('n-literal-limit', 'neutral', [], F, "def fnmatch(\n    filename: AnyStr,\n    patterns: AnyStr | Sequence[AnyStr],\n    *,\n    flags: int = 0,\n    limit: int = _wcparse.PATTERN_LIMIT,", "def fnmatch(\n    filename: AnyStr,\n    patterns: AnyStr | Sequence[AnyStr],\n    *,\n    flags: int = 0,\n    limit: int = 1000,"),
    V('n-extract-local', 'neutral', [], G, "        return bool(self.npatterns and self._match_excluded(path, is_dir))", "        has_patterns = self.npatterns\n        return bool(has_patterns and self._match_excluded(path, is_dir))"),
    V('n-docstring', 'neutral', [], W, '        """Start search for valid files."""\n', '        """Start the search for valid files (walks the tree top-down)."""\n'),
    V('n-posix-hex-case', 'neutral', [], X, '    "digit": "\\x30-\\x39",\n    "graph": "\\x21-\\x5c\\x7e",\n    "lower": "\\x61-\\x7a",\n    "print": "\\x20-\\x5c\\x7e",\n    "punct": "\\x21-\\x2f\\x3a-\\x40\\x5c\\x5b-\\x60\\x7b-\\x5c\\x7e",\n    "space": "\\x09-\\x0d\\x20",\n    "upper": "\\x41-\\x5a",\n    "word": "\\x30-\\x39\\x41-\\x5a\\x5f\\x61-\\x7a",\n    "xdigit": "\\x30-\\x39\\x41-\\x46\\x61-\\x66"\n}\n\nascii', '    "digit": "0-9",\n    "graph": "\\x21-\\x5c\\x7e",\n    "lower": "a-z",\n    "print": "\\x20-\\x5c\\x7e",\n    "punct": "\\x21-\\x2f\\x3a-\\x40\\x5c\\x5b-\\x60\\x7b-\\x5c\\x7e",\n    "space": "\\x09-\\x0d\\x20",\n    "upper": "\\x41-\\x5a",\n    "word": "\\x30-\\x39\\x41-\\x5a\\x5f\\x61-\\x7a",\n    "xdigit": "\\x30-\\x39\\x41-\\x46\\x61-\\x66"\n}\n\nascii'),
    V('n-flag-or-order', 'neutral', [], P, "negative = translate(exclude, flags=flags | DOTMATCH | _NO_GLOBSTAR_CAPTURE, limit=limit)[0]", "negative = translate(exclude, flags=_NO_GLOBSTAR_CAPTURE | flags | DOTMATCH, limit=limit)[0]"),
    V('n-is-negative-slice', 'neutral', [], W, "        return self._abort\n", "        aborted = self._abort\n        return aborted\n"),
    V('n-walk-comment', 'neutral', [], W, "            # Remove child folders based on exclude rules\n", "            # Prune child folders (in place) according to the exclude rules\n"),
    V('n-glob-escape-kw', 'neutral', [], P, "    if flags & MINUSNEGATE:\n        return bool(flags & NEGATE and pattern[0:1] in MINUS_NEGATIVE_SYM)", "    if flags & MINUSNEGATE:\n        return bool(pattern[0:1] in MINUS_NEGATIVE_SYM and flags & NEGATE)"),
    V('n-unix-style-bool', 'neutral', [], P, "        not flags & FORCEWIN\n    )", "        not bool(flags & FORCEWIN)\n    )"),
    V('n-eq-order', 'neutral', [], M, "            self._include == other._include and\n            self._exclude == other._exclude and", "            self._exclude == other._exclude and\n            self._include == other._include and"),
]


def _apply(root: str, v: Variant) -> str | None:
    path = os.path.join(root, v.file)
    with open(path, encoding='utf-8') as fh:
        src = fh.read()
    n = src.count(v.old)
    if n != v.count:
        return f'stale variant: `old` occurs {n} times (expected {v.count})'
    new = src.replace(v.old, v.new)
    try:
        ast.parse(new)
    except SyntaxError as e:
        return f'variant does not parse: {e}'
    with open(path, 'w', encoding='utf-8') as fh:
        fh.write(new)
    return None


def _run_one(args: tuple) -> dict:
    vid, props, repo_root = args
    from .cli import run_property
    v = next(x for x in VARIANTS if x.vid == vid)
    tmp = tempfile.mkdtemp(prefix='wcverif-var-')
    out: dict = {'vid': vid, 'kind': v.kind, 'results': {}, 'error': None}
    try:
        shutil.copytree(os.path.join(repo_root, 'wcmatch'), os.path.join(tmp, 'wcmatch'))
        err = _apply(tmp, v)
        if err:
            out['error'] = err
            return out
        for p in props:
            buf = io.StringIO()
            with contextlib.redirect_stdout(buf):
                rc = run_property(p, tmp, 'quick', 0, write_evidence=False, replay_dir=os.path.join(tmp, 'replay'))
            text = buf.getvalue()
            keys = [ln.split('construct: ', 1)[1].strip() for ln in text.splitlines() if 'construct: ' in ln]
            out['results'][p] = {'rc': rc, 'keys': keys, 'tail': text.strip().splitlines()[-1] if text.strip() else ''}
    finally:
        shutil.rmtree(tmp, ignore_errors=True)
    return out


def run_variants(select: list[str] | None, props_filter: str | None, repo_root: str = '/repo', jobs: int = 16,
                 verbose: bool = True) -> tuple[int, dict]:
    from .registry import PROPERTIES
    tasks = []
    for v in VARIANTS:
        if select and v.vid not in select:
            continue
        if v.kind == 'break':
            props = [p for p in v.props if (props_filter is None or p == props_filter)]
        else:
            props = [props_filter] if props_filter else list(PROPERTIES)
        if props:
            tasks.append((v.vid, props, repo_root))
    failures = []
    stats = {'break': 0, 'neutral': 0, 'break_ok': 0, 'neutral_ok': 0, 'stale': 0}
    with ProcessPoolExecutor(max_workers=jobs) as ex:
        for res in ex.map(_run_one, tasks):
            v = next(x for x in VARIANTS if x.vid == res['vid'])
            stats[v.kind] += 1
            if res['error']:
                stats['stale'] += 1
                failures.append(f"{v.vid}: {res['error']}")
                continue
            ok = True
            for p, r in res['results'].items():
                if v.kind == 'break':
                    hit = r['rc'] == 1 and (not v.expect or any(e in k for k in r['keys'] for e in v.expect.split('|')))
                    if not hit:
                        ok = False
                        failures.append(f"{v.vid}: {p} did not report the edited construct (rc={r['rc']}, keys={r['keys'][:3]}, {r['tail']})")
                else:
                    if r['rc'] != 0:
                        ok = False
                        failures.append(f"{v.vid}: {p} raised an alarm on a behaviour-preserving variant (rc={r['rc']}, keys={r['keys'][:3]}, {r['tail']})")
            if ok:
                stats[v.kind + '_ok'] += 1
    if verbose:
        for f in failures:
            print('SELFTEST-FAIL', f)
        print(f"self-test: {stats['break_ok']}/{stats['break']} breaking variants caught, {stats['neutral_ok']}/{stats['neutral']} "
              f"neutral variants silent, {stats['stale']} stale")
    return (0 if not failures else 2), stats


DECLINED_SEEDED = {'C09-m2', 'C09-n1', 'C10-p1', 'C06-p3'}  # scanner arithmetic: see DESIGN.md 6.5  # DESIGN.md 6.5: agreement of two recognisers of the drive-prefix language is not decided


def _seeded_one(args: tuple) -> dict:
    sid, prop = args
    import subprocess
    from .cli import run_property
    from .report import VERIF
    d = os.path.join(VERIF, 'seeded', sid)
    tmp = tempfile.mkdtemp(prefix='wcverif-seed-')
    try:
        shutil.copytree('/repo/wcmatch', os.path.join(tmp, 'wcmatch'))
        p = subprocess.run(f'patch -p1 -s -d {tmp} < {os.path.join(d, "patch.diff")}', shell=True, capture_output=True, text=True)
        if p.returncode:
            return {'sid': sid, 'error': 'patch does not apply to the current tree'}
        buf = io.StringIO()
        with contextlib.redirect_stdout(buf):
            rc = run_property(prop, tmp, 'quick', 0, write_evidence=False, replay_dir=os.path.join(tmp, 'replay'))
        return {'sid': sid, 'rc': rc}
    finally:
        shutil.rmtree(tmp, ignore_errors=True)


def run_seeded_for(prop: str) -> tuple[int, dict]:
    """Replay the independently written seeded changes that target `prop` (regression guard of the thorough tier)."""
    from .report import VERIF
    root = os.path.join(VERIF, 'seeded')
    tasks = []
    if os.path.isdir(root):
        for sid in sorted(os.listdir(root)):
            mp = os.path.join(root, sid, 'meta.json')
            if not os.path.exists(mp) or sid in DECLINED_SEEDED:
                continue
            with open(mp, encoding='utf-8') as fh:
                if json.load(fh).get('property') == prop:
                    tasks.append((sid, prop))
    stats = {'seeded': len(tasks), 'seeded_caught': 0, 'seeded_stale': 0}
    bad = []
    if tasks:
        with ProcessPoolExecutor(max_workers=min(16, len(tasks))) as ex:
            for r in ex.map(_seeded_one, tasks):
                if r.get('error'):
                    stats['seeded_stale'] += 1
                elif r['rc'] == 1:
                    stats['seeded_caught'] += 1
                else:
                    bad.append(f"{r['sid']}: rc={r['rc']}")
    for b in bad:
        print('SELFTEST-FAIL seeded change not reported:', b)
    return (2 if bad else 0), stats


def _neutral_one(args: tuple) -> dict:
    nid, prop = args
    import subprocess
    from .cli import run_property
    from .report import VERIF
    d = os.path.join(VERIF, 'neutral', nid)
    tmp = tempfile.mkdtemp(prefix='wcverif-neu-')
    try:
        shutil.copytree('/repo/wcmatch', os.path.join(tmp, 'wcmatch'))
        p = subprocess.run(f'patch -p1 -s -d {tmp} < {os.path.join(d, "patch.diff")}', shell=True, capture_output=True, text=True)
        if p.returncode:
            return {'nid': nid, 'error': 'patch does not apply to the current tree'}
        buf = io.StringIO()
        with contextlib.redirect_stdout(buf):
            rc = run_property(prop, tmp, 'quick', 0, write_evidence=False, replay_dir=os.path.join(tmp, 'replay'))
        return {'nid': nid, 'rc': rc}
    finally:
        shutil.rmtree(tmp, ignore_errors=True)


def run_neutral_for(prop: str) -> dict:
    """Replay the independently written behaviour-preserving refactorings: the check of `prop` should stay at exit 0 on each.

    Recorded in the evidence; an alarm here is a defect of the checker (it says nothing about /repo), so it is printed as a note and does not
    change the verdict on the tree."""
    from .report import VERIF
    root = os.path.join(VERIF, 'neutral')
    tasks = [(n, prop) for n in sorted(os.listdir(root)) if os.path.exists(os.path.join(root, n, 'patch.diff'))] if os.path.isdir(root) else []
    stats = {'neutral_refactorings': len(tasks), 'neutral_silent': 0, 'neutral_stale': 0, 'neutral_alarms': []}
    if tasks:
        with ProcessPoolExecutor(max_workers=16) as ex:
            for r in ex.map(_neutral_one, tasks):
                if r.get('error'):
                    stats['neutral_stale'] += 1
                elif r['rc'] == 0:
                    stats['neutral_silent'] += 1
                else:
                    stats['neutral_alarms'].append(f"{r['nid']}: rc={r['rc']}")
    for a in stats['neutral_alarms']:
        print('SELFTEST-NOTE behaviour-preserving refactoring not accepted silently:', a)
    return stats


def run_variants_for(prop: str, seed: int) -> int:
    rc, stats = run_variants(None, prop)
    rc2, sstats = run_seeded_for(prop)
    stats.update(sstats)
    print(f"seeded changes targeting {prop}: {sstats['seeded_caught']}/{sstats['seeded'] - sstats['seeded_stale']} reported ({sstats['seeded_stale']} stale)")
    nstats = run_neutral_for(prop)
    stats.update(nstats)
    print(f"behaviour-preserving refactorings: {nstats['neutral_silent']}/{nstats['neutral_refactorings'] - nstats['neutral_stale']} silent under {prop} ({nstats['neutral_stale']} stale)")
    if rc != 0 or rc2 != 0:
        print(f'ANALYSIS-ERROR: property={prop} the both-ways self-test of the checker failed (see SELFTEST-FAIL lines)')
        return 2
    # append the self-test coverage to the evidence file written by the quick pass
    from .report import VERIF
    path = os.path.join(VERIF, 'evidence', f'{prop}.json')
    try:
        with open(path, encoding='utf-8') as fh:
            ev = json.load(fh)
        ev['tier'] = 'thorough'
        ev['coverage']['selftest'] = stats
        ev['coverage']['explanation'] += ('; thorough tier: both-ways self-test of the rules on scratch copies (breaking variants must be '
                                          'reported with the edited construct, neutral refactors must stay silent)')
        with open(path, 'w', encoding='utf-8') as fh:
            json.dump(ev, fh, indent=1)
    except OSError:
        pass
    return 0


if __name__ == '__main__':
    import sys
    sel = [a for a in sys.argv[1:] if not a.startswith('--')]
    rc, _ = run_variants(sel or None, None)
    sys.exit(rc)
