"""Per-function control-flow graph over the statement kinds used by wcmatch.

Short-circuit tests are decomposed into one `cond` node per atom (so `if a and b` and nested ifs give the same
graph); loops, try/except/else/finally, with, return, raise, break/continue are modelled; statements that may
raise have exceptional edges to the enclosing handlers or to the exceptional exit.
"""
from __future__ import annotations

import ast
from dataclasses import dataclass, field

from .model import AnalysisError, walk_no_nested


@dataclass
class Node:
    id: int
    kind: str  # entry | exit | xexit | stmt | cond | for | return | raise | except | with | join
    ast: ast.AST | None = None
    succ: list[tuple[str, int]] = field(default_factory=list)  # (label, node id); labels: n, T, F, exc
    line: int = 0

    def __hash__(self) -> int:
        return self.id


def may_raise(node: ast.AST | None) -> bool:
    if node is None:
        return False
    for n in [node, *walk_no_nested(node)]:
        if isinstance(n, (ast.Call, ast.Subscript, ast.Raise, ast.Yield, ast.YieldFrom, ast.Await, ast.Assert)):
            return True
        if isinstance(n, ast.BinOp):
            return True
    return False


def has_yield(node: ast.AST | None) -> bool:
    if node is None:
        return False
    return any(isinstance(n, (ast.Yield, ast.YieldFrom)) for n in [node, *walk_no_nested(node)])


class CFG:
    def __init__(self, fn: ast.AST) -> None:
        self.fn = fn
        self.nodes: list[Node] = []
        self.entry = self._new('entry')
        self.exit = self._new('exit')
        self.xexit = self._new('xexit')
        # stacks
        self._loops: list[tuple[int, int, int]] = []  # (continue target, break target, finally depth)
        self._handlers: list[list[int]] = []  # innermost last: list of except-dispatch targets
        self._finally: list[list[ast.stmt]] = []
        body = fn.body if isinstance(fn.body, list) else [ast.Return(value=fn.body, lineno=fn.lineno, col_offset=0)]
        ends = self._block(body, [(self.entry.id, 'n')])
        for src, lab in ends:
            self._edge(src, lab, self.exit.id)
        self._finish()

    # ------------------------------------------------------------------ construction
    def _new(self, kind: str, node: ast.AST | None = None) -> Node:
        n = Node(len(self.nodes), kind, node, line=getattr(node, 'lineno', 0) or 0)
        self.nodes.append(n)
        return n

    def _edge(self, src: int, label: str, dst: int) -> None:
        if (label, dst) not in self.nodes[src].succ:
            self.nodes[src].succ.append((label, dst))

    def _connect(self, pend: list[tuple[int, str]], dst: int) -> None:
        for src, lab in pend:
            self._edge(src, lab, dst)

    def _exc_edges(self, src: int) -> None:
        """Add exceptional edges from `src` to the innermost handlers (and beyond, unless a catch-all)."""
        depth = len(self._handlers)
        while depth > 0:
            hs = self._handlers[depth - 1]
            for h in hs:
                self._edge(src, 'exc', h)
            if any(self._catch_all(self.nodes[h]) for h in hs if self.nodes[h].kind == 'except'):
                return
            if any(self.nodes[h].kind == 'finally_x' for h in hs):
                return
            depth -= 1
        self._edge(src, 'exc', self.xexit.id)

    @staticmethod
    def _catch_all(n: Node) -> bool:
        h = n.ast
        if not isinstance(h, ast.ExceptHandler):
            return False
        if h.type is None:
            return True
        names = [h.type] if not isinstance(h.type, ast.Tuple) else list(h.type.elts)
        return any(isinstance(x, ast.Name) and x.id in ('BaseException',) for x in names)

    def _simple(self, kind: str, st: ast.AST, pend: list[tuple[int, str]]) -> Node:
        n = self._new(kind, st)
        self._connect(pend, n.id)
        if may_raise(st):
            self._exc_edges(n.id)
        return n

    def _cond(self, test: ast.AST, pend: list[tuple[int, str]]) -> tuple[list[tuple[int, str]], list[tuple[int, str]]]:
        """Build cond nodes for `test`; returns (true-pending, false-pending)."""
        if isinstance(test, ast.BoolOp):
            t_out: list[tuple[int, str]] = []
            f_out: list[tuple[int, str]] = []
            cur = pend
            for i, v in enumerate(test.values):
                t, f = self._cond(v, cur)
                last = i == len(test.values) - 1
                if isinstance(test.op, ast.And):
                    f_out += f
                    if last:
                        t_out += t
                    else:
                        cur = t
                else:
                    t_out += t
                    if last:
                        f_out += f
                    else:
                        cur = f
            return t_out, f_out
        if isinstance(test, ast.UnaryOp) and isinstance(test.op, ast.Not):
            t, f = self._cond(test.operand, pend)
            return f, t
        if isinstance(test, ast.Constant):
            n = self._new('cond', test)
            self._connect(pend, n.id)
            return ([(n.id, 'T')], []) if test.value else ([], [(n.id, 'F')])
        n = self._new('cond', test)
        self._connect(pend, n.id)
        if may_raise(test):
            self._exc_edges(n.id)
        return [(n.id, 'T')], [(n.id, 'F')]

    def _block(self, body: list[ast.stmt], pend: list[tuple[int, str]]) -> list[tuple[int, str]]:
        for st in body:
            pend = self._stmt(st, pend)
        return pend

    def _run_finallies(self, pend: list[tuple[int, str]], down_to: int) -> list[tuple[int, str]]:
        """Inline copies of pending finally bodies (innermost first) for a jump leaving them."""
        for i in range(len(self._finally) - 1, down_to - 1, -1):
            saved_f, saved_h = self._finally, self._handlers
            self._finally = self._finally[:i]
            pend = self._block(saved_f[i], pend)
            self._finally, self._handlers = saved_f, saved_h
        return pend

    def _stmt(self, st: ast.stmt, pend: list[tuple[int, str]]) -> list[tuple[int, str]]:
        if not pend:
            # unreachable code: still build it (isolated) so nodes exist for queries
            pass
        if isinstance(st, ast.If):
            t, f = self._cond(st.test, pend)
            out = self._block(st.body, t)
            out += self._block(st.orelse, f) if st.orelse else f
            return out
        if isinstance(st, ast.While):
            head = self._new('join', st)
            self._connect(pend, head.id)
            t, f = self._cond(st.test, [(head.id, 'n')])
            after = self._new('join', st)
            self._loops.append((head.id, after.id, len(self._finally)))
            body_end = self._block(st.body, t)
            self._loops.pop()
            self._connect(body_end, head.id)
            out = self._block(st.orelse, f) if st.orelse else f
            self._connect(out, after.id)
            return [(after.id, 'n')]
        if isinstance(st, (ast.For, ast.AsyncFor)):
            init = self._simple('stmt', ast.Expr(value=st.iter, lineno=st.lineno, col_offset=0), pend)
            head = self._new('for', st)
            self._edge(init.id, 'n', head.id)
            self._exc_edges(head.id)
            after = self._new('join', st)
            self._loops.append((head.id, after.id, len(self._finally)))
            body_end = self._block(st.body, [(head.id, 'T')])
            self._loops.pop()
            self._connect(body_end, head.id)
            out = self._block(st.orelse, [(head.id, 'F')]) if st.orelse else [(head.id, 'F')]
            self._connect(out, after.id)
            return [(after.id, 'n')]
        if isinstance(st, ast.Break):
            _c, b, depth = self._loops[-1]
            pend = self._run_finallies(pend, depth)
            self._connect(pend, b)
            return []
        if isinstance(st, ast.Continue):
            c, _b, depth = self._loops[-1]
            pend = self._run_finallies(pend, depth)
            self._connect(pend, c)
            return []
        if isinstance(st, ast.Return):
            n = self._simple('return', st, pend)
            out = self._run_finallies([(n.id, 'n')], 0)
            self._connect(out, self.exit.id)
            return []
        if isinstance(st, ast.Raise):
            n = self._new('raise', st)
            self._connect(pend, n.id)
            self._exc_edges(n.id)
            return []
        if isinstance(st, (ast.With, ast.AsyncWith)):
            n = self._simple('with', st, pend)
            # treat the with-items as one raising node, then the body
            self._exc_edges(n.id)
            return self._block(st.body, [(n.id, 'n')])
        if isinstance(st, ast.Try) or st.__class__.__name__ == 'TryStar':
            return self._try(st, pend)
        if isinstance(st, (ast.FunctionDef, ast.AsyncFunctionDef, ast.ClassDef)):
            n = self._new('stmt', st)
            self._connect(pend, n.id)
            return [(n.id, 'n')]
        if isinstance(st, ast.Match):
            raise AnalysisError('match statements are not modelled by the CFG builder')
        n = self._simple('stmt', st, pend)
        return [(n.id, 'n')]

    def _try(self, st: ast.Try, pend: list[tuple[int, str]]) -> list[tuple[int, str]]:
        handler_nodes = [self._new('except', h) for h in st.handlers]
        fin_x = None
        if st.finalbody:
            fin_x = self._new('finally_x', st)  # exceptional entry of the finally body
            self._finally.append(st.finalbody)
        targets = [h.id for h in handler_nodes]
        if fin_x is not None:
            # anything not caught by the handlers lands in the exceptional finally copy
            targets_body = targets + [fin_x.id]
        else:
            targets_body = targets
        self._handlers.append(targets_body)
        body_end = self._block(st.body, pend)
        self._handlers.pop()
        # else clause runs outside the handlers (but inside finally)
        if fin_x is not None:
            self._handlers.append([fin_x.id])
        else_end = self._block(st.orelse, body_end) if st.orelse else body_end
        out = list(else_end)
        for hn, h in zip(handler_nodes, st.handlers):
            out += self._block(h.body, [(hn.id, 'n')])
        if fin_x is not None:
            self._handlers.pop()
            self._finally.pop()
            # normal copy
            out = self._block(st.finalbody, out)
            # exceptional copy, then propagate outward
            x_end = self._block(st.finalbody, [(fin_x.id, 'n')])
            prop = self._new('raise', st)
            self._connect(x_end, prop.id)
            self._exc_edges(prop.id)
        return out

    # ------------------------------------------------------------------ analyses
    def _finish(self) -> None:
        self.pred: dict[int, list[tuple[str, int]]] = {n.id: [] for n in self.nodes}
        for n in self.nodes:
            for lab, d in n.succ:
                self.pred[d].append((lab, n.id))
        self.reach = self.reachable_from(self.entry.id)

    def reachable_from(self, start: int, blocked_nodes: set[int] | None = None,
                       blocked_edges: set[tuple[int, str]] | None = None,
                       labels: set[str] | None = None) -> set[int]:
        blocked_nodes = blocked_nodes or set()
        blocked_edges = blocked_edges or set()
        seen = {start}
        todo = [start]
        while todo:
            x = todo.pop()
            for lab, d in self.nodes[x].succ:
                if labels is not None and lab not in labels:
                    continue
                if (x, lab) in blocked_edges or d in blocked_nodes or d in seen:
                    continue
                seen.add(d)
                todo.append(d)
        return seen

    def dominators(self) -> dict[int, set[int]]:
        if hasattr(self, '_dom'):
            return self._dom
        nodes = sorted(self.reach)
        dom = {n: set(nodes) for n in nodes}
        dom[self.entry.id] = {self.entry.id}
        changed = True
        while changed:
            changed = False
            for n in nodes:
                if n == self.entry.id:
                    continue
                ps = [p for _l, p in self.pred[n] if p in self.reach]
                new = set.intersection(*(dom[p] for p in ps)) if ps else set()
                new = new | {n}
                if new != dom[n]:
                    dom[n] = new
                    changed = True
        self._dom = dom
        return dom

    def dominates(self, a: int, b: int) -> bool:
        return b in self.reach and a in self.dominators().get(b, set())

    def stmt_nodes(self, pred=None, kinds=None) -> list[Node]:
        out = []
        for n in self.nodes:
            if n.id not in self.reach:
                continue
            if kinds and n.kind not in kinds:
                continue
            if pred is None or (n.ast is not None and pred(n)):
                out.append(n)
        return out

    def guarded_by(self, target: int, cond_pred, polarity: str) -> bool:
        """True if every entry->target path takes the `polarity` edge of a cond node satisfying cond_pred."""
        if target not in self.reach:
            return True
        blocked = {(n.id, polarity) for n in self.nodes if n.kind == 'cond' and cond_pred(n)}
        if not blocked:
            return False
        return target not in self.reachable_from(self.entry.id, blocked_edges=blocked)

    def must_pass(self, src: int, dst: int, through: set[int]) -> bool:
        """Every path src->dst passes a node in `through` (src/dst themselves excluded from the requirement)."""
        if src in through or dst in through:
            return True
        return dst not in self.reachable_from(src, blocked_nodes=through)

    def natural_loops(self) -> list[tuple[int, set[int]]]:
        """[(header, nodes)] for every back edge target (merged per header)."""
        loops: dict[int, set[int]] = {}
        for n in self.nodes:
            if n.id not in self.reach:
                continue
            for _lab, d in n.succ:
                if self.dominates(d, n.id):
                    body = {d, n.id}
                    todo = [n.id] if n.id != d else []
                    while todo:
                        x = todo.pop()
                        for _l, p in self.pred[x]:
                            if p not in body and p in self.reach:
                                body.add(p)
                                todo.append(p)
                    loops.setdefault(d, set()).update(body)
        return sorted(loops.items())

    def sccs(self, blocked_nodes: set[int] | None = None) -> list[set[int]]:
        """Non-trivial strongly connected components (size > 1 or self loop) of the reachable graph."""
        blocked_nodes = blocked_nodes or set()
        index = {}
        low = {}
        stack: list[int] = []
        on = set()
        out = []
        counter = [0]
        import sys
        sys.setrecursionlimit(10000)

        def strong(v: int) -> None:
            index[v] = low[v] = counter[0]
            counter[0] += 1
            stack.append(v)
            on.add(v)
            for _l, w in self.nodes[v].succ:
                if w in blocked_nodes:
                    continue
                if w not in index:
                    strong(w)
                    low[v] = min(low[v], low[w])
                elif w in on:
                    low[v] = min(low[v], index[w])
            if low[v] == index[v]:
                comp = set()
                while True:
                    w = stack.pop()
                    on.discard(w)
                    comp.add(w)
                    if w == v:
                        break
                if len(comp) > 1 or any(d == v for _l, d in self.nodes[v].succ):
                    out.append(comp)

        for v in sorted(self.reach):
            if v not in index and v not in blocked_nodes:
                strong(v)
        return out


def cfg_of(fn_node: ast.AST) -> CFG:
    g = getattr(fn_node, '_wc_cfg', None)
    if g is None:
        g = CFG(fn_node)
        fn_node._wc_cfg = g  # cached on the node itself (never in an id-keyed table: ids are reused)
    return g
