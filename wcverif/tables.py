"""Comparison of extracted decision tables with specification tables (the `dt` oracle side)."""
from __future__ import annotations

import itertools
from typing import Any, Callable

from .model import AnalysisError
from .symeval import Path, atom_pretty


class Need(Exception):
    def __init__(self, atom: str) -> None:
        self.atom = atom


class Get:
    """Read access to a (partial) valuation; raises Need for atoms the path did not decide."""

    def __init__(self, val: dict[str, bool]) -> None:
        self.val = val

    def __call__(self, atom: str) -> bool:
        if atom not in self.val:
            raise Need(atom)
        return self.val[atom]


def pretty_assign(p: Path, bitnames: dict[int, str], alias: dict[str, str] | None = None) -> dict[str, bool]:
    out = {}
    for k, v in p.decisions.items():
        name = atom_pretty(k, bitnames)
        neg = False
        if alias:
            name2 = alias.get(name, name)
            if name2.startswith('!'):
                neg, name2 = True, name2[1:]
            name = name2
        out[name] = (not v) if neg else v
    return out


def oracle_values(oracle: Callable[[Get], Any], val: dict[str, bool], limit: int = 10,
                  exclusive: Callable[[str], Any] | None = None) -> list[Any]:
    """All values the oracle can take over completions of a partial valuation."""
    pending = [dict(val)]
    out: list[Any] = []
    while pending:
        v = pending.pop()
        try:
            r = oracle(Get(v))
        except Need as n:
            if len(v) - len(val) > limit:
                raise AnalysisError('oracle needs too many undecided atoms') from None
            for b in (False, True):
                if b and exclusive is not None and exclusive(n.atom) is not None and \
                        any(t and k != n.atom and exclusive(k) == exclusive(n.atom) for k, t in v.items()):
                    continue  # atoms of one group exclude each other (one value equals at most one constant)
                v2 = dict(v)
                v2[n.atom] = b
                pending.append(v2)
            continue
        if r not in out:
            out.append(r)
    return out


def compare_table(paths: list[Path], bitnames: dict[int, str], oracle: Callable[[Get], Any],
                  project: Callable[[Path], Any], known_atoms: set[str] | None = None,
                  alias: dict[str, str] | None = None, where: str = '',
                  exclusive: Callable[[str], Any] | None = None) -> tuple[bool, str, int]:
    """Return (ok, first mismatch description, rows).

    `known_atoms`: the vocabulary of the specification. A path deciding a non-flag atom outside it cannot be
    interpreted (AnalysisError); flag-bit atoms are always interpretable -- if the function's result depends on a bit
    the specification does not mention, rows will disagree with the oracle and that is a violation.
    """
    rows = 0
    for p in paths:
        val = pretty_assign(p, bitnames, alias)
        extra = []
        if known_atoms is not None:
            # a condition outside the vocabulary of the specification: the specified result must hold whatever its value, so the row is
            # judged on the known atoms alone (a row whose result needs the extra condition disagrees with the specification)
            extra = [a for a in val if a not in known_atoms and '&' not in a]
        rows += 1
        got = project(p)
        exp = oracle_values(oracle, {k: v for k, v in val.items() if k not in extra}, exclusive=exclusive)
        if exp != [got]:
            desc = ', '.join(f'{k}={int(v)}' for k, v in sorted(val.items()))
            note = f' (the result depends on `{extra[0]}`, which the specification does not mention)' if extra else ''
            return False, f'row [{desc}]: computed {got!r}, specification {" or ".join(map(repr, exp))}{note}', rows
    return True, '', rows


def all_valuations(atoms: list[str]):
    for bits in itertools.product((False, True), repeat=len(atoms)):
        yield dict(zip(atoms, bits))
