"""Both-ways self-test of the checker (thorough tier): breaking and neutral variants on scratch copies."""
from __future__ import annotations


def run_selftest(prop: str, seed: int) -> int:
    from .variants import run_variants_for
    return run_variants_for(prop, seed)
