"""Propositional comparison of branch conditions: atoms are normalised sub-expression texts."""
from __future__ import annotations

import ast
import itertools

from .model import norm_src


def atoms_of(e: ast.AST, out: list[str]) -> None:
    if isinstance(e, ast.BoolOp):
        for v in e.values:
            atoms_of(v, out)
    elif isinstance(e, ast.UnaryOp) and isinstance(e.op, ast.Not):
        atoms_of(e.operand, out)
    elif isinstance(e, ast.Call) and isinstance(e.func, ast.Name) and e.func.id == 'bool' and len(e.args) == 1:
        atoms_of(e.args[0], out)
    else:
        k, _neg = canon_atom(e)
        if k not in out:
            out.append(k)


def canon_atom(e: ast.AST) -> tuple[str, bool]:
    """Canonical text of an atom and whether the expression is its negation (`a != b` -> (`a == b`, True))."""
    if isinstance(e, ast.Compare) and len(e.ops) == 1:
        op = e.ops[0]
        pairs = {ast.NotEq: ast.Eq, ast.NotIn: ast.In, ast.IsNot: ast.Is}
        if type(op) in pairs:
            pos = ast.Compare(left=e.left, ops=[pairs[type(op)]()], comparators=e.comparators)
            return norm_src(pos), True
    return norm_src(e), False


def evaluate(e: ast.AST, val: dict[str, bool]) -> bool:
    if isinstance(e, ast.BoolOp):
        if isinstance(e.op, ast.And):
            return all(evaluate(v, val) for v in e.values)
        return any(evaluate(v, val) for v in e.values)
    if isinstance(e, ast.UnaryOp) and isinstance(e.op, ast.Not):
        return not evaluate(e.operand, val)
    if isinstance(e, ast.Call) and isinstance(e.func, ast.Name) and e.func.id == 'bool' and len(e.args) == 1:
        return evaluate(e.args[0], val)
    k, neg = canon_atom(e)
    return (not val[k]) if neg else val[k]


def as_expr(x: ast.AST | str) -> ast.AST:
    return ast.parse(x, mode='eval').body if isinstance(x, str) else x


def equivalent_tests(a: ast.AST | str, b: ast.AST | str, max_atoms: int = 12) -> bool:
    ea, eb = as_expr(a), as_expr(b)
    atoms: list[str] = []
    atoms_of(ea, atoms)
    atoms_of(eb, atoms)
    if len(atoms) > max_atoms:
        return norm_src(ea) == norm_src(eb)
    for bits in itertools.product((False, True), repeat=len(atoms)):
        val = dict(zip(atoms, bits))
        if evaluate(ea, val) != evaluate(eb, val):
            return False
    return True


def implies_tests(a: ast.AST | str, b: ast.AST | str) -> bool:
    ea, eb = as_expr(a), as_expr(b)
    atoms: list[str] = []
    atoms_of(ea, atoms)
    atoms_of(eb, atoms)
    for bits in itertools.product((False, True), repeat=len(atoms)):
        val = dict(zip(atoms, bits))
        if evaluate(ea, val) and not evaluate(eb, val):
            return False
    return True
