"""Propositional comparison of branch conditions: atoms are normalised sub-expression texts."""
from __future__ import annotations

import ast
import itertools

from .model import norm_src


def atoms_of(e: ast.AST, out: list[str]) -> None:
    if isinstance(e, ast.BoolOp):
        for v in e.values:
            atoms_of(v, out)
    elif isinstance(e, ast.UnaryOp) and isinstance(e.op, ast.Not):
        atoms_of(e.operand, out)
    elif isinstance(e, ast.Call) and isinstance(e.func, ast.Name) and e.func.id == 'bool' and len(e.args) == 1:
        atoms_of(e.args[0], out)
    else:
        k, _neg = canon_atom(e)
        if k not in out:
            out.append(k)


def canon_atom(e: ast.AST) -> tuple[str, bool]:
    """Canonical text of an atom and whether the expression is its negation (`a != b` -> (`a == b`, True))."""
    if isinstance(e, ast.Compare) and len(e.ops) == 1:
        op = e.ops[0]
        pairs = {ast.NotEq: ast.Eq, ast.NotIn: ast.In, ast.IsNot: ast.Is}
        if type(op) in pairs:
            pos = ast.Compare(left=e.left, ops=[pairs[type(op)]()], comparators=e.comparators)
            return norm_src(pos), True
    return norm_src(e), False


def evaluate(e: ast.AST, val: dict[str, bool]) -> bool:
    if isinstance(e, ast.BoolOp):
        if isinstance(e.op, ast.And):
            return all(evaluate(v, val) for v in e.values)
        return any(evaluate(v, val) for v in e.values)
    if isinstance(e, ast.UnaryOp) and isinstance(e.op, ast.Not):
        return not evaluate(e.operand, val)
    if isinstance(e, ast.Call) and isinstance(e.func, ast.Name) and e.func.id == 'bool' and len(e.args) == 1:
        return evaluate(e.args[0], val)
    k, neg = canon_atom(e)
    return (not val[k]) if neg else val[k]


def as_expr(x: ast.AST | str) -> ast.AST:
    return ast.parse(x, mode='eval').body if isinstance(x, str) else x


def equivalent_tests(a: ast.AST | str, b: ast.AST | str, max_atoms: int = 12, fn: ast.AST | None = None) -> bool:
    ea, eb = as_expr(a), as_expr(b)
    if fn is not None:
        ea = inline_locals(fn, ea)
    atoms: list[str] = []
    atoms_of(ea, atoms)
    atoms_of(eb, atoms)
    if len(atoms) > max_atoms:
        return norm_src(ea) == norm_src(eb)
    for bits in itertools.product((False, True), repeat=len(atoms)):
        val = dict(zip(atoms, bits))
        if evaluate(ea, val) != evaluate(eb, val):
            return False
    return True


def implies_tests(a: ast.AST | str, b: ast.AST | str) -> bool:
    ea, eb = as_expr(a), as_expr(b)
    atoms: list[str] = []
    atoms_of(ea, atoms)
    atoms_of(eb, atoms)
    for bits in itertools.product((False, True), repeat=len(atoms)):
        val = dict(zip(atoms, bits))
        if evaluate(ea, val) and not evaluate(eb, val):
            return False
    return True


MUTATORS = {'append', 'extend', 'insert', 'pop', 'remove', 'clear', 'add', 'update', 'discard', 'sort', 'reverse',
            'setdefault', 'popitem', 'rewind', 'advance'}


def inline_locals(fn_node: ast.AST, expr: ast.AST, depth: int = 0) -> ast.AST:
    """Replace names that are assigned exactly once in the function (plain `x = <expr>`) by their definition.

    Makes shape rules insensitive to "extract a sub-expression into a local" refactors.
    """
    import copy
    if depth > 4:
        return expr
    defs: dict[str, list[ast.AST]] = {}
    params = set()
    a = getattr(fn_node, 'args', None)
    if a is not None:
        params = {x.arg for x in a.posonlyargs + a.args + a.kwonlyargs}
    todo = list(ast.iter_child_nodes(fn_node))
    while todo:
        n = todo.pop()
        if isinstance(n, (ast.FunctionDef, ast.AsyncFunctionDef, ast.ClassDef, ast.Lambda)):
            continue
        if isinstance(n, ast.Assign):
            for t in n.targets:
                for x in ast.walk(t):
                    if isinstance(x, ast.Name):
                        defs.setdefault(x.id, []).append(n.value if (len(n.targets) == 1 and t is x) else None)
        elif isinstance(n, (ast.AugAssign, ast.AnnAssign, ast.For, ast.With, ast.NamedExpr)):
            tgt = getattr(n, 'target', None)
            for x in (ast.walk(tgt) if tgt is not None else []):
                if isinstance(x, ast.Name):
                    defs.setdefault(x.id, []).append(None)
        elif isinstance(n, ast.Call) and isinstance(n.func, ast.Attribute) and isinstance(n.func.value, ast.Name) and \
                n.func.attr in MUTATORS:
            # the object is changed in place after its definition: the definition is not its value at the use
            defs.setdefault(n.func.value.id, []).append(None)
        elif isinstance(n, (ast.Subscript, ast.Attribute)) and isinstance(n.ctx, (ast.Store, ast.Del)) and \
                isinstance(n.value, ast.Name):
            defs.setdefault(n.value.id, []).append(None)
        todo.extend(ast.iter_child_nodes(n))
    single = {k: v[0] for k, v in defs.items() if len(v) == 1 and v[0] is not None and k not in params}

    class R(ast.NodeTransformer):
        def visit_Name(self, n: ast.Name) -> ast.AST:
            if isinstance(n.ctx, ast.Load) and n.id in single:
                return inline_locals(fn_node, copy.deepcopy(single[n.id]), depth + 1)
            return n
    return R().visit(copy.deepcopy(expr))


def resolved_src(fn_node: ast.AST, expr: ast.AST) -> str:
    return norm_src(inline_locals(fn_node, expr))
