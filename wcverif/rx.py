"""Regex-fragment domain.

Parses regex *constants taken from the source* with the interpreter's own `re._parser` (front end only -- nothing is
compiled or matched), converts them to a small algebraic form, and computes
  * structural facts (width, nullable, consumed alphabet, capture groups, anchors and where they sit), and
  * exact *contextual language equivalence* of two fragments by a derivative construction that supports
    look-ahead assertions, `^`, `$`, `\\Z` (a decision procedure on automata, not test-by-matching).

Semantics assumed: DOTALL (the library always wraps its output in `(?s:...)`), no MULTILINE, so `^` is start of
string and `$` is "end, or before a final newline".
"""
from __future__ import annotations

import re
import sys
from functools import lru_cache
from typing import Any, Iterable

from .model import AnalysisError

_parser = getattr(re, '_parser', None) or __import__('sre_parse')
_const = getattr(re, '_constants', None) or __import__('sre_constants')

MAXCP = 0x10FFFF
INF = None  # max repeat "unbounded"

# placeholder letters (private-use code points) for template slots
SLOT0 = '\ue000'
SLOT1 = '\ue001'
SLOT2 = '\ue002'
_SLOTS = {0xE000: 'X0', 0xE001: 'X1', 0xE002: 'X2'}


# ---------------------------------------------------------------------------------------------- interval sets
def cs_norm(iv: Iterable[tuple[int, int]]) -> tuple[tuple[int, int], ...]:
    out: list[list[int]] = []
    for lo, hi in sorted(iv):
        if lo > hi:
            continue
        if out and lo <= out[-1][1] + 1:
            out[-1][1] = max(out[-1][1], hi)
        else:
            out.append([lo, hi])
    return tuple((a, b) for a, b in out)


def cs_union(a, b):
    return cs_norm(list(a) + list(b))


def cs_compl(a, universe=MAXCP):
    out = []
    prev = 0
    for lo, hi in cs_norm(a):
        if lo > prev:
            out.append((prev, lo - 1))
        prev = hi + 1
    if prev <= universe:
        out.append((prev, universe))
    return cs_norm((lo, min(hi, universe)) for lo, hi in out)


def cs_inter(a, b, universe=MAXCP):
    return cs_compl(cs_union(cs_compl(a, universe), cs_compl(b, universe)), universe)


def cs_diff(a, b, universe=MAXCP):
    return cs_inter(a, cs_compl(b, universe), universe)


def cs_contains(a, cp: int) -> bool:
    return any(lo <= cp <= hi for lo, hi in a)


def cs_subset(a, b, universe=MAXCP) -> bool:
    return not cs_diff(a, b, universe)


def cs_of(chars: str | Iterable[int]) -> tuple[tuple[int, int], ...]:
    return cs_norm((c if isinstance(c, int) else ord(c),) * 2 for c in chars)


def cs_size(a) -> int:
    return sum(hi - lo + 1 for lo, hi in a)


def cs_show(a, universe=MAXCP) -> str:
    if a == ((0, universe),):
        return 'ANY'
    comp = cs_compl(a, universe)
    neg = cs_size(comp) < cs_size(a) and cs_size(comp) <= 8

    def one(c):
        ch = chr(c)
        return ch if ch.isprintable() and ch not in ' ' else f'\\x{c:02x}' if c < 256 else f'\\u{c:04x}'
    body = ''.join(one(lo) if lo == hi else f'{one(lo)}-{one(hi)}' for lo, hi in (comp if neg else a))
    return ('[^' if neg else '[') + body + ']'


@lru_cache(maxsize=None)
def _category(name: str, universe: int) -> tuple[tuple[int, int], ...]:
    import unicodedata
    rng = range(0, universe + 1)
    if universe <= 255:
        if name == 'digit':
            return cs_of('0123456789')
        if name == 'space':
            return cs_of(' \t\n\r\f\v')
        if name == 'word':
            return cs_of('0123456789abcdefghijklmnopqrstuvwxyzABCDEFGHIJKLMNOPQRSTUVWXYZ_')
    if name == 'digit':
        return cs_norm((c, c) for c in rng if unicodedata.category(chr(c)) == 'Nd')
    if name == 'space':
        return cs_norm((c, c) for c in rng if chr(c).isspace())
    if name == 'word':
        return cs_norm((c, c) for c in rng if chr(c).isalnum() or c == 95)
    raise AnalysisError(f'unsupported regex category {name}')


# ---------------------------------------------------------------------------------------------- algebraic form
EPS = ('eps',)
FAIL = ('lit', ())


def seq(items: Iterable[Any]) -> Any:
    out: list[Any] = []
    for it in items:
        if it == EPS:
            continue
        if it[0] == 'seq':
            out.extend(it[1])
        else:
            out.append(it)
    if any(x == FAIL for x in out):
        return FAIL
    if not out:
        return EPS
    if len(out) == 1:
        return out[0]
    return ('seq', tuple(out))


def alt(items: Iterable[Any]) -> Any:
    out: list[Any] = []
    lits: list[Any] = []
    for it in items:
        if it[0] == 'alt':
            sub = list(it[1])
        else:
            sub = [it]
        for s in sub:
            if s == FAIL:
                continue
            if s[0] == 'lit':
                lits.append(s[1])
            elif s not in out:
                out.append(s)
    if lits:
        u: tuple = ()
        for l in lits:
            u = cs_union(u, l)
        out.append(('lit', u))
    if not out:
        return FAIL
    if len(out) == 1:
        return out[0]
    return ('alt', tuple(sorted(out, key=repr)))


def rep(lo: int, hi: int | None, body: Any) -> Any:
    if body == EPS:
        return EPS
    if body == FAIL:
        return EPS if lo == 0 else FAIL
    if hi is not None and hi == 0:
        return EPS
    if lo == 1 and hi == 1:
        return body
    if hi is not None and lo == hi and lo <= 4:
        return seq([body] * lo)  # x{2} is xx: one spelling
    if body[0] == 'rep' and lo in (0, 1) and hi is None and body[2] is None and body[1] in (0, 1):
        return ('rep', min(lo, body[1]), None, body[3])
    return ('rep', lo, hi, body)


class Parsed:
    """A regex constant converted to algebraic form."""

    def __init__(self, pattern: str | bytes, flags: int = 0, dotall: bool = True) -> None:
        # dotall=True: the text is a fragment that the library embeds in `(?s:...)`; False: a stand-alone regex whose `.`
        # excludes the newline unless its own flags / scoped `(?s:` groups say otherwise
        self._dotall = [bool(dotall or (flags & re.S))]
        self.is_bytes = isinstance(pattern, bytes)
        self.text = pattern.decode('latin-1') if isinstance(pattern, bytes) else pattern
        self.universe = 255 if self.is_bytes else MAXCP
        self.ngroups = 0
        self.has_lookbehind = False
        try:
            tree = _parser.parse(self.text, flags)
        except re.error as e:
            raise RxParseError(str(e)) from e
        if tree.state.flags & re.S and not self._dotall[0]:
            # a global inline (?s) flag: convert again with DOTALL on
            self._dotall = [True]
        self.ngroups = tree.state.groups - 1
        self.ignorecase = bool((flags | tree.state.flags) & re.I)
        self.node = self._conv_seq(tree)

    # conversion ---------------------------------------------------------------------------------------------
    def _conv_seq(self, sp: Any) -> Any:
        return seq(self._conv(op, av) for op, av in sp)

    def _class(self, items: list) -> tuple:
        negate = False
        cs: tuple = ()
        for op, av in items:
            if op is _const.NEGATE:
                negate = True
            elif op is _const.LITERAL:
                cs = cs_union(cs, ((av, av),))
            elif op is _const.RANGE:
                cs = cs_union(cs, ((av[0], av[1]),))
            elif op is _const.CATEGORY:
                nm = str(av)
                base = {'CATEGORY_DIGIT': 'digit', 'CATEGORY_SPACE': 'space', 'CATEGORY_WORD': 'word'}
                nbase = {'CATEGORY_NOT_DIGIT': 'digit', 'CATEGORY_NOT_SPACE': 'space', 'CATEGORY_NOT_WORD': 'word'}
                if nm in base:
                    cs = cs_union(cs, _category(base[nm], self.universe))
                elif nm in nbase:
                    cs = cs_union(cs, cs_compl(_category(nbase[nm], self.universe), self.universe))
                else:
                    raise AnalysisError(f'unsupported category {nm}')
            else:
                raise AnalysisError(f'unsupported class item {op}')
        cs = cs_inter(cs, ((0, self.universe),), self.universe)
        return cs_compl(cs, self.universe) if negate else cs

    def _fold(self, cs: tuple) -> tuple:
        """Close an ASCII character set under case when the constant was compiled with re.I."""
        if not self.ignorecase:
            return cs
        extra = []
        for lo, hi in cs:
            for a, b, d in ((65, 90, 32), (97, 122, -32)):
                l2, h2 = max(lo, a), min(hi, b)
                if l2 <= h2:
                    extra.append((l2 + d, h2 + d))
        return cs_union(cs, extra)

    def _conv(self, op: Any, av: Any) -> Any:
        C = _const
        if op is C.LITERAL:
            if av in _SLOTS:
                return ('sym', _SLOTS[av])
            return ('lit', self._fold(((av, av),)))
        if op is C.NOT_LITERAL:
            return ('lit', cs_compl(self._fold(((av, av),)), self.universe))
        if op is C.ANY:
            if self._dotall[-1]:
                return ('lit', ((0, self.universe),))
            return ('lit', cs_compl(((10, 10),), self.universe))
        if op is C.IN:
            return ('lit', self._fold(self._class(av)))
        if op is C.BRANCH:
            return alt(self._conv_seq(b) for b in av[1])
        if op is C.SUBPATTERN:
            group, add, dele, sub = av
            self._dotall.append((self._dotall[-1] or bool(add & re.S)) and not (dele & re.S))
            try:
                body = self._conv_seq(sub)
            finally:
                self._dotall.pop()
            if group is not None:
                return ('cap', group, body)
            return body
        if op in (C.MAX_REPEAT, C.MIN_REPEAT) or op is getattr(C, 'POSSESSIVE_REPEAT', object()):
            lo, hi, sub = av
            hi2 = None if hi is C.MAXREPEAT else int(hi)
            return rep(int(lo), hi2, self._conv_seq(sub))
        if op in (C.ASSERT, C.ASSERT_NOT):
            direction, sub = av
            if direction < 0:
                self.has_lookbehind = True
            return ('look', op is C.ASSERT_NOT, direction < 0, self._conv_seq(sub))
        if op is C.AT:
            nm = str(av)
            if nm in ('AT_BEGINNING', 'AT_BEGINNING_STRING'):
                return ('bol',)
            if nm == 'AT_END':
                return ('eol',)
            if nm == 'AT_END_STRING':
                return ('eos',)
            return ('at', nm)
        if op is getattr(C, 'ATOMIC_GROUP', object()):
            return self._conv_seq(av)
        if op is C.GROUPREF:
            return ('ref', av)
        raise AnalysisError(f'unsupported regex operator {op}')


class RxParseError(Exception):
    """The constant is not a valid regex (e.g. unbalanced)."""


@lru_cache(maxsize=None)
def parse(pattern: str | bytes, flags: int = 0, dotall: bool = True) -> Parsed:
    return Parsed(pattern, flags, dotall)


# ---------------------------------------------------------------------------------------------- structural facts
def subnodes(n: Any, into_look: bool = True):
    yield n
    k = n[0]
    if k in ('seq', 'alt'):
        for c in n[1]:
            yield from subnodes(c, into_look)
    elif k == 'rep':
        yield from subnodes(n[3], into_look)
    elif k == 'cap':
        yield from subnodes(n[2], into_look)
    elif k == 'look' and into_look:
        yield from subnodes(n[3], into_look)


def width(n: Any) -> tuple[int, int | None]:
    k = n[0]
    if k == 'lit':
        return (1, 1) if n[1] else (0, 0)
    if k == 'sym':
        return (0, None)
    if k in ('eps', 'look', 'bol', 'eol', 'eos', 'at'):
        return (0, 0)
    if k == 'ref':
        return (0, None)
    if k == 'seq':
        lo, hi = 0, 0
        for c in n[1]:
            a, b = width(c)
            lo += a
            hi = None if (hi is None or b is None) else hi + b
        return lo, hi
    if k == 'alt':
        ws = [width(c) for c in n[1]]
        return min(w[0] for w in ws), None if any(w[1] is None for w in ws) else max(w[1] for w in ws)
    if k == 'rep':
        a, b = width(n[3])
        hi = None if (n[2] is None and (b is None or b > 0)) or b is None else (0 if b == 0 else b * n[2])
        return a * n[1], hi
    if k == 'cap':
        return width(n[2])
    raise AnalysisError(f'width: {k}')


def consumes(n: Any) -> tuple:
    """Union of the character sets of all consuming atoms outside assertions."""
    out: tuple = ()
    for s in subnodes(n, into_look=False):
        if s[0] == 'lit':
            out = cs_union(out, s[1])
    return out


def capture_groups(n: Any) -> int:
    return sum(1 for s in subnodes(n) if s[0] == 'cap')


def anchors(n: Any) -> list[tuple[str, bool]]:
    """[(kind, inside_assertion)] for every anchor."""
    out: list[tuple[str, bool]] = []

    def go(x: Any, inside: bool) -> None:
        k = x[0]
        if k in ('bol', 'eol', 'eos'):
            out.append((k, inside))
        elif k in ('seq', 'alt'):
            for c in x[1]:
                go(c, inside)
        elif k == 'rep':
            go(x[3], inside)
        elif k == 'cap':
            go(x[2], inside)
        elif k == 'look':
            go(x[3], True)
    go(n, False)
    return out


def strip_caps(n: Any) -> Any:
    k = n[0]
    if k == 'cap':
        return strip_caps(n[2])
    if k == 'seq':
        return seq(strip_caps(c) for c in n[1])
    if k == 'alt':
        return alt(strip_caps(c) for c in n[1])
    if k == 'rep':
        return rep(n[1], n[2], strip_caps(n[3]))
    if k == 'look':
        return ('look', n[1], n[2], strip_caps(n[3]))
    return n


def show(n: Any, universe: int = MAXCP) -> str:
    k = n[0]
    if k == 'lit':
        return cs_show(n[1], universe)
    if k == 'sym':
        return '<' + n[1] + '>'
    if k == 'eps':
        return ''
    if k == 'seq':
        return ''.join(show(c, universe) for c in n[1])
    if k == 'alt':
        return '(?:' + '|'.join(show(c, universe) for c in n[1]) + ')'
    if k == 'rep':
        q = {(0, None): '*', (1, None): '+', (0, 1): '?'}.get((n[1], n[2]), '{%s,%s}' % (n[1], '' if n[2] is None else n[2]))
        return '(?:' + show(n[3], universe) + ')' + q
    if k == 'cap':
        return '(' + show(n[2], universe) + ')'
    if k == 'look':
        return '(?' + ('<' if n[2] else '') + ('!' if n[1] else '=') + show(n[3], universe) + ')'
    return {'bol': '^', 'eol': '$', 'eos': '\\Z'}.get(k, str(n))


# ---------------------------------------------------------------------------------------------- equivalence
# Formulas over threads, evaluated at "the current position" of a marked word  v > x :
#   ('T',) ('F',) ('and', frozenset) ('or', frozenset) ('not', f)
#   ('main', r, at_start)   r must consume exactly up to the marker
#   ('look', r)             r matches a prefix of what remains (marker transparent)
#   ('atend',)              nothing remains
T = ('T',)
F = ('F',)
MARK = 'MARK'


def f_and(items: Iterable[Any]) -> Any:
    s = set()
    for it in items:
        if it == F:
            return F
        if it == T:
            continue
        if it[0] == 'and':
            s |= it[1]
        else:
            s.add(it)
    for x in s:
        if ('not', x) in s:
            return F
    if not s:
        return T
    if len(s) == 1:
        return next(iter(s))
    return ('and', frozenset(s))


def f_or(items: Iterable[Any]) -> Any:
    s = set()
    for it in items:
        if it == T:
            return T
        if it == F:
            continue
        if it[0] == 'or':
            s |= it[1]
        else:
            s.add(it)
    for x in s:
        if ('not', x) in s:
            return T
    if not s:
        return F
    if len(s) == 1:
        return next(iter(s))
    return ('or', frozenset(s))


def f_not(f: Any) -> Any:
    if f == T:
        return F
    if f == F:
        return T
    if f[0] == 'not':
        return f[1]
    return ('not', f)


def _prep(n: Any) -> Any:
    """Rewrite `$` as an assertion over `\\Z`; drop captures; reject what the procedure does not support."""
    k = n[0]
    if k == 'eol':
        return ('look', False, False, seq([rep(0, 1, ('lit', ((10, 10),))), ('eos',)]))
    if k == 'cap':
        return _prep(n[2])
    if k == 'seq':
        return seq(_prep(c) for c in n[1])
    if k == 'alt':
        return alt(_prep(c) for c in n[1])
    if k == 'rep':
        return rep(n[1], n[2], _prep(n[3]))
    if k == 'look':
        if n[2]:
            raise AnalysisError('look-behind is not supported by the equivalence procedure')
        return ('look', n[1], False, _prep(n[3]))
    if k in ('ref', 'at'):
        raise AnalysisError(f'{k} is not supported by the equivalence procedure')
    return n


class Equiv:
    """Decide contextual equivalence of two fragments; produce a shortest distinguishing marked word."""

    def __init__(self, a: Any, b: Any, universe: int = MAXCP, max_states: int = 200000) -> None:
        self.a = _prep(a)
        self.b = _prep(b)
        self.universe = universe
        self.max_states = max_states
        # alphabet partition
        cuts = {0, universe + 1}
        syms = set()
        for root in (self.a, self.b):
            for s in subnodes(root):
                if s[0] == 'lit':
                    for lo, hi in s[1]:
                        cuts.add(lo)
                        cuts.add(hi + 1)
                elif s[0] == 'sym':
                    syms.add(s[1])
        cuts.add(10)
        cuts.add(11)
        pts = sorted(c for c in cuts if c <= universe)
        self.letters: list[Any] = list(pts) + sorted(syms)
        self._null_cache: dict = {}
        self._pd_cache: dict = {}
        self._d_cache: dict = {}

    # nullability formula of r at the current position
    def null(self, r: Any, at_start: bool) -> Any:
        key = (r, at_start)
        if key in self._null_cache:
            return self._null_cache[key]
        k = r[0]
        if k in ('lit', 'sym'):
            v = F
        elif k == 'eps':
            v = T
        elif k == 'seq':
            v = f_and(self.null(c, at_start) for c in r[1])
        elif k == 'alt':
            v = f_or(self.null(c, at_start) for c in r[1])
        elif k == 'rep':
            v = T if r[1] == 0 else self.null(r[3], at_start)
        elif k == 'look':
            inner = self.look(r[3], at_start)
            v = f_not(inner) if r[1] else inner
        elif k == 'bol':
            v = T if at_start else F
        elif k == 'eos':
            v = ('atend',)
        else:
            raise AnalysisError(f'null: {k}')
        self._null_cache[key] = v
        return v

    def look(self, r: Any, at_start: bool) -> Any:
        """Formula: r matches a prefix of the remaining input."""
        n = self.null(r, at_start)
        if n == T:
            return T
        if r == FAIL:
            return F
        return ('look', r, at_start)

    def pd(self, r: Any, c: Any, at_start: bool) -> frozenset:
        """Partial derivatives: {(guard formula at old position, residual)}."""
        key = (r, c, at_start)
        if key in self._pd_cache:
            return self._pd_cache[key]
        k = r[0]
        out: set = set()
        if k == 'lit':
            if isinstance(c, int) and cs_contains(r[1], c):
                out.add((T, EPS))
        elif k == 'sym':
            if c == r[1]:
                out.add((T, EPS))
        elif k in ('eps', 'look', 'bol', 'eos'):
            pass
        elif k == 'seq':
            head, tail = r[1][0], seq(r[1][1:])
            for g, h2 in self.pd(head, c, at_start):
                out.add((g, seq([h2, tail])))
            nh = self.null(head, at_start)
            if nh != F:
                for g, t2 in self.pd(tail, c, at_start):
                    out.add((f_and([nh, g]), t2))
        elif k == 'alt':
            for x in r[1]:
                out |= self.pd(x, c, at_start)
        elif k == 'rep':
            lo, hi, body = r[1], r[2], r[3]
            rest = rep(max(lo - 1, 0), None if hi is None else hi - 1, body)
            for g, b2 in self.pd(body, c, at_start):
                out.add((g, seq([b2, rest])))
            # body may match empty (under a guard): earlier iterations can be empty ones -- this only matters for
            # lo >= 2; iterate the guard through the remaining mandatory copies.
            if lo >= 2:
                nb = self.null(body, at_start)
                if nb != F:
                    for g, r2 in self.pd(rest, c, at_start):
                        out.add((f_and([nb, g]), r2))
        else:
            raise AnalysisError(f'pd: {k}')
        res = frozenset(out)
        self._pd_cache[key] = res
        return res

    def deriv(self, f: Any, c: Any) -> Any:
        key = (f, c)
        if key in self._d_cache:
            return self._d_cache[key]
        k = f[0]
        if k in ('T', 'F'):
            v = f
        elif k == 'and':
            v = f_and(self.deriv(x, c) for x in f[1])
        elif k == 'or':
            v = f_or(self.deriv(x, c) for x in f[1])
        elif k == 'not':
            v = f_not(self.deriv(f[1], c))
        elif k == 'atend':
            v = f if c == MARK else F
        elif k == 'main':
            r, st = f[1], f[2]
            if c == MARK:
                v = self.null(r, st)
            else:
                v = f_or(f_and([self.deriv(g, c), ('main', r2, False)]) for g, r2 in self.pd(r, c, st))
        elif k == 'look':
            r, st = f[1], f[2]
            if c == MARK:
                v = f
            else:
                # "r matches a prefix" = r is nullable here (which may depend on what follows) or consumes c
                v = f_or([self.deriv(self.null(r, st), c)] +
                         [f_and([self.deriv(g, c), self.look(r2, False)]) for g, r2 in self.pd(r, c, st)])
        else:
            raise AnalysisError(f'deriv: {k}')
        self._d_cache[key] = v
        return v

    def at_end(self, f: Any) -> bool:
        k = f[0]
        if k == 'T':
            return True
        if k == 'F':
            return False
        if k == 'and':
            return all(self.at_end(x) for x in f[1])
        if k == 'or':
            return any(self.at_end(x) for x in f[1])
        if k == 'not':
            return not self.at_end(f[1])
        if k == 'atend':
            return True
        if k == 'main':
            return False
        if k == 'look':
            return self._null_end(f[1], f[2])
        raise AnalysisError(f'at_end: {k}')

    def _null_end(self, r: Any, at_start: bool) -> bool:
        return self.at_end(self.null(r, at_start))

    def run(self) -> tuple[bool, Any, int]:
        """Return (equivalent, witness, states). Witness = (at_start, word letters, accepts_a, accepts_b)."""
        from collections import deque
        states = 0
        for at_start in (True, False):
            start = (('main', self.a, at_start), ('main', self.b, at_start), False)
            seen = {start}
            q = deque([(start, ())])
            while q:
                (fa, fb, marked), word = q.popleft()
                states += 1
                if states > self.max_states:
                    raise AnalysisError('equivalence search exceeded its state budget')
                if marked:
                    ea, eb = self.at_end(fa), self.at_end(fb)
                    if ea != eb:
                        return False, (at_start, word, ea, eb), states
                letters = self.letters if marked else self.letters + [MARK]
                for c in letters:
                    na, nb = self.deriv(fa, c), self.deriv(fb, c)
                    if not marked and c != MARK:
                        # `^` no longer holds after the first consumed letter: handled by ('main', r, False)
                        pass
                    st = (na, nb, marked or c == MARK)
                    if na == nb:
                        continue
                    if st not in seen:
                        seen.add(st)
                        q.append((st, word + (c,)))
        return True, None, states


def unslot(s: str) -> str:
    return s.replace(SLOT0, '<X0>').replace(SLOT1, '<X1>').replace(SLOT2, '<X2>')


def word_show(w: tuple) -> str:
    at_start, letters, ea, eb = w
    out = ['^<' if at_start else '...<']
    for c in letters:
        if c == MARK:
            out.append('>')
        elif isinstance(c, int):
            ch = chr(c)
            out.append(ch if ch.isprintable() and ch != ' ' else f'\\x{c:02x}')
        else:
            out.append('{' + c + '}')
    return ''.join(out) + f'  (fragment {"accepts" if ea else "rejects"}, reference {"accepts" if eb else "rejects"})'


def equivalent(a: Any, b: Any, universe: int = MAXCP) -> tuple[bool, str, int]:
    lim = sys.getrecursionlimit()
    sys.setrecursionlimit(max(lim, 20000))
    try:
        ok, w, states = Equiv(a, b, universe).run()
    finally:
        sys.setrecursionlimit(lim)
    return ok, ('' if ok else word_show(w)), states
