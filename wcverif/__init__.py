"""Static-analysis checkers for the wcmatch properties (see /verif/DESIGN.md)."""
