"""_Match.match / _Match._match_real / Glob._match_excluded: include-exclude evaluation, on decision tables.

A search loop (`for p in ps: if f(p): flag = K; break`) and its `any(...)` spelling evaluate to the same atom
`any(comp(<f(elem)> for <ps>))`, so the tables do not depend on which spelling the code uses.
"""
from __future__ import annotations

from typing import Any

from ..model import AnalysisError, Repo
from ..report import Ctx
from ..symeval import Opaque, Path, _tag, focus
from .common import api_table, as_bool, cached

M = '_wcmatch'


def object_states(repo: Repo) -> list[tuple[dict[str, Any], dict[str, bool]]]:
    """States a _Match object can be in after __init__, as (attribute values, facts about the fields): the str / bytes index
    `ptype` goes with the type of the file name.  Methods are tabulated once per state."""
    def build() -> list:
        _ev, paths = api_table(repo, M, '_Match.__init__')
        out = []
        for p in paths:
            isb = [v for k, v in p.decisions.items() if k.startswith('isinstance(') and k.endswith(', bytes)')]
            if len(isb) != 1 or 'ptype' not in p.attrs or not isinstance(p.attrs['ptype'], int):
                raise AnalysisError('_Match.__init__: ptype is not decided by one bytes test of the file name')
            if p.attrs.get('filename') != Opaque('filename'):
                raise AnalysisError('_Match.__init__: self.filename is not the filename argument')
            out.append(({'ptype': p.attrs['ptype']}, {'isinstance(self.filename, bytes)': isb[0]}))
        if sorted(s[1]['isinstance(self.filename, bytes)'] for s in out) != [False, True]:
            raise AnalysisError('_Match.__init__: expected one str and one bytes state')
        return out
    return cached(repo, 'matchrules:states', build)


def table(repo: Repo, qn: str) -> list[Path]:
    def build() -> list[Path]:
        paths: list[Path] = []
        for attrs, facts in object_states(repo):
            _ev, ps = api_table(repo, M, qn, max_paths=20000, attrs=attrs, preset=facts)
            paths += ps
        return paths
    return cached(repo, f'matchrules:{qn}', build)


def search(p: Path, source: str, ret: Any = None) -> tuple[str, Any] | None:
    """(atom, decided value or None) of the search over self.<source> on this path -- decided, or returned undecided."""
    hits = any_atoms(p, source)
    if hits:
        return hits[0] if len(hits) == 1 else ('<several>', None)
    if isinstance(ret, Opaque) and ret.tag.startswith('any(comp(') and ret.tag.endswith(f' for self.{source}))'):
        return (ret.tag, None)
    return None


def any_atoms(p: Path, source: str) -> list[tuple[str, bool]]:
    """Decided atoms `any(comp(<application of an element of self.<source>> for self.<source>))`."""
    out = []
    for k, v in p.decisions.items():
        if k.startswith('any(comp(') and k.endswith(f' for self.{source}))') and f'elem(self.{source})' in k:
            out.append((k, v))
    return out


def element_application(atom: str, source: str) -> str:
    return atom[len('any(comp('):-len(f' for self.{source}))')]


def rule_evaluation_shape(ctx: Ctx, rule: str) -> None:
    ctx.text(rule, 'evaluation shape (decision tables of _Match.match and _Match._match_real): the result is True exactly when some '
                   'inclusion pattern applies and (there are no exclusions or) no exclusion pattern applies; exclusions are consulted '
                   'only after an inclusion applied; a search loop and any(...) are the same thing to this rule')
    repo = ctx.repo
    for qn in ('_Match.match', '_Match._match_real'):
        fi = repo.func(M, qn)
        site = repo.loc(M, fi.node)
        bad_t, bad_o = [], []
        n = 0
        for p in table(repo, qn):
            if p.raised:
                continue
            inc, exc = any_atoms(p, 'include'), any_atoms(p, 'exclude')
            if not inc and not exc:
                continue  # paths that answer before matching (REALPATH: missing file, hand-over to _match_real)
            n += 1
            if len(inc) != 1 or len(exc) > 1:
                bad_t.append(f'{len(inc)} inclusion / {len(exc)} exclusion searches on one path')
                continue
            i = inc[0][1]
            has_ex = p.decisions.get('self.exclude')
            e = exc[0][1] if exc else None
            if exc and (i is not True or has_ex is False):
                bad_o.append('exclusions consulted although no inclusion applied')
            want = i and not (bool(exc) and e)
            if i and not exc and has_ex is not False:
                bad_o.append(f'inclusion applied, self.exclude={has_ex}, but the exclusions were not consulted')
            if as_bool(p, p.ret) is not want:
                bad_t.append(f'include={i} exclude={e}: returns {p.ret!r}')
        if n < 4:
            raise AnalysisError(f'{rule}: {qn}: only {n} matching rows')
        ctx.count(f'{rule}:rows {qn}', n)
        ctx.ob(rule, f'{M}:{qn}/table', not bad_t, site, 'result = some inclusion applies ∧ ¬(some exclusion applies)', f'{n} rows agree' if not bad_t else sorted(set(bad_t))[0],
               witness="a name matches iff some inclusion pattern and no exclusion pattern matches")
        ctx.ob(rule, f'{M}:{qn}/exclude-only-if-matched', not bad_o, site, 'exclusions are consulted exactly when an inclusion applied and there are exclusions',
               'as expected' if not bad_o else sorted(set(bad_o))[0], witness="exclusions alone match nothing")
    from .common import api_table as _at
    wm = repo.func(M, 'WcRegexp.match')
    _ev, paths = _at(repo, M, 'WcRegexp.match')
    ok = any(p.decisions.get('filename') is False for p in paths) and all(p.ret is False and not p.of('call') for p in paths if p.decisions.get('filename') is False)
    ctx.ob(rule, f'{M}:WcRegexp.match/empty-name', ok, repo.loc(M, wm.node), 'a falsy file name returns False before anything else', str(ok), witness="fnmatch('', '*') is False")


def rule_application_mode(ctx: Ctx, rule: str, which: set[str] | None = None) -> None:
    """How a compiled pattern is applied to a name in the matcher classes (C01: whole-name match; C04: follow rule)."""
    repo = ctx.repo

    def emit(key: str, ok: bool, site: str, expect: str, got: str, witness: str = '') -> None:
        if which is None or key.rsplit('/', 1)[1] in which:
            ctx.ob(rule, key, ok, site, expect, got, witness=witness)
    # non-real matching: element.fullmatch(self.filename)
    fi = repo.func(M, '_Match.match')
    bad = []
    n = 0
    for p in table(repo, '_Match.match'):
        for src in ('include', 'exclude'):
            for atom, _v in any_atoms(p, src):
                app = element_application(atom, src)
                if app.startswith(f'{M}:_Match.'):
                    continue
                n += 1
                if app != f'elem(self.{src}).fullmatch(self.filename)':
                    bad.append(app[:90])
    emit(f'{M}:_Match.match/fullmatch', not bad and n >= 2, repo.loc(M, fi.node), 'every pattern is applied as p.fullmatch(self.filename)',
         f'{n} applications agree' if not bad else sorted(set(bad))[0], "fnmatch('ab', 'a') must be False: patterns match whole names")
    # real matching: _fs_match(elem, F, is_win, follow, symlinks, root, dir_fd)
    fi = repo.func(M, '_Match._match_real')
    fs = repo.func(M, '_Match._fs_match')
    params = [x for x in fs.params() if x != 'self']
    bad_f, bad_a = [], []
    n = 0
    for p in table(repo, '_Match._match_real'):
        focus(p)
        for src in ('include', 'exclude'):
            for atom, _v in any_atoms(p, src):
                n += 1
                app = element_application(atom, src)
                ev = [e for e in p.of('call') if e[1] == f'{M}:_Match._fs_match' and e[2] and e[2][0] == Opaque(f'elem(self.{src})')]
                if len(ev) != 1:
                    bad_a.append(f'{src}: {len(ev)} _fs_match applications')
                    continue
                b = dict(zip(params, ev[0][2]))
                b.update(ev[0][3])
                follow = b.get('follow')
                if (src == 'include' and follow != Opaque('self.follow')) or (src == 'exclude' and follow is not True):
                    bad_f.append(f'{src} patterns applied with follow={follow!r}')
                for k, want in (('symlinks', Opaque('symlinks')), ('root', Opaque('root')), ('dir_fd', Opaque('dir_fd'))):
                    if b.get(k) != want:
                        bad_a.append(f'{src}: {k}={b.get(k)!r}')
                inc_ev = [e for e in p.of('call') if e[1] == f'{M}:_Match._fs_match']
                if len({_tag(e[2][1]) for e in inc_ev if len(e[2]) > 1}) > 1 or len({_tag(e[2][2]) for e in inc_ev if len(e[2]) > 2}) > 1:
                    bad_a.append('inclusions and exclusions are applied to different names / platforms')
    emit(f'{M}:_Match._match_real/follow-rule', not bad_f and n >= 4, repo.loc(M, fi.node),
         'inclusions: _fs_match(..., follow=self.follow, ...); exclusions: follow forced True', f'{n} applications agree' if not bad_f else sorted(set(bad_f))[0],
         "globmatch('link/x', '**', G, REALPATH, exclude='**/x') must exclude through the symlink")
    emit(f'{M}:_Match._match_real/application', not bad_a and n >= 4, repo.loc(M, fi.node),
         '_fs_match(pattern, <same name>, <same platform>, follow, symlinks, root, dir_fd) for inclusions and exclusions alike',
         f'{n} applications agree' if not bad_a else sorted(set(bad_a))[0])


def rule_dir_slash_real(ctx: Ctx, rule: str) -> None:
    """_match_real: the name gets a trailing separator exactly when it names a directory and has none."""
    repo = ctx.repo
    fi = repo.func(M, '_Match._match_real')
    bad = []
    n = 0
    for p in table(repo, '_Match._match_real'):
        focus(p)
        evs = [e for e in p.of('call') if e[1] == f'{M}:_Match._fs_match' and len(e[2]) > 1]
        if not evs:
            continue
        n += 1
        name = _tag(evs[0][2][1])
        has_sep = [v for k, v in p.decisions.items() if k.endswith(' is not None') and '.match(self.filename[-1:])' in k]
        is_dir = [v for k, v in p.decisions.items() if k.startswith('os.path.isdir(os.path.join(root, self.filename))') or k.startswith('stat.S_ISDIR(')]
        isb = p.decisions.get('isinstance(self.filename, bytes)')
        if len(has_sep) != 1 or len(is_dir) > 1 or isb is None:
            bad.append(f'trailing-separator test {has_sep}, directory test {is_dir}, bytes {isb}')
            continue
        d = is_dir[0] if is_dir else False  # no decision: the stat failed and is_file_dir was set False
        want_suffix = (not has_sep[0]) and d
        plain = name in ('self.filename', '{self.filename}')
        suffixed = name in (("(self.filename+b'/')", "{self.filename}+{b'/'}") if isb else ('{self.filename}+/', "(self.filename+'/')"))
        if want_suffix != suffixed or (not want_suffix and not plain):
            bad.append(f'has-separator={has_sep[0]} is-directory={d}: matches against {name[:60]}')
    if n < 8:
        raise AnalysisError(f'{rule}: _match_real: only {n} rows reach the matching step')
    ctx.ob(rule, f'{M}:_Match._match_real/dir-slash', not bad, repo.loc(M, fi.node),
           'name + `/` iff the file is a directory and the name does not already end in a separator; the bare name otherwise',
           f'{n} rows agree' if not bad else sorted(set(bad))[0][:200], witness="globmatch('dir', '*/', REALPATH) is True for a directory named dir")


def rule_match_excluded(ctx: Ctx, rule: str, which: set[str] | None = None) -> None:
    """Glob._match_excluded(filename, is_dir): separator appended for directories, then some exclusion fullmatches."""
    from .common import tabulate_method
    repo = ctx.repo
    fi = repo.func('glob', 'Glob._match_excluded')
    _ev, paths = tabulate_method(repo, 'glob', 'Glob._match_excluded', {}, [Opaque('filename'), Opaque('is_dir')], inline=False)
    bad_s, bad_t = [], []
    for p in paths:
        focus(p)
        d = p.decisions.get('is_dir')
        ends = p.decisions.get('filename.endswith(self.sep)')
        anys = [(k, v) for k, v in p.decisions.items() if k.startswith('any(comp(') and k.endswith(' for self.npatterns))')]
        if not anys and isinstance(p.ret, Opaque) and p.ret.tag.startswith('any(comp(') and p.ret.tag.endswith(' for self.npatterns))'):
            anys = [(p.ret.tag, p.ret)]  # the search itself is the result
        if len(anys) != 1:
            bad_t.append(f'{len(anys)} searches over self.npatterns')
            continue
        app = anys[0][0][len('any(comp('):-len(' for self.npatterns))')]
        want_suffix = bool(d) and ends is False
        if d and ends is None:
            bad_s.append('directory: trailing separator not examined')
        if want_suffix:
            oks = app in ('elem(self.npatterns).fullmatch({filename}+{self.sep})', 'elem(self.npatterns).fullmatch((filename+self.sep))')
        else:
            oks = app == 'elem(self.npatterns).fullmatch(filename)'
        if not oks:
            bad_s.append(f'is_dir={d} ends-with-sep={ends}: applies {app[:80]}')
        if as_bool(p, p.ret) is not anys[0][1] and p.ret != anys[0][1]:
            bad_t.append(f'search={anys[0][1]}: returns {p.ret!r}')

    def emit(key: str, ok: bool, expect: str, got: str, witness: str = '') -> None:
        if which is None or key in which:
            ctx.ob(rule, f'glob:Glob._match_excluded/{key}', ok, repo.loc('glob', fi.node), expect, got, witness=witness)
    emit('dir-slash', not bad_s and len(paths) >= 3, 'a directory name without trailing separator gets one before the exclusions are applied (fullmatch)',
         f'{len(paths)} rows agree' if not bad_s else sorted(set(bad_s))[0][:200], "glob('*', exclude='d/') must drop the directory d")
    emit('table', not bad_t and len(paths) >= 3, 'excluded iff some exclusion pattern fullmatches', f'{len(paths)} rows agree' if not bad_t else sorted(set(bad_t))[0][:200],
         "glob('*', exclude='a') must drop exactly a")
