"""C02: separators, segments, globstar, MATCHBASE (rules R2..R8; R1 is in frag.py)."""
from __future__ import annotations

import ast
from typing import Any

from .. import rx
from ..model import AnalysisError, norm_src, walk_no_nested
from ..pathq import fq
from ..report import Ctx
from ..symeval import BV, Obj, Opaque, SymEval, Tok, atom_pretty, tok
from ..tables import compare_table
from .common import enclosing_map, wcparse_init_paths, wcparse_variants
from .frag import check_text

WP = '_wcparse'


def _is_call_to(node: ast.AST, text: str) -> bool:
    return isinstance(node, ast.Call) and norm_src(node.func) == text


# ------------------------------------------------------------------------------------------------ R2
def rule_separator_consumers(ctx: Ctx, rule: str) -> None:
    ctx.text(rule, 'who may consume a separator in path mode: every reference to the any-string constant _STAR is '
                   'control-dependent on `self.pathname` being false; every emission of _QMARK and the path-mode return '
                   'of WcParse._sequence is prefixed by self._restrict_sequence(); _restrict_sequence / '
                   '_restrict_extended_slash end in the separator guard whenever pathname; re.escape(c) emissions are '
                   'reached only after the `/` and `\\` tests of the same dispatch chain failed')
    repo = ctx.repo
    cls = repo.cls(WP, 'WcParse')
    n_star = n_q = 0
    for fi in cls.methods.values():
        q = fq(fi)
        for nm in q.stmts(lambda n: isinstance(n, ast.Name) and n.id == '_STAR'):
            n_star += 1
            ok = q.guarded(nm, 'self.pathname', 'F')
            ctx.ob(rule, f'{WP}:{fi.qualname}/_STAR@{n_star}', ok, repo.loc(WP, nm),
                   'reference to _STAR only where self.pathname is false',
                   'guarded by not pathname' if ok else f'guards: {sorted(q.guards(nm))}',
                   witness="with `.*?` in path mode, globmatch('a/b/c', 'a/*') is True")
        for nm in q.stmts(lambda n: isinstance(n, ast.Name) and n.id == '_QMARK'):
            n_q += 1
            par = enclosing_map(fi.node).get(id(nm))
            ok = isinstance(par, ast.BinOp) and isinstance(par.op, ast.Add) and par.right is nm and \
                _is_call_to(par.left, 'self._restrict_sequence')
            ctx.ob(rule, f'{WP}:{fi.qualname}/_QMARK@{n_q}', ok, repo.loc(WP, nm),
                   'self._restrict_sequence() + _QMARK', norm_src(par) if par is not None else '?',
                   witness="globmatch('a/b', 'a?b') must be False")
    ctx.floor(rule, '_STAR references', n_star, 4)
    ctx.floor(rule, '_QMARK emissions', n_q, 2)
    # _sequence returns
    from . import seqrules
    seqrules.rule_sequence_epilogue(ctx, rule, which={'return'})
    # decision tables of the two guard selectors
    _restrict_tables(ctx, rule)
    # re.escape emissions after separator tests
    n_esc = 0
    for qn in ('WcParse.root', 'WcParse.parse_extend', 'WcParse._references'):
        fi = repo.func(WP, qn)
        q = fq(fi)
        for c in q.calls(lambda s: s == 're.escape'):
            if not c.args or not isinstance(c.args[0], ast.Name):
                continue
            var = c.args[0].id
            g = q.guards(c)
            # what the guards say about the character: the constants it is known to be / known not to be
            # (`c == K`, `c in (K1, K2)` and their negations; the polarity of the CFG edge is applied)
            is_one_of: list[set] = []
            is_none_of: set = set()
            for t, pol in g:
                try:
                    e = ast.parse(t, mode='eval').body
                except SyntaxError:
                    continue
                if not (isinstance(e, ast.Compare) and len(e.ops) == 1 and isinstance(e.left, ast.Name) and e.left.id == var):
                    continue
                rhs = e.comparators[0]
                if isinstance(e.ops[0], (ast.Eq, ast.NotEq)) and isinstance(rhs, ast.Constant):
                    ks, neg = {rhs.value}, isinstance(e.ops[0], ast.NotEq)
                elif isinstance(e.ops[0], (ast.In, ast.NotIn)) and isinstance(rhs, (ast.Tuple, ast.Set, ast.List)) and \
                        all(isinstance(x, ast.Constant) for x in rhs.elts):
                    ks, neg = {x.value for x in rhs.elts}, isinstance(e.ops[0], ast.NotIn)
                else:
                    continue
                if (pol == 'T') != neg:
                    is_one_of.append(ks)
                else:
                    is_none_of |= ks
            ok = any(not (ks & {'/', '\\'}) for ks in is_one_of) or {'/', '\\'} <= is_none_of
            n_esc += 1
            ctx.ob(rule, f'{WP}:{qn}/re.escape({var})@{n_esc}', ok, repo.loc(WP, c),
                   f"reached only when {var} is neither '/' nor '\\\\'",
                   'after both separator tests' if ok else f'guards {sorted(g)}',
                   witness="globmatch('a/b', 'a/b') must go through the separator arm (runs of `/`, matchbase reset)")
    ctx.floor(rule, 're.escape emissions', n_esc, 4)


def _restrict_tables(ctx: Ctx, rule: str) -> None:
    repo = ctx.repo
    attrs = {'pathname': Opaque('P'), 'after_start': Opaque('S'), 'dot': Opaque('D'), 'dir_start': Opaque('dir_start'),
             'seq_path': tok('seq_path'), 'seq_path_dot': tok('seq_path_dot'), 'no_dir': tok('no_dir')}
    env = repo.mod(WP).env
    nodot = env.get('_NO_DOT')

    def oracle(g: Any) -> Any:
        if g('P'):
            if g('S'):
                return ('no_dir', 'seq_path') if g('D') else ('no_dir', 'seq_path_dot')
            return ('seq_path',)
        if g('S') and not g('D'):
            return (nodot,)
        return ()

    fi = repo.func(WP, 'WcParse._restrict_sequence')
    ev = SymEval(repo)
    paths = ev.tabulate(fi, {}, Obj((WP, 'WcParse'), dict(attrs)))

    def proj(p: Any) -> Any:
        r = p.ret
        return r.parts if isinstance(r, Tok) else ((r,) if r else ())
    ok, why, rows = compare_table(paths, ev.bitnames, oracle, proj, {'P', 'S', 'D'}, where='_restrict_sequence')
    ctx.count('decision_table_rows', rows)
    ctx.ob(rule, f'{WP}:WcParse._restrict_sequence/table', ok, repo.loc(WP, fi.node),
           'P∧S∧¬D: no_dir+seq_path_dot; P∧S∧D: no_dir+seq_path; P∧¬S: seq_path; ¬P∧S∧¬D: _NO_DOT; else empty',
           f'{rows} rows agree' if ok else why, witness="globmatch('.a', '?a') / globmatch('a/b', 'a?b') must be False")
    # exit state: START is left (dir tracking reset) on every path
    st_ok = all(p.attrs.get('after_start') is False and p.attrs.get('dir_start') is False for p in paths)
    ctx.ob(rule, f'{WP}:WcParse._restrict_sequence/exit-state', st_ok, repo.loc(WP, fi.node),
           'after_start = dir_start = False on every path', 'ok' if st_ok else 'state not reset')
    fi2 = repo.func(WP, 'WcParse._restrict_extended_slash')
    paths2 = ev.tabulate(fi2, {}, Obj((WP, 'WcParse'), dict(attrs)))
    ok2, why2, rows2 = compare_table(paths2, ev.bitnames, lambda g: ('seq_path',) if g('P') else (), proj, {'P'},
                                     where='_restrict_extended_slash')
    ctx.count('decision_table_rows', rows2)
    ctx.ob(rule, f'{WP}:WcParse._restrict_extended_slash/table', ok2, repo.loc(WP, fi2.node),
           'seq_path iff pathname', f'{rows2} rows agree' if ok2 else why2,
           witness="globmatch('a/b', '@(a/b)', EXTGLOB) must be False: extglob never crosses `/`")


# ------------------------------------------------------------------------------------------------ R3
def _sep_emissions(fi: Any) -> tuple[list[ast.BinOp], list[ast.AST]]:
    """(top-level `self.sep + _ONE_OR_MORE` nodes, bare `self.sep` emission nodes)."""
    tops = []
    bare = []
    par = enclosing_map(fi.node)
    for n in walk_no_nested(fi.node):
        if isinstance(n, ast.Attribute) and norm_src(n) == 'self.sep':
            p = par.get(id(n))
            if isinstance(p, ast.BinOp) and isinstance(p.op, ast.Add) and p.left is n and \
                    isinstance(p.right, ast.Name) and p.right.id == '_ONE_OR_MORE':
                tops.append(p)
            elif isinstance(p, ast.Call) and isinstance(p.func, ast.Attribute) and p.func.attr == 'format':
                continue
            else:
                bare.append(n)
    return tops, bare


def rule_separator_pairing(ctx: Ctx, rule: str) -> None:
    ctx.text(rule, 'a top-level separator emission (`self.sep + _ONE_OR_MORE`) is paired on the same path with '
                   'set_start_dir() (next token is a segment start); in WcParse.root it is preceded by '
                   'clean_up_inverse(current) and followed by consume_path_sep(i) and `self.matchbase = False`; a bare '
                   'separator is emitted only outside path mode or directly behind _restrict_extended_slash()')
    repo = ctx.repo
    n_top = n_bare = 0
    for qn in ('WcParse.parse_extend', 'WcParse._handle_star'):  # _references: its table (C02-R9); root: its token table (below)
        fi = repo.func(WP, qn)
        q = fq(fi)
        tops, bare = _sep_emissions(fi)
        for t in tops:
            n_top += 1
            key = f'{WP}:{qn}/sep-run@{n_top}'
            site = repo.loc(WP, t)
            if qn == 'WcParse._references':
                ssd = q.nodes_of_calls(lambda s: s == 'self.set_start_dir')
                ok = q.every_path_from_passes(t, ssd)
                notin = q.guarded(t, 'self.in_list', 'F')
                ctx.ob(rule, key, ok and notin, site, 'followed by self.set_start_dir() on every path; only outside a list',
                       f'set_start_dir follows={ok}, not-in-list={notin}',
                       witness=r"FORCEWIN: globmatch('a\\.b', 'a\\\\*') must be False -- the segment after `\\` starts hidden")
            elif qn == 'WcParse.root':
                g = q.guards(t)
                if any(txt.startswith('slash') or txt == 'drive is not None' for txt, pol in g if pol == 'T'):
                    cps = q.nodes_of_calls(lambda s: s == 'self.consume_path_sep')
                    ok = q.every_path_from_passes(t, cps)
                    ctx.ob(rule, key + '/drive', ok, site, 'followed by consume_path_sep(i)', str(ok))
                    continue
                ssd = q.nodes_of_calls(lambda s: s == 'self.set_start_dir')
                cui = q.nodes_of_calls(lambda s: s == 'self.clean_up_inverse')
                cps = q.nodes_of_calls(lambda s: s == 'self.consume_path_sep')
                mb = {q.node_of(a) for a in q.stmts(lambda n: isinstance(n, ast.Assign) and
                                                    norm_src(n) == 'self.matchbase = False')}
                tnode = q.node_of(t)
                arm_guard = [txt for txt, pol in g if pol == 'T' and txt.startswith('c == ')]
                same_arm = lambda nid: all((txt, 'T') in q.guards(nid) for txt in arm_guard)  # noqa: E731
                before_ssd = any(q.cfg.dominates(d, tnode) and same_arm(d) for d in ssd)
                before_cui = any(q.cfg.dominates(d, tnode) and same_arm(d) for d in cui)
                loop_heads = {n.id for n in q.cfg.nodes if n.kind == 'for'}
                after_cps = q.every_path_from_passes(t, cps, until=loop_heads | {q.cfg.exit.id})
                after_mb = q.every_path_from_passes(t, mb, until=loop_heads | {q.cfg.exit.id})
                ok = before_ssd and before_cui and after_cps and after_mb
                ctx.ob(rule, key, ok, site,
                       'set_start_dir() and clean_up_inverse(current) before, consume_path_sep(i) and matchbase=False after',
                       f'set_start_dir={before_ssd} clean_up_inverse={before_cui} consume_path_sep={after_cps} matchbase_reset={after_mb}',
                       witness="globmatch('a//b', 'a//b') / globmatch('a/.b', 'a/*') / MATCHBASE 'a/b' on 'x/a/b'")
            else:
                ctx.ob(rule, key, False, site, 'no top-level separator emission in this function', norm_src(t))
        for b in bare:
            n_bare += 1
            key = f'{WP}:{qn}/sep@{n_bare}'
            site = repo.loc(WP, b)
            par = enclosing_map(fi.node)
            p = par.get(id(b))
            g = q.guards(b)
            nonpath = ('self.pathname', 'F') in g or ('self.bslash_abort', 'F') in g
            restricted = isinstance(p, ast.BinOp) and _is_call_to(p.left, 'self._restrict_extended_slash') and p.right is b
            if not restricted and isinstance(p, ast.Call) and norm_src(p.func).endswith('.append'):
                # previous statement in the same block: `if self.pathname: X.append(self._restrict_extended_slash())`
                stmt = par.get(id(p))
                blk = par.get(id(stmt))
                body = None
                for fld in ('body', 'orelse'):
                    if blk is not None and isinstance(getattr(blk, fld, None), list) and stmt in getattr(blk, fld):
                        body = getattr(blk, fld)
                if body is not None:
                    i = body.index(stmt)
                    if i > 0 and isinstance(body[i - 1], ast.If) and norm_src(body[i - 1].test) == 'self.pathname':
                        restricted = any(_is_call_to(x, 'self._restrict_extended_slash') for x in ast.walk(body[i - 1]))
            ok = nonpath or restricted
            ctx.ob(rule, key, ok, site, 'outside path mode, or directly behind _restrict_extended_slash()',
                   'non-path branch' if nonpath else ('restricted' if restricted else f'{norm_src(p)}; guards {sorted(g)}'),
                   witness="globmatch('a/b', '@(a/b)', EXTGLOB) must be False")
    ctx.count(f'{rule}:separator emissions outside root/_references', n_top + n_bare)
    from . import seqrules
    seqrules.rule_root_loop(ctx, rule)


# ------------------------------------------------------------------------------------------------ R4
def rule_bracket_abort(ctx: Ctx, rule: str) -> None:
    ctx.text(rule, 'a bracket expression is abandoned at a separator in path mode (decision tables of one scan-loop iteration of the '
                   'three _sequence methods, exception handlers explored): `/` raises StopIteration when pathname (always in the glob '
                   'splitter); an escape is handed to _references(i, True), whose table (C02-R9) raises PathNameException on `\\/` and '
                   '`\\\\`; every _sequence converts PathNameException into StopIteration')
    from . import seqrules
    seqrules.rule_scan_loops(ctx, rule, which={'abort-on-slash', 'escape-in-bracket', 'pathname-exception-converted'})


def bit_attr_table(ev: SymEval, paths: list, name: str, oracle: Any) -> tuple[bool, str, int]:
    """Compare attribute `name` (bool, or a lazily carried single flag bit) with a boolean oracle over flag atoms."""
    from ..tables import oracle_values, pretty_assign
    rows = 0
    for p in paths:
        val = pretty_assign(p, ev.bitnames)
        v = p.attrs.get(name)
        rows += 1
        if isinstance(v, Opaque) and v.tag.startswith('bit:flags:'):
            atom = 'flags&' + ev.bitname(int(v.tag.rsplit(':', 1)[1], 16))
            for b in (False, True):
                if atom in val and val[atom] != b:
                    continue
                exp = [bool(x) for x in oracle_values(oracle, {**val, atom: b})]
                if exp != [b]:
                    return False, f'row {val}: attribute is bit {atom}, specification gives {exp} for {atom}={b}', rows
        elif isinstance(v, bool):
            exp = [bool(x) for x in oracle_values(oracle, val)]
            if exp != [v]:
                return False, f'row {val}: computed {v}, specification {exp}', rows
        else:
            return False, f'row {val}: attribute value {v!r} is not a boolean function of the flags', rows
    return True, '', rows


# ------------------------------------------------------------------------------------------------ R5
def rule_globstar_predicate(ctx: Ctx, rule: str) -> None:
    ctx.text(rule, 'WcParse.__init__: globstarlong = PATHNAME∧GLOBSTARLONG, globstar = PATHNAME∧(GLOBSTARLONG∨GLOBSTAR), '
                   'realpath = REALPATH∧PATHNAME; in _handle_star the globstar arm is entered only under after_start ∧ '
                   'globstar ∧ ¬in_list and `value = globstar` is assigned only where the next character is a separator, an '
                   'escaped separator or the end; _GlobSplit recognises `**`/`***` only as whole parts under the same flags')
    repo = ctx.repo
    paths = wcparse_init_paths(repo)
    ev = SymEval(repo)
    fn = repo.func(WP, 'WcParse.__init__')
    site = repo.loc(WP, fn.node)

    def attr_table(name: str, oracle: Any, tpaths: Any = None, where: str = f'{WP}:WcParse.__init__', loc: str = site) -> None:
        ok, why, rows = bit_attr_table(ev, tpaths if tpaths is not None else paths, name, oracle)
        ctx.count('decision_table_rows', rows)
        ctx.ob(rule, f'{where}/self.{name}', ok, loc, f'documented predicate for {name}',
               f'{rows} rows agree' if ok else why, witness='GLOBSTAR without PATHNAME must not create `**` semantics')

    P, G, GL = 'flags&PATHNAME', 'flags&GLOBSTAR', 'flags&GLOBSTARLONG'
    attr_table('globstarlong', lambda g: g(P) and g(GL))
    attr_table('globstar', lambda g: g(P) and (g(GL) or g(G)))
    attr_table('pathname', lambda g: g(P))
    attr_table('realpath', lambda g: g('flags&REALPATH') and g(P))
    for nm, bit in (('dot', 'DOTMATCH'), ('extend', 'EXTMATCH'), ('matchbase', 'MATCHBASE'),
                    ('extmatchbase', '_EXTMATCHBASE'), ('nodotdir', 'NODOTDIR'), ('follow', 'FOLLOW'),
                    ('anchor', '_ANCHOR'), ('no_abs', '_NOABSOLUTE'), ('negate', 'NEGATE'), ('raw_chars', 'RAWCHARS'),
                    ('braces', 'BRACE')):
        attr_table(nm, lambda g, bit=bit: g(f'flags&{bit}'))
    # _handle_star: arm guard and the four `value = globstar` sites
    fi = repo.func(WP, 'WcParse._handle_star')
    q = fq(fi)
    assigns = q.stmts(lambda n: isinstance(n, ast.Assign) and norm_src(n) == 'value = globstar')
    ctx.floor(rule, '`value = globstar` sites', len(assigns), 4)
    for i, a in enumerate(assigns, 1):
        g = q.guards(a)
        arm = ('self.after_start', 'T') in g and ('self.globstar', 'T') in g and ('self.in_list', 'F') in g
        ends = q.in_handler(a, {'PathNameException', 'StopIteration'}) or ("c == '/'", 'T') in g
        ctx.ob(rule, f'{WP}:WcParse._handle_star/value=globstar@{i}', arm and ends, repo.loc(WP, a),
               'under after_start ∧ globstar ∧ ¬in_list, and next char is `/`, an escaped separator, or the end',
               f'arm guard={arm}, separator-or-end={ends}',
               witness="globmatch('ab/c', '**b/c', GLOBSTAR) -- `**` glued to text is two single stars")
    # the double-star probe: second char must be '*', third too for GLOBSTARLONG
    probes = [r for r in q.stmts(lambda n: isinstance(n, ast.If) and norm_src(n.test) == "c != '*'")]
    ctx.ob(rule, f'{WP}:WcParse._handle_star/star-probes', len(probes) >= 2, repo.loc(WP, fi.node),
           "two `c != '*'` probes (second star, third star under globstarlong)", f'{len(probes)}')
    # _GlobSplit
    gi = repo.func('glob', '_GlobSplit.__init__')
    gpaths = SymEval(repo, call_models={'_wcparse:is_unix_style': lambda *a: Opaque('unix'),
                                        '_wcparse:is_negative': lambda *a: False,
                                        '_wcparse:_get_magic_symbols': lambda *a: Opaque('magic')}
                     ).tabulate(gi, {'flags': BV('flags'), 'pattern': Opaque('pattern')}, Obj(('glob', '_GlobSplit')))

    for name, oracle in (('globstarlong', lambda g: g(GL)),
                         ('globstar', lambda g: g(GL) or g(G)),
                         ('follow', lambda g: g('flags&FOLLOW')),
                         ('matchbase', lambda g: g('flags&MATCHBASE')),
                         ('extmatchbase', lambda g: g('flags&_EXTMATCHBASE')),
                         ('no_abs', lambda g: g('flags&_NOABSOLUTE')),
                         ('extend', lambda g: g('flags&EXTMATCH'))):
        attr_table(name, oracle, gpaths, 'glob:_GlobSplit.__init__', repo.loc('glob', gi.node))
    st = repo.func('glob', '_GlobSplit.store')
    sev = SymEval(repo, no_inline={'glob:_GlobSplit.is_magic'},
                  call_models={'_wcparse:_compile': lambda *a: Opaque('compiled'),
                               'glob:_GlobSplit.is_magic': lambda *a: Opaque('magic')})

    def am(node: ast.AST, fr: Any) -> Any:
        s = norm_src(node)
        if s in ("value in (b'***', '***')", "value in ('***', b'***')"):
            return 'is***'
        if s in ("value in (b'**', '**')", "value in ('**', b'**')"):
            return 'is**'
        if s in ("value in (b'', '')", "value in ('', b'')"):
            return 'empty'
        return None
    sev.atom_map = am
    spaths = sev.tabulate(st, {'value': Opaque('value'), 'l': Opaque('l'), 'dir_only': Opaque('dir_only')},
                          Obj(('glob', '_GlobSplit'), {'globstarlong': Opaque('GL'), 'globstar': Opaque('G')}))

    def sproj(p: Any) -> Any:
        return (p.locals.get('globstar'), p.locals.get('globstarlong')) if 'globstar' in p.locals else None

    def soracle(g: Any) -> Any:
        if g('l') and g('empty'):
            return None
        gl = g('GL') and g('is***')
        gs = True if gl else (g('G') and g('is**'))
        return (bool(gs), bool(gl))
    ok, why, rows = compare_table(spaths, ev.bitnames, soracle, sproj, None, where='_GlobSplit.store')
    ctx.count('decision_table_rows', rows)
    ctx.ob(rule, 'glob:_GlobSplit.store/globstar-recognition', ok, repo.loc('glob', st.node),
           'globstarlong = GL∧value==`***`; globstar = globstarlong ∨ (G∧value==`**`)', f'{rows} rows agree' if ok else why,
           witness="glob('a**') must treat `a**` as an ordinary magic segment")


# ------------------------------------------------------------------------------------------------ R6
def rule_matchbase(ctx: Ctx, rule: str) -> None:
    ctx.text(rule, 'WcParse._parse prepends the implicit recursive prefix iff (matchbase ∨ extmatchbase) ∧ pattern '
                   'non-empty, produces it with self.root("**"|"***", …) (the same emission code), using `***` iff '
                   'globstarlong ∧ follow; matchbase is cleared wherever a top-level separator or a root is recognised; '
                   '_GlobSplit.split inserts its implicit part under the equivalent predicate')
    repo = ctx.repo
    fi = repo.func(WP, 'WcParse._parse')
    ev = SymEval(repo, no_inline={'_wcparse:WcParse.root'}, watch_calls=True,
                 call_models={'_wcparse:WcParse.root': lambda fr, n, a, k: None})
    attrs = {'anchor': False, 'matchbase': Opaque('M'), 'extmatchbase': Opaque('X'), 'globstarlong': Opaque('GL'),
             'follow': Opaque('L'), 'globstar': Opaque('G'), 'case_sensitive': True, 'capture': False,
             'win_drive_detect': False}
    paths = ev.tabulate(fi, {'p': Opaque('p')}, Obj((WP, 'WcParse'), attrs))

    def proj(p: Any) -> Any:
        roots = [a[0] for (_n, name, a, _k) in p.calls if name == '_wcparse:WcParse.root' and a]
        pre = [r for r in roots if r in ('**', '***')]
        ret = p.ret
        joined = isinstance(ret, Tok) and 'prepend' in repr(ret)
        return (tuple(pre), joined)

    def oracle(g: Any) -> Any:
        mb = g('M') or g('X')
        pre = ()
        if mb:
            pre = ('***',) if (g('GL') and g('L')) else ('**',)
        nonempty = g("p == '\\\\'") is False and g('p')
        return (pre, bool(mb and nonempty))

    # joined-ness is visible through the returned f-string: ''.join(result) where result = prepend + result
    def proj2(p: Any) -> Any:
        roots = [a[0] for (_n, name, a, _k) in p.calls if name == '_wcparse:WcParse.root' and a]
        pre = tuple(r for r in roots if r in ('**', '***'))
        res = p.locals.get('result')
        joined = isinstance(res, Opaque) and 'prepend' in res.tag or (isinstance(res, list) and len(res) == 2)
        return (pre, bool(joined))
    ok, why, rows = compare_table(paths, ev.bitnames, oracle, proj2, None, where='WcParse._parse')
    ctx.count('decision_table_rows', rows)
    ctx.ob(rule, f'{WP}:WcParse._parse/implicit-prefix', ok, repo.loc(WP, fi.node),
           'root("***") iff (M∨X)∧GL∧L, root("**") iff (M∨X) otherwise; result = prepend + result iff (M∨X)∧p',
           f'{rows} rows agree' if ok else why,
           witness="globmatch('x/a.txt', '*.txt', MATCHBASE) True; globmatch('x/a.txt', '', MATCHBASE) False")
    # globstar forced on around root('**') and restored
    q = fq(fi)
    body_src = [norm_src(s) for s in walk_no_nested(fi.node) if isinstance(s, ast.stmt)]
    forced = 'self.globstar = True' in body_src and 'self.globstar = globstar' in body_src and 'globstar = self.globstar' in body_src
    ctx.ob(rule, f'{WP}:WcParse._parse/globstar-forced-and-restored', forced, repo.loc(WP, fi.node),
           'globstar saved, forced True for the implicit `**`, restored', str(forced),
           witness="globmatch('a/b/x', 'x', MATCHBASE) must be True without GLOBSTAR")
    # clearing sites
    hs = repo.func(WP, 'WcParse._handle_star')
    qh = fq(hs)
    clears = qh.stmts(lambda n: isinstance(n, ast.Assign) and norm_src(n) == 'self.matchbase = False')
    good = 0
    for c in clears:
        g = qh.guards(c)
        if qh.in_handler(c, {'PathNameException'}) or ("c == '/'", 'T') in g:
            good += 1
    ctx.ob(rule, f'{WP}:WcParse._handle_star/matchbase-cleared-at-globstar-separator', good >= 2, repo.loc(WP, hs.node),
           'matchbase = False in the `/` arm and the escaped-separator handler', f'{good} of {len(clears)} clearing sites',
           witness="globmatch('x/y/a', '**/a', MATCHBASE|GLOBSTAR): pattern has a separator, no implicit prefix")
    rt = repo.func(WP, 'WcParse.root')
    qr = fq(rt)
    rs = [n for n in walk_no_nested(rt.node) if isinstance(n, ast.If) and norm_src(n.test) == 'root_specified']
    okr = any({'self.matchbase = False', 'self.extmatchbase = False'} <= {norm_src(s) for s in b.body} for b in rs)
    ctx.ob(rule, f'{WP}:WcParse.root/root-clears-matchbase', okr, repo.loc(WP, rt.node),
           'if root_specified: matchbase = extmatchbase = False', str(okr),
           witness="globmatch('/a', '/a', MATCHBASE) must not get an implicit prefix")
    an = [n for n in walk_no_nested(fi.node) if isinstance(n, ast.If) and norm_src(n.test) == 'number']
    oka = any({'self.matchbase = False', 'self.extmatchbase = False'} <= {norm_src(s) for s in b.body} for b in an)
    ctx.ob(rule, f'{WP}:WcParse._parse/anchor-clears-matchbase', oka, repo.loc(WP, fi.node),
           'stripping an anchoring slash clears matchbase and extmatchbase', str(oka),
           witness="WcMatch file pattern '/a.txt' with MATCHBASE matches only at the root")
    # _GlobSplit.split: the implicit `**/` part (site slice of the parts.insert call)
    from .common import site_events
    from ..symeval import focus, _tag
    sp = repo.func('glob', '_GlobSplit.split')
    sites = site_events(repo, 'glob', '_GlobSplit.split', lambda c: norm_src(c.func).endswith('.insert'), all_paths=True)
    if len(sites) != 1:
        raise AnalysisError(f'_GlobSplit.split: {len(sites)} insertion sites')
    c0, hits, every = sites[0]
    bad_p, bad_k = [], []
    ins_paths = {id(p) for p, _e in hits}
    for p in every:
        focus(p)
        d = p.decisions
        if p.raised:
            continue
        ext, mb = d.get('self.extmatchbase'), d.get('self.matchbase')
        drv = [v for k, v in d.items() if k.endswith('.is_drive')]
        one = [v for k, v in d.items() if k.startswith('len(') and k.endswith(' == 1')]
        don = [v for k, v in d.items() if k.endswith('.dir_only')]
        want = (ext is True and drv[:1] == [False]) or (mb is True and one[:1] == [True] and don[:1] == [False])
        if (id(p) in ins_paths) != want:
            bad_p.append(f'extmatchbase={ext} first-is-drive={drv[:1]} matchbase={mb} single-part={one[:1]} first-dir_only={don[:1]}: inserted={id(p) in ins_paths}')
    for p, e in hits:
        focus(p)
        d = p.decisions
        long_ = d.get('self.globstarlong') is True and d.get('self.follow') is True
        isb = d.get('isinstance(self.pattern, bytes)')
        a_ = e[2]
        part = None
        for ce in p.of('call'):
            if ce[1] == 'glob:_GlobPart' and len(ce[2]) == 6 and ce[2][1] is True and ce[2][2] is True:
                part = ce[2]
        star = ('***' if long_ else '**')
        if part is None or isb is None or part[0] != (star.encode() if isb else star) or part[3] is not long_ or part[4] is not True or part[5] is not False or \
                not a_ or a_[0] != 0 or (d.get('self.globstarlong') is True and d.get('self.follow') is None):
            bad_k.append(f'globstarlong={d.get("self.globstarlong")} follow={d.get("self.follow")} bytes={isb}: inserts {[_tag(x) for x in part] if part else None} at {_tag(a_[0]) if a_ else None}')
    ctx.ob(rule, 'glob:_GlobSplit.split/implicit-part-predicate', not bad_p and len(hits) >= 4, repo.loc('glob', c0),
           'inserted iff (extmatchbase and the first part is no drive) or (matchbase and there is exactly one part and it is not dir_only)',
           f'{len(every)} rows agree' if not bad_p else sorted(set(bad_p))[0][:220], witness="glob('a.txt', flags=MATCHBASE) finds sub/a.txt; glob('d/a.txt', flags=MATCHBASE) does not recurse")
    ctx.ob(rule, 'glob:_GlobSplit.split/implicit-part-kind', not bad_k and len(hits) >= 4, repo.loc('glob', c0),
           '_GlobPart(`***` iff globstarlong ∧ follow else `**` (str / bytes), True, True, <that>, True, False) inserted in front',
           f'{len(hits)} insertions agree' if not bad_k else sorted(set(bad_k))[0][:220], witness="rglob('x', GLOBSTARLONG|FOLLOW) follows links like `***/x`")


# ------------------------------------------------------------------------------------------------ R7
NODIR_REF = {'unix': r'(?:.*[/]|(?:.*[/])?\.{1,2}[/]*)', 'win': r'(?:.*[\\/]|(?:.*[\\/])?\.{1,2}[\\/]*)'}


def rule_nodir(ctx: Ctx, rule: str) -> None:
    ctx.text(rule, 'translate / compile_pattern append the directory-exclusion regex iff positive ∧ NODIR, selected by '
                   'is_unix; the text twins _NO_NIX_DIR/_NO_WIN_DIR equal RE_NO_DIR/RE_WIN_NO_DIR patterns; each denotes '
                   '"ends in a separator, or last segment is . or .."')
    repo = ctx.repo
    from . import pipeline
    pipeline.rule_pipeline_tail(ctx, rule, which={'nodir-tail', 'platform-source'}, text=False)
    for var, nixn, ren in (('unix', '_NO_NIX_DIR', 'RE_NO_DIR'), ('win', '_NO_WIN_DIR', 'RE_WIN_NO_DIR')):
        text = repo.const(WP, nixn)
        rc = repo.const(WP, ren)
        for k, kind in ((0, 'str'), (1, 'bytes')):
            same = text[k] == rc[k].pattern
            ctx.ob(rule, f'{WP}:{nixn}[{k}]=={ren}[{k}].pattern', same, repo.loc(WP, repo.const_line(WP, nixn)),
                   'equal texts', 'equal' if same else f'{text[k]!r} vs {rc[k].pattern!r}',
                   witness='translate() and compile() would disagree on what a directory is under NODIR')
            t = text[k].decode('latin-1') if isinstance(text[k], bytes) else text[k]
            check_text(ctx, rule, f'{WP}:{nixn}[{k}]/language', repo.loc(WP, repo.const_line(WP, nixn)), t,
                       NODIR_REF[var], [], "fullmatch semantics: names ending in a separator, or whose last segment is `.`/`..` -- also when "
                       "the name contains a newline: glob('*', flags=NODIR) must not return the directory 'a\\nb'",
                       universe=255 if k else rx.MAXCP, fullmatch=True, standalone=True)
            same_flags = rc[k].flags & ~32 == 0  # only re.UNICODE (implicit for str) may be set on the compiled twin
            ctx.ob(rule, f'{WP}:{ren}[{k}]/flags', same_flags, repo.loc(WP, repo.const_line(WP, ren)),
                   'compiled without extra flags (the text twin returned by translate carries none)', f'flags={rc[k].flags}')


# ------------------------------------------------------------------------------------------------ R8
SINK_FUNCS = {'compile', 'translate', 'compile_pattern', 'is_magic', 'expand', '_compile', 'is_negative', 'split',
              'is_unix_style', 'get_case', 'WcParse', 'WcSplit'}


def rule_forced_pathname(ctx: Ctx, rule: str) -> None:
    ctx.text(rule, 'every function of wcmatch.glob hands a flag word to _wcparse / _GlobSplit only after it went through '
                   "glob._flag_transform (directly, via a local, or via Glob's self.flags / self.negate_flags which are "
                   'assigned only in Glob.__init__ from _flag_transform), and _flag_transform sets PATHNAME on every path')
    repo = ctx.repo
    ev = SymEval(repo)
    ft = repo.func('glob', '_flag_transform')
    paths = ev.tabulate(ft, {'flags': BV('flags')})
    pn = repo.const(WP, 'PATHNAME')
    ok = all(isinstance(p.ret, BV) and p.ret.must_set(pn) for p in paths)
    ctx.ob(rule, 'glob:_flag_transform/PATHNAME-forced', ok, repo.loc('glob', ft.node), 'PATHNAME in the must-set of every path',
           f'{len(paths)} paths' if ok else 'a path returns without PATHNAME',
           witness="glob.globmatch('a/b', '*') must be False")
    mask = repo.const('glob', 'FLAG_MASK')
    ok2 = all(isinstance(p.ret, BV) and (p.ret.passthrough() | (p.ret.val & p.ret.known)) & ~(mask | pn) == 0 for p in paths)
    ctx.ob(rule, 'glob:_flag_transform/masked', ok2, repo.loc('glob', ft.node), 'result ⊆ glob.FLAG_MASK ∪ PATHNAME',
           str(ok2), witness='internal bits (_TRANSLATE, _ANCHOR, _NO_GLOBSTAR_CAPTURE) must not be user-injectable')
    n = 0
    gm = repo.mod('glob')
    for fi in gm.functions.values():
        if fi.qualname.startswith('<lambda') or fi.qualname == '_flag_transform' or fi.qualname.startswith('_GlobSplit.'):
            continue  # _GlobSplit is not an entry point: its flag word is its constructor argument (a sink above)
        q = fq(fi)
        for c in q.stmts(lambda x: isinstance(x, ast.Call)):
            callee = norm_src(c.func)
            if callee.startswith('_wcparse.'):
                name = callee.split('.', 1)[1]
                if name not in SINK_FUNCS or not repo.has_func(WP, name):
                    continue
                params = repo.func(WP, name).params()
            elif callee == '_GlobSplit':
                params = repo.func('glob', '_GlobSplit.__init__').params()[1:]
                name = '_GlobSplit'
            else:
                continue
            if 'flags' not in params:
                continue
            idx = params.index('flags')
            arg = next((k.value for k in c.keywords if k.arg == 'flags'), c.args[idx] if idx < len(c.args) else None)
            if arg is None:
                continue
            n += 1
            okc = _transformed(fi, arg, set())
            ctx.ob(rule, f'glob:{fi.qualname}/{name}(flags={norm_src(arg)})@{n}', okc, repo.loc('glob', c),
                   'flags argument derived from _flag_transform(...)', norm_src(arg),
                   witness="glob.globmatch('a/b', '*') / FORCEWIN|FORCEUNIX cancellation would depend on the entry point")
    ctx.floor(rule, 'flag hand-overs from glob.py', n, 11)
    # who may write Glob.flags / negate_flags
    from .common import pinned_writers
    for attr in ('flags', 'negate_flags'):
        writers = pinned_writers(repo, 'glob', 'Glob', attr)
        ctx.ob(rule, f'glob:Glob/self.{attr}-writers', writers == {'__init__'}, repo.loc('glob', repo.cls('glob', 'Glob').node),
               'written only in __init__', str(sorted(writers)))
    from . import ginit
    ginit.rule_walker_bits(ctx, rule, which={'realpath-forced'})


def _transformed(fi: Any, expr: ast.AST, seen: set[str]) -> bool:
    s = norm_src(expr)
    if '_flag_transform(' in s:
        return True
    if isinstance(expr, ast.Attribute) and s in ('self.flags', 'self.negate_flags'):
        return True
    if isinstance(expr, ast.BinOp):
        return _transformed(fi, expr.left, seen) or _transformed(fi, expr.right, seen)
    if isinstance(expr, ast.Name) and expr.id not in seen:
        seen = seen | {expr.id}
        defs = [a for a in walk_no_nested(fi.node) if isinstance(a, (ast.Assign, ast.AugAssign)) and
                any(isinstance(t, ast.Name) and t.id == expr.id
                    for t in (a.targets if isinstance(a, ast.Assign) else [a.target]))]
        plain = [a for a in defs if isinstance(a, ast.Assign)]
        if plain and all(_transformed(fi, a.value, seen) for a in plain):
            return True
    return False
