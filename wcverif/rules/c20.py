"""C20: RAWCHARS decodes Python-style character escapes and nothing else."""
from __future__ import annotations

import ast
import re
from typing import Any

from .. import rx
from ..model import AnalysisError, norm_src, walk_no_nested
from ..pathq import fq
from ..report import Ctx
from ..symeval import Opaque, SymEval
from ..tables import pretty_assign

HEX = rx.cs_of('0123456789abcdefABCDEF')
OCT = rx.cs_of('01234567')


def top_branches(pattern: Any, flags: int) -> list[tuple[int | None, Any]]:
    """Ordered top-level alternatives of a regex constant as (capture group number, node)."""
    p = rx.parse(pattern, flags)
    raw = rx._parser.parse(p.text, flags | re.S)
    items = list(raw)
    if len(items) != 1 or str(items[0][0]) != 'BRANCH':
        raise AnalysisError('decoder regex is not a top-level alternation')
    out = []
    for br in items[0][1][1]:
        node = p._conv_seq(br)
        out.append((node[1] if node[0] == 'cap' else None, node))
    return out


def _after_backslash(node: Any) -> tuple[tuple, tuple]:
    """(set of characters that may follow a leading backslash, width) of a group body; () if it need not start with one."""
    body = node[2] if node[0] == 'cap' else node
    alts = body[1] if body[0] == 'alt' else (body,)
    second: tuple = ()
    for a in alts:
        items = a[1] if a[0] == 'seq' else (a,)
        if not items or items[0] != ('lit', ((92, 92),)):
            return (), rx.width(body)
        if len(items) < 2:
            return (), rx.width(body)
        nxt = items[1]
        second = rx.cs_union(second, _first_chars(nxt))
    return second, rx.width(body)


def _first_chars(n: Any) -> tuple:
    k = n[0]
    if k == 'lit':
        return n[1]
    if k == 'cap':
        return _first_chars(n[2])
    if k == 'alt':
        out: tuple = ()
        for c in n[1]:
            out = rx.cs_union(out, _first_chars(c))
        return out
    if k == 'seq':
        return _first_chars(n[1][0])
    if k == 'rep':
        return _first_chars(n[3])
    return ()


def decoder_roles(ctx: Ctx, const: str) -> dict[str, Any]:
    """Role -> group number for RE_NORM / RE_BNORM, derived from the language of each top-level group."""
    repo = ctx.repo
    rc = repo.const('util', const)
    is_bytes = isinstance(rc.pattern, bytes)
    uni = 255 if is_bytes else rx.MAXCP
    roles: dict[str, Any] = {'order': []}
    for grp, node in top_branches(rc.pattern, rc.flags):
        if grp is None:
            raise AnalysisError(f'util.{const}: a top-level alternative is not a capture group')
        body = node[2]
        second, w = _after_backslash(node)
        nested = [s for s in rx.subnodes(body) if s[0] == 'cap']
        alts = body[1] if body[0] == 'alt' else (body,)
        sep_ref = rx.parse(r'/|\\/', 0).node
        is_sep = False
        if not nested:
            try:
                is_sep = rx.equivalent(rx.strip_caps(body), sep_ref, uni)[0]
            except Exception:
                is_sep = False
        if is_sep:
            role = 'sep'
            roles['sep_forms'] = ['[\\][/]']  # language-equal to `/|\/`
        elif any(a == ('lit', ((47, 47),)) for a in alts):
            role = 'sep'
            esc = [a for a in alts if a != ('lit', ((47, 47),))]
            roles['sep_forms'] = sorted(rx.show(a, uni) for a in esc)
        elif nested:
            role = 'numeric'
            roles['octal'] = nested[0][1]
            roles['octal_lang'] = nested[0][2]
            forms = {}
            items = body[1] if body[0] == 'seq' else (body,)
            inner = rx.seq(items[1:]) if items and items[0] == ('lit', ((92, 92),)) else body
            for a2 in (inner[1] if inner[0] == 'alt' else (inner,)):
                if any(x[0] == 'cap' for x in rx.subnodes(a2)):
                    continue
                it2 = a2[1] if a2[0] == 'seq' else (a2,)
                lead = it2[0][1] if it2 and it2[0][0] == 'lit' else ()
                forms[''.join(chr(lo) for lo, hi in lead if lo == hi)] = rx.seq(it2[1:])
            roles['numeric_forms'] = forms
        elif w == (2, 2) and second and rx.cs_size(second) > 1000 if not is_bytes else (w == (2, 2) and second and rx.cs_size(second) > 128):
            role = 'other'
            roles['other_excluded'] = rx.cs_compl(second, uni)
        elif w == (2, 2) and second and rx.cs_subset(second, rx.cs_of('abfnrtv\\')):
            role = 'simple'
            roles['simple_chars'] = second
        elif w == (2, 2) and second:
            role = 'incomplete'
            roles['incomplete_chars'] = second
        elif second == rx.cs_of('N'):
            role = 'named'
        else:
            role = f'unknown{grp}'
        roles[role] = grp
        roles['order'].append(role)
    return roles


def rule_decoder_roles(ctx: Ctx, rule: str) -> None:
    ctx.text(rule, 'RE_NORM / RE_BNORM: the role of every top-level group is derived from its language (characters allowed '
                   'after the backslash, width); the groups the callback `norm` reads in each branch are the groups of the '
                   'role that branch handles, for the regex selected under the same is_bytes value; numeric precedes '
                   'incomplete in the alternation and `other` excludes exactly the lead characters of numeric and named '
                   'escapes; the bytes regex is the str regex minus U, u, N')
    repo = ctx.repo
    sroles = decoder_roles(ctx, 'RE_NORM')
    broles = decoder_roles(ctx, 'RE_BNORM')
    site_s = repo.loc('util', repo.const_line('util', 'RE_NORM'))
    site_b = repo.loc('util', repo.const_line('util', 'RE_BNORM'))
    ctx.ob(rule, 'util:RE_NORM/roles', sroles['order'] == ['sep', 'simple', 'numeric', 'named', 'other', 'incomplete'], site_s,
           'sep, simple, numeric, named, other, incomplete (in this order)', str(sroles['order']),
           witness=r"fnmatch('A', r'\x41', RAWCHARS) True; r'\x4' raises SyntaxError: `incomplete` must come after `numeric`")
    ctx.ob(rule, 'util:RE_BNORM/roles', broles['order'] == ['sep', 'simple', 'numeric', 'other', 'incomplete'], site_b,
           'sep, simple, numeric, other, incomplete', str(broles['order']),
           witness=r"fnmatch(b'A', br'\x41', RAWCHARS)")
    # numeric forms
    def forms_ok(roles: dict, want: dict[str, int]) -> tuple[bool, str]:
        got = {}
        for lead, rest in roles.get('numeric_forms', {}).items():
            w = rx.width(rest)
            cs = rx.consumes(rest)
            got[lead] = (w, cs == HEX or cs == rx.cs_union(HEX, rx._category('digit', rx.MAXCP)))
        exp = {k: ((v, v), True) for k, v in want.items()}
        return got == exp, str({k: v[0] for k, v in got.items()})
    ok, got = forms_ok(sroles, {'U': 8, 'u': 4, 'x': 2})
    ctx.ob(rule, 'util:RE_NORM/numeric-forms', ok, site_s, 'U+8, u+4, x+2 hex digits', got,
           witness=r"r'A' decodes to 'A'; r'\u004' is incomplete")
    ok, got = forms_ok(broles, {'x': 2})
    ctx.ob(rule, 'util:RE_BNORM/numeric-forms', ok, site_b, 'x+2 hex digits only', got,
           witness=r"br'A' must stay an escaped `u` for bytes")
    for nm, roles, site in (('RE_NORM', sroles, site_s), ('RE_BNORM', broles, site_b)):
        ol = roles.get('octal_lang')
        oko = ol is not None and rx.width(ol) == (1, 3) and rx.consumes(ol) == OCT
        ctx.ob(rule, f'util:{nm}/octal', oko, site, '[0-7]{1,3} as the nested group', rx.show(ol) if ol is not None else 'none',
               witness=r"r'\101' decodes to 'A'; r'\8' is an escaped 8")
        lead = rx.cs_of(''.join(roles.get('numeric_forms', {}).keys()) + ('N' if 'named' in roles else ''))
        ctx.ob(rule, f'util:{nm}/other-vs-incomplete', roles.get('other_excluded') == lead and roles.get('incomplete_chars') == lead, site,
               f'`other` excludes exactly {rx.cs_show(lead)} and `incomplete` is exactly that set',
               f"other excludes {rx.cs_show(roles.get('other_excluded', ()))}, incomplete {rx.cs_show(roles.get('incomplete_chars', ()))}",
               witness=r"r'\x' must raise SyntaxError; r'\q' must stay `\q`")
        ctx.ob(rule, f'util:{nm}/simple-chars', roles.get('simple_chars') == rx.cs_of('abfnrtv\\'), site, r'[abfnrtv\\]',
               rx.cs_show(roles.get('simple_chars', ())))
        ctx.ob(rule, f'util:{nm}/sep-forms', roles.get('sep_forms') == ['[\\][/]'], site, r'`/` or `\/`', str(roles.get('sep_forms')))
    # callback table
    fi = repo.func('util', 'norm_pattern.norm')
    ev = SymEval(repo, inline=False, max_paths=20000)
    paths = ev.tabulate(fi, {'m': Opaque('m')})
    ctx.count('decision_table_rows', len(paths))

    def classify(p: Any) -> Any:
        if p.raised:
            return ('raise', p.raised)
        r = p.ret
        t = r.tag if isinstance(r, Opaque) else repr(r)
        m = re.fullmatch(r'm\.group\((\d+)\)', t)
        if m:
            return ('group', int(m.group(1)))
        if t == 'multi_slash':
            return ('multi',)
        m = re.fullmatch(r'chr\(int\(m\.group\((\d+)\)(\[2:\])?, (\d+)\)\)', t)
        if m:
            return ('chr', int(m.group(1)), bool(m.group(2)), int(m.group(3)))
        m = re.fullmatch(r'bytes\(\[<?\(?int\(m\.group\((\d+)\)(\[2:\])?, (\d+)\)(&255\))?>?\]\)', t)
        if m:
            # an octal escape has up to three digits (max 0o777 = 511): the byte value must be reduced to 0..255
            return ('byte', int(m.group(1)), bool(m.group(2)), int(m.group(3))) if (m.group(3) != '8' or m.group(4)) else \
                ('byte-unmasked', int(m.group(1)), bool(m.group(2)), int(m.group(3)))
        m = re.fullmatch(r'unicodedata\.lookup\(m\.group\((\d+)\)\[3:-1\]\)', t)
        if m:
            return ('lookup', int(m.group(1)))
        if t.startswith('{') and re.search(r'\}\[m\.group\((\d+)\)\]$', t):
            return ('table', int(re.search(r'\[m\.group\((\d+)\)\]$', t).group(1)))
        return ('?', t[:60])

    def expected(role: str, roles: dict, raw: bool, is_bytes: bool, normalize: bool, long: bool) -> Any:
        g = roles.get
        if role == 'sep':
            return ('multi',) if (normalize and long) else ('group', g('sep'))
        if role == 'simple':
            return ('table', g('simple')) if raw else ('group', g('simple'))
        if role == 'octal':
            return (('byte' if is_bytes else 'chr'), g('octal'), False, 8) if raw else ('group', 0)
        if role == 'hex':
            return (('byte' if is_bytes else 'chr'), g('numeric'), True, 16) if raw else ('group', 0)
        if role == 'named':
            return ('lookup', g('named')) if raw else ('group', 0)
        if role == 'other':
            return ('group', 0)
        if role == 'incomplete':
            return ('raise', 'SyntaxError') if raw else ('group', 0)
        raise AnalysisError(role)

    n = 0
    for is_bytes, roles in ((False, sroles), (True, broles)):
        groups = sorted(v for k, v in roles.items() if isinstance(v, int) and k in
                        ('sep', 'simple', 'numeric', 'octal', 'named', 'other', 'incomplete'))
        scen = ['sep', 'simple', 'octal', 'hex', 'other', 'incomplete'] + ([] if is_bytes else ['named'])
        for role in scen:
            truthy = {'octal': {roles['numeric'], roles['octal']}, 'hex': {roles['numeric']}}.get(role) or {roles[role]}
            for raw in (False, True):
                for normalize in (False, True):
                    for long in ((False, True) if role == 'sep' else (False,)):
                        sel = []
                        for p in paths:
                            val = p.decisions
                            okp = True
                            for a, v in val.items():
                                if a == 'is_bytes':
                                    okp &= v == is_bytes
                                elif a == 'is_raw_chars':
                                    okp &= v == raw
                                elif a == 'normalize':
                                    okp &= v == normalize
                                elif a.startswith('m.group('):
                                    k = int(a[8:-1])
                                    okp &= v == (k in truthy)
                                elif a.startswith('len('):
                                    okp &= v == long
                                else:
                                    raise AnalysisError(f'norm: unrecognised condition `{a}`')
                            if okp:
                                sel.append(p)
                        got = sorted({classify(p) for p in sel}, key=repr)
                        exp = expected(role, roles, raw, is_bytes, normalize, long)
                        n += 1
                        if got != [exp]:
                            ctx.ob(rule, f'util:norm_pattern.norm/{"bytes" if is_bytes else "str"}/{role}/raw={int(raw)}/norm={int(normalize)}',
                                   False, repo.loc('util', fi.node), str(exp), str(got),
                                   witness=r"fnmatch('A', r'\x41', RAWCHARS) / fnmatch('\\x41'... without RAWCHARS nothing is decoded")
    ctx.ob(rule, 'util:norm_pattern.norm/table', True, repo.loc('util', fi.node),
           'every (type, role, RAWCHARS, normalize) scenario takes the documented action on the group of that role',
           f'{n} scenarios checked against {len(paths)} extracted paths')
    ctx.floor(rule, 'decoder scenarios', n, 50)


def rule_decode_only_raw(ctx: Ctx, rule: str) -> None:
    ctx.text(rule, 'every expression of `norm` that produces a decoded character (chr, bytes([..]), unicodedata.lookup, '
                   'BACK_SLASH_TRANSLATION[..]) is control-dependent on is_raw_chars; with neither normalize nor RAWCHARS the '
                   'pattern is returned untouched before any substitution; the SyntaxError is raised only under RAWCHARS')
    repo = ctx.repo
    fi = repo.func('util', 'norm_pattern.norm')
    q = fq(fi)
    n = 0
    for e in walk_no_nested(fi.node):
        s = norm_src(e)
        is_dec = (isinstance(e, ast.Call) and norm_src(e.func) in ('chr', 'bytes', 'unicodedata.lookup')) or \
                 (isinstance(e, ast.Subscript) and norm_src(e.value) == 'BACK_SLASH_TRANSLATION')
        if not is_dec:
            continue
        n += 1
        # conditional expressions: the IfExp test counts as a guard
        guarded = q.guarded(e, 'is_raw_chars', 'T')
        if not guarded:
            from .common import enclosing_map
            par = enclosing_map(fi.node)
            cur: Any = e
            while id(cur) in par:
                p = par[id(cur)]
                if isinstance(p, ast.IfExp) and norm_src(p.test) == 'is_raw_chars' and p.body is cur:
                    guarded = True
                    break
                cur = p
        ctx.ob(rule, f'util:norm_pattern.norm/{s[:40]}@{n}', guarded, repo.loc('util', e), 'only under is_raw_chars', str(guarded),
               witness=r"without RAWCHARS fnmatch('x41', r'\x41') is True: `\x` is an escaped x")
    ctx.floor(rule, 'decoding expressions', n, 3)
    np_ = repo.func('util', 'norm_pattern')
    qn = fq(np_)
    subs = qn.calls(lambda s: s.endswith('.sub'))
    ctx.floor(rule, 'substitution calls', len(subs), 1)
    for c in subs:
        blocked = {(x.id, 'F') for x in qn.cond_nodes('normalize')} | {(x.id, 'F') for x in qn.cond_nodes('is_raw_chars')}
        # the sub must be unreachable when both are false: there must be an early return
        rets = [r for r in qn.stmts(lambda x: isinstance(x, ast.Return)) if norm_src(r) == 'return pattern']
        ok = any(qn.guarded(r, 'normalize', 'F') and qn.guarded(r, 'is_raw_chars', 'F') for r in rets)
        ctx.ob(rule, 'util:norm_pattern/untouched-without-flags', ok, repo.loc('util', c), 'early `return pattern` when not normalize and not is_raw_chars',
               str(ok), witness=r"fnmatch.translate(r'\x41') must not even look at escapes")
    se = [r for r in q.stmts(lambda x: isinstance(x, ast.Raise)) if r.exc is not None and 'SyntaxError' in norm_src(r.exc)]
    ctx.floor(rule, 'SyntaxError raises', len(se), 1)


def rule_translation_table(ctx: Ctx, rule: str) -> None:
    ctx.text(rule, r'BACK_SLASH_TRANSLATION maps \a \b \f \n \r \t \v to code points 7 8 12 10 13 9 11 and keeps `\\` as two '
                   'characters, for str and bytes; its key set is the `simple` class of the decoder regexes')
    repo = ctx.repo
    t = repo.const('util', 'BACK_SLASH_TRANSLATION')
    site = repo.loc('util', repo.const_line('util', 'BACK_SLASH_TRANSLATION'))
    want = {'a': 7, 'b': 8, 'f': 12, 'n': 10, 'r': 13, 't': 9, 'v': 11}
    exp: dict = {}
    for ch, cp in want.items():
        exp['\\' + ch] = chr(cp)
        exp[('\\' + ch).encode()] = bytes([cp])
    exp['\\\\'] = '\\\\'
    exp[b'\\\\'] = b'\\\\'
    diffs = [f'{k!r}: {t.get(k)!r} != {v!r}' for k, v in exp.items() if t.get(k) != v] + \
            [f'unexpected key {k!r}' for k in t if k not in exp]
    ctx.ob(rule, 'util:BACK_SLASH_TRANSLATION', not diffs, site, 'the 8 Python escapes for str and bytes', 'equal' if not diffs else '; '.join(diffs[:4]),
           witness=r"fnmatch('\t', r'\t', RAWCHARS) must be True; a missing key raises KeyError from norm")


def rule_normalise_before_expand(ctx: Ctx, rule: str) -> None:
    ctx.text(rule, 'in translate, compile_pattern and Glob._iter_patterns the value handed to expand() has as its only reaching '
                   'definition util.norm_pattern(p, not <is_unix>, <RAWCHARS bit of the same flags>)')
    repo = ctx.repo
    n = 0
    from . import pipeline
    pipeline.rule_pipeline_loop(ctx, rule, which={'expand-argument'}, text=False)
    n = 2
    for mod, qn, unix, raw in (('glob', 'Glob._iter_patterns', 'not self.unix', 'self.raw_chars'),):
        fi = repo.func(mod, qn)
        calls = [c for c in walk_no_nested(fi.node) if isinstance(c, ast.Call) and norm_src(c.func) in ('expand', '_wcparse.expand')]
        for c in calls:
            n += 1
            a0 = c.args[0] if c.args else None
            ok, desc = False, 'first argument not a plain name'
            if isinstance(a0, ast.Name):
                loops = [l for l in walk_no_nested(fi.node) if isinstance(l, ast.For) and any(x is c for x in ast.walk(l))]
                outer = loops[0] if loops else None
                for l in loops:
                    if isinstance(l.target, ast.Name) and l.target.id == a0.id:
                        outer = l
                defs = [s for s in (walk_no_nested(outer) if outer is not None else [])
                        if isinstance(s, ast.Assign) and any(isinstance(t, ast.Name) and t.id == a0.id for t in s.targets)]
                desc = '; '.join(norm_src(d) for d in defs) or 'no normalising definition in the loop'
                ok = len(defs) == 1 and norm_src(defs[0].value) == f'util.norm_pattern({a0.id}, {unix}, {raw})' and \
                    defs[0].lineno < c.lineno
            ctx.ob(rule, f'{mod}:{qn}/expand-argument', ok, repo.loc(mod, c), f'{norm_src(a0) if a0 is not None else "?"} = util.norm_pattern(…, {unix}, {raw})',
                   desc, witness=r"fnmatch('a', r'\x7b' + 'a,b}', RAWCHARS|BRACE): a decoded `{` must take part in brace expansion")
    ctx.floor(rule, 'expand call sites', n, 3)
    # attribute definitions used by Glob
    from . import ginit
    ginit.rule_derived_attrs(ctx, rule, which={'raw_chars', 'unix'})
