"""WcParse._sequence (bracket expressions): prologue and epilogue, on the decision table with the scan loop skipped."""
from __future__ import annotations

import re
from typing import Any

from ..model import AnalysisError, Repo
from ..report import Ctx
from ..symeval import MList, Opaque, Path, Tok, _tag, focus
from .common import cached, tabulate_method

WP = '_wcparse'


def table(repo: Repo) -> list[Path]:
    def build() -> list[Path]:
        def esc(fr: Any, n: Any, a: list, k: dict) -> Any:
            v = a[0]
            if isinstance(v, str):
                return re.escape(v)
            if isinstance(v, Opaque):
                pre = f'{v.tag} == '
                for atom, d in fr.ev.decisions.items():
                    if d and atom.startswith(pre):
                        import ast as _ast
                        return re.escape(_ast.literal_eval(atom[len(pre):]))
            return Opaque(f're.escape({_tag(v)})')
        _ev, paths = tabulate_method(repo, WP, 'WcParse._sequence', {}, [Opaque('i')], inline=False, loop_mode='skip',
                                     call_models={'re.escape': esc}, max_paths=4000)
        return paths
    return cached(repo, 'seqrules:table', build)


def _split(p: Path) -> tuple[list, list]:
    at = next((i for i, e in enumerate(p.events) if e[0] == 'loop'), None)
    if at is None:
        raise AnalysisError('WcParse._sequence: a path without the scan loop')
    return p.events[:at], p.events[at + 1:]


def _first_chars(p: Path) -> tuple[Any, Any]:
    """(first character constant or None, second ...) as decided on the path for the 1st/2nd read."""
    out = []
    for tag in ('next(i)', 'next(i)#2'):
        c = None
        for k, v in p.decisions.items():
            if v and k.startswith(tag + ' == '):
                import ast as _ast
                c = _ast.literal_eval(k[len(tag) + 4:])
        out.append(c)
    return out[0], out[1]


def rule_sequence_prologue(ctx: Ctx, rule: str, which: set[str] | None = None) -> None:
    if which is None:
        ctx.text(rule, 'WcParse._sequence before the scan loop (decision table, the characters are the values read from the iterator): '
                       'the result list starts as [`[`]; `^` is appended first and exactly when the first character is `!` or `^`; a '
                       'following `[` is offered to the POSIX-class handler and escaped if it is not one, a following `-` or `]` is taken '
                       'literally (escaped); in each of these cases one more character is read')
    repo = ctx.repo
    fi = repo.func(WP, 'WcParse._sequence')
    site = repo.loc(WP, fi.node)
    paths = table(repo)
    bad_open, bad_neg, bad_lead = [], [], []
    n = 0
    for p in paths:
        focus(p)
        pre, _post = _split(p)
        apps = [e for e in pre if e[0] == 'call' and e[1].endswith('.append')]
        reads = [e for e in pre if e[0] == 'call' and e[1] == 'next']
        lists = {e[1].rsplit('.', 1)[0] for e in apps}
        n += 1
        c1, c2 = _first_chars(p)
        negated = c1 in ('!', '^')
        lead = c2 if negated else c1
        vals = [e[2][0] if e[2] else None for e in apps]
        if negated != (bool(vals) and vals[0] == '^') or vals.count('^') != (1 if negated else 0):
            bad_neg.append(f'first char {c1!r}: appends {vals}')
        rest = vals[1:] if negated else vals
        posix = [e for e in pre if e[0] == 'call' and e[1] == f'{WP}:WcParse._handle_posix']
        if lead == '[':
            was_class = next((v for k, v in p.decisions.items() if k.startswith(f'{WP}:WcParse._handle_posix(')), None)
            ok = len(posix) == 1 and was_class is not None and rest == ([] if was_class else ['\\['])
            if ok:
                a = posix[0][2]
                ok = len(a) == 3 and a[0] == Opaque('i') and isinstance(a[1], MList) and a[2] == 0
        elif lead in ('-', ']'):
            ok = rest == ['\\' + lead] and not posix
        else:
            ok = rest == [] and not posix
        want_reads = 1 + (1 if negated else 0) + (1 if lead in ('[', '-', ']') else 0)
        if not ok or len(reads) != want_reads:
            bad_lead.append(f'chars {c1!r},{c2!r}: appends {rest}, {len(posix)} posix call(s), {len(reads)} reads')
        if len(lists) > 1:
            bad_open.append(f'appends go to {sorted(lists)}')
    if n < 8:
        raise AnalysisError(f'{rule}: WcParse._sequence table has only {n} rows')
    # the list itself: what the closing append receives must have been created as ['[']
    for p in paths:
        _pre, post = _split(p)
        close = [e for e in post if e[0] == 'call' and e[1].endswith('.append')]
        if not close:
            bad_open.append('no append after the loop')
            break
    for p in paths:
        _pre, post = _split(p)
        close = [e for e in post if e[0] == 'call' and e[1].endswith('.append')]
        if close:
            R = close[0][1].rsplit('.', 1)[0]
            made = [e for e in p.of('new') if e[1] == R]
            if len(made) != 1 or made[0][2] != ('[',):
                bad_open.append(f'the list closed with `]` was created as {made[0][2] if made else None}')
                break
    def emit(key: str, ok: bool, expect: str, got: str, witness: str = '') -> None:
        if which is None or key in which:
            ctx.ob(rule, f'{WP}:WcParse._sequence/{key}', ok, site, expect, got, witness=witness)
    emit('opens', not bad_open, "result = ['['] and every emission goes to that list", 'as expected' if not bad_open else bad_open[0])
    emit('negation', not bad_neg, "`^` appended first iff the first character is `!` or `^`", f'{n} rows agree' if not bad_neg else bad_neg[0],
         "fnmatch('b', '[!a]') and fnmatch('b', '[^a]') must both be True")
    emit('leading-literals', not bad_lead, 'leading `[` (unless a POSIX class), `-`, `]` appended escaped, one more character read',
         f'{n} rows agree' if not bad_lead else bad_lead[0], "fnmatch(']', '[]]') and fnmatch('-', '[-a]') must be True")


def rule_sequence_epilogue(ctx: Ctx, rule: str, which: set[str] | None = None) -> None:
    if which is None:
        ctx.text(rule, 'WcParse._sequence after the scan loop (decision table): `]` is appended to the result list first; when ranges were '
                       'removed and the text is `[]` the impossible class [^<full range>] replaces it, when it is `[^]` the full class '
                       '[<full range>] does (byte or unicode range after is_bytes), otherwise the joined text stands; the result is '
                       'prefixed with _restrict_sequence() exactly when pathname or after_start')
    repo = ctx.repo
    fi = repo.func(WP, 'WcParse._sequence')
    site = repo.loc(WP, fi.node)
    paths = table(repo)
    AR, UR = repo.const(WP, 'ASCII_RANGE'), repo.const(WP, 'UNICODE_RANGE')
    bad_close, bad_empty, bad_ret = [], [], []
    for p in paths:
        focus(p)
        _pre, post = _split(p)
        calls = [e for e in post if e[0] == 'call']
        if not calls or not calls[0][1].endswith('.append') or calls[0][2] != [']']:
            bad_close.append(f'first effect after the loop: {calls[0][1] if calls else None}({calls[0][2] if calls else ""})')
            continue
        R = calls[0][1].rsplit('.', 1)[0]
        joined = f"''.join({R})"
        removed = [v for k, v in p.decisions.items() if k.startswith('loop@')]
        if len(removed) > 1:
            raise AnalysisError(f'{rule}: more than one loop-carried flag decides the epilogue: {[k for k in p.decisions if k.startswith("loop@")]}')
        rem = removed[0] if removed else False
        e1 = p.decisions.get(f"{joined} == '[]'")
        e2 = p.decisions.get(f"{joined} == '[^]'")
        isb = p.decisions.get('self.is_bytes')
        if rem and e1:
            want = ['[^' + (AR if isb else UR) + ']'] if isb is not None else None
        elif rem and e2:
            want = ['[' + (AR if isb else UR) + ']'] if isb is not None else None
        else:
            want = ['{' + joined + '}']
        if rem and (e1 is None or (e1 is False and e2 is None)):
            bad_empty.append('ranges removed but the emptied text is not examined')
        r = p.ret
        parts = list(r.parts) if isinstance(r, Tok) else ([r] if isinstance(r, str) else ['{' + _tag(r) + '}'])
        restrict = '{' + f'{WP}:WcParse._restrict_sequence()' + '}'
        pn, as_ = p.decisions.get('self.pathname'), p.decisions.get('self.after_start')
        want_r = bool(pn) or bool(as_)
        has_r = bool(parts) and parts[0] == restrict
        if has_r != want_r or (pn is None) or (pn is False and as_ is None):
            bad_ret.append(f'pathname={pn} after_start={as_}: restricted={has_r}')
        body = parts[1:] if has_r else parts
        if want is None or body != want:
            (bad_empty if rem and (e1 or e2) else bad_ret).append(f'removed={rem} []={e1} [^]={e2} bytes={isb}: class text {body}')

    def emit(key: str, ok: bool, expect: str, got: str, witness: str = '') -> None:
        if which is None or key in which:
            ctx.ob(rule, f'{WP}:WcParse._sequence/{key}', ok, site, expect, got, witness=witness)
    emit('closes', not bad_close, "the first effect after the scan loop is result.append(']')", 'as expected' if not bad_close else bad_close[0])
    emit('empty-class-replacements', not bad_empty, "removed ∧ text == '[]' → [^<full>]; removed ∧ text == '[^]' → [<full>] (full = byte or unicode range)",
         'as expected' if not bad_empty else sorted(set(bad_empty))[0][:200], "fnmatch.translate('[b-a]') must compile and match nothing; '[!b-a]' matches anything")
    emit('return', not bad_ret, '(_restrict_sequence() if pathname or after_start) + class text', 'as expected' if not bad_ret else sorted(set(bad_ret))[0][:200],
         "globmatch('a/b', 'a[/]b') / fnmatch('.a', '[.]a'): a bracket neither crosses a separator nor matches a leading dot")


# ---------------------------------------------------------------------------------------------- the scan loops
def loop_table(repo: Repo, module: str, cls: str) -> tuple[list[Path], str, list[Path]]:
    """Decision table of one (arbitrary) iteration of the scan loop of <cls>._sequence; prologue decisions are fixed to the
    plain case (first character is nothing special) -- whatever the loop body reads is forgotten on entry anyway.
    Returns the rows and the tag of the scan character."""
    def build() -> tuple[list[Path], str, list[Path]]:
        import ast as _ast
        from .c03 import sub_function
        from ..symeval import Obj, SymEval
        fi = repo.func(module, f'{cls}._sequence')
        body = fi.node.body
        params0 = [p for p in fi.params() if p != 'self']
        def scan_loop(x: Any) -> bool:
            return isinstance(x, _ast.While) or (isinstance(x, _ast.For) and isinstance(x.iter, _ast.Name) and params0 and x.iter.id == params0[0])
        cut = next((i for i, st in enumerate(body) if any(scan_loop(x) for x in _ast.walk(st))), None)
        if cut is None:
            raise AnalysisError(f'{cls}._sequence: scan loop not found')
        sub = sub_function(fi, body[:cut + 1], 'through-loop')
        preset = {f"next(i) == {c!r}": False for c in ('!', '^', '[', '-', ']')}
        ev = SymEval(repo, inline=False, max_paths=20000, explore_handlers=True)
        params = [p for p in fi.params() if p != 'self']
        paths = ev.tabulate(sub, {params[0]: Opaque('i')}, Obj((module, cls)), preset=preset)
        scan = None
        for p in paths:
            for k in p.decisions:
                if (k.startswith('loop@while:') or k.startswith('elem(')) and k.endswith(" == ']'"):
                    scan = k[:-len(" == ']'")]
        if scan is None:
            raise AnalysisError(f'{cls}._sequence: the loop is not controlled by a comparison of the scan character with `]`')
        return [p for p in paths if p.decisions.get(f"{scan} == ']'") is False], scan, paths
    return cached(repo, f'seqrules:loop:{module}:{cls}', build)


def prologue_reads(repo: Repo, module: str, cls: str) -> dict:
    """What <cls>._sequence consumes before its scan loop, as a function of the first two characters (each one of ! ^ [ - ] or `x`):
    (characters consumed net of put-backs, after which read a POSIX class is tried).  Read off the decision table of the prologue."""
    def build() -> dict:
        import itertools
        _ev, paths = tabulate_method(repo, module, f'{cls}._sequence', {}, [Opaque('i')], inline=False, loop_mode='skip', max_paths=4000,
                                     call_models={'re.escape': lambda fr, n, a, k: Opaque(f're.escape({_tag(a[0])})')})
        out: dict = {}
        alphabet = ('!', '^', '[', '-', ']', 'x')
        for c1, c2 in itertools.product(alphabet, alphabet):
            hits = set()
            for p in paths:
                focus(p)
                ok = True
                for k, v in p.decisions.items():
                    for tag, ch in (('next(i)', c1), ('next(i)#2', c2)):
                        if k.startswith(tag + ' == '):
                            import ast as _ast
                            if (_ast.literal_eval(k[len(tag) + 4:]) == ch) != v:
                                ok = False
                if not ok:
                    continue
                pre = []
                ahead = 0
                for e in p.events:
                    if e[0] == 'loop':
                        # a `while c != ..` loop examines the character already read; a `for c in i` loop reads its own
                        import ast as _ast2
                        ahead = 1 if isinstance(e[1], _ast2.While) else 0
                        break
                    pre.append(e)
                reads = sum(1 for e in pre if e[0] == 'call' and e[1] == 'next') - ahead
                backs = sum(e[2][0] for e in pre if e[0] == 'call' and e[1].endswith('.rewind') and e[2] and isinstance(e[2][0], int))
                posix_at = None
                n = 0
                for e in pre:
                    if e[0] == 'call' and e[1] == 'next':
                        n += 1
                    elif e[0] == 'call' and (e[1].endswith('._handle_posix') or e[1] == 'i.match'):
                        posix_at = n
                hits.add((reads - backs, posix_at))
            out[(c1, c2)] = hits
        return out
    return cached(repo, f'seqrules:prologue:{module}:{cls}', build)


def _char(p: Path, scan: str) -> Any:
    import ast as _ast
    for k, v in p.decisions.items():
        if v and k.startswith(scan + ' == '):
            return _ast.literal_eval(k[len(scan) + 4:])
    return None


def rule_scan_loops(ctx: Ctx, rule: str, which: set[str] | None = None) -> None:
    if which is None:
        ctx.text(rule, 'one iteration of the bracket scan loops (WcParse, WcSplit, _GlobSplit; decision tables, exception handlers '
                       'explored): an unescaped `/` aborts the bracket (StopIteration) when pathname (always in the glob splitter); a '
                       'backslash hands the iterator to _references with sequence=True and a PathNameException from there becomes '
                       'StopIteration; `[` tries a POSIX class; in the parser the set operators & | ~ are escaped, and the "last token was '
                       'a POSIX class" marker is cleared by every iteration that does not itself consume a class')
    repo = ctx.repo

    def emit(key: str, ok: bool, site: str, expect: str, got: str, witness: str = '') -> None:
        if which is None or key.rsplit('/', 1)[1] in which:
            ctx.ob(rule, key, ok, site, expect, got, witness=witness)
    for module, cls, has_pn in ((WP, 'WcParse', True), (WP, 'WcSplit', True), ('glob', '_GlobSplit', False)):
        fi = repo.func(module, f'{cls}._sequence')
        site = repo.loc(module, fi.node)
        rows, scan, every = loop_table(repo, module, cls)
        bad_s, bad_r, bad_c, bad_p = [], [], [], []
        seen = set()
        for p in rows:
            focus(p)
            c = _char(p, scan)
            seen.add(c)
            refs = [e for e in p.of('call') if e[1] == f'{module}:{cls}._references']
            if c == '/':
                pn = p.decisions.get('self.pathname') if has_pn else True
                # (a raise after the iteration has ended -- `for .. else: raise` on exhaustion -- is not this character's doing)
                in_iter = p.raised if not any(e[0] == 'iterend' for e in p.events) else None
                if (in_iter == 'StopIteration') != bool(pn) or (has_pn and pn is None):
                    bad_s.append(f'pathname={pn}: raises {p.raised}')
            elif c == '\\':
                exc = [e for e in p.events if e[0] == 'except']
                if exc:
                    hn = exc[0][3]
                    if hn == 'PathNameException' and p.raised != 'StopIteration':
                        bad_c.append(f'PathNameException handler ends with {p.raised}')
                    if hn == 'StopIteration' and cls != 'WcParse':
                        pass
                    continue
                if len(refs) != 1 or [_tag(a) for a in refs[0][2]] + [f'{k}={_tag(v)}' for k, v in refs[0][3].items()] not in (['i', 'True'], ['i', 'sequence=True']):
                    bad_r.append(f'_references({[_tag(a) for a in refs[0][2]] if refs else None})')
            elif c == '[':
                posix = [e for e in p.of('call') if e[1] in (f'{module}:{cls}._handle_posix', 'i.match')]
                if not posix:
                    bad_p.append('`[` inside a bracket is not offered to the POSIX-class matcher')
        handlers = {e[3] for p in every for e in p.events if e[0] == 'except'}
        for p in every:
            if any(e[0] == 'except' and e[3] == 'PathNameException' for e in p.events) and p.raised != 'StopIteration':
                bad_c.append(f'PathNameException handler ends with {p.raised}')
        if 'PathNameException' not in handlers:
            bad_c.append(f'no PathNameException handler around the escape (handlers: {sorted(handlers)})')
        if not {'/', '\\', '['} <= seen:
            raise AnalysisError(f'{cls}._sequence: the loop table does not distinguish `/`, `\\\\`, `[` (sees {sorted(map(str, seen))})')
        emit(f'{module}:{cls}._sequence/abort-on-slash', not bad_s, site, 'c == `/`' + (' and pathname' if has_pn else '') + ': raise StopIteration; otherwise go on',
             'as expected' if not bad_s else bad_s[0], "globmatch('a[/]b', 'a[/]b') -- `[` is literal when the bracket contains a separator")
        emit(f'{module}:{cls}._sequence/escape-in-bracket', not bad_r, site, 'c == `\\\\`: self._references(i, True)', 'as expected' if not bad_r else bad_r[0],
             "glob('[a\\\\/|b]', flags=SPLIT): the escaped separator ends the bracket, so the `|` splits")
        emit(f'{module}:{cls}._sequence/pathname-exception-converted', not bad_c, site, 'except PathNameException: raise StopIteration', 'as expected' if not bad_c else bad_c[0])
        emit(f'{module}:{cls}._sequence/posix-in-loop', not bad_p, site, 'c == `[`: a POSIX class is consumed as a unit', 'as expected' if not bad_p else bad_p[0],
             "translate('[a[:alpha:]|]', SPLIT) must not split inside the bracket")
    # ---- parser only: set operators, POSIX marker
    rows, scan, _every = loop_table(repo, WP, 'WcParse')
    fi = repo.func(WP, 'WcParse._sequence')
    site = repo.loc(WP, fi.node)
    so = repo.const(WP, 'SET_OPERATORS')
    bad_o, bad_m = [], []
    lp = None
    for p in rows:
        for e in p.of('iterend'):
            for k, v in e[3].items():
                if isinstance(v, Opaque) and v.tag.startswith(f'{WP}:WcParse._handle_posix('):
                    lp = k
    if lp is None:
        raise AnalysisError('WcParse._sequence: no loop variable holds the result of _handle_posix')
    n_ops = 0
    for p in rows:
        focus(p)
        c = _char(p, scan)
        if c in so:
            n_ops += 1
            vals = [e[2][0] for e in p.of('call') if e[1].endswith('.append') and e[2]] + \
                   [e[2][1] for e in p.of('call') if e[1] == f'{WP}:WcParse._sequence_range_check' and len(e[2]) > 1]
            want = ('\\', '{' + scan + '}')
            if not any(isinstance(v, Tok) and v.parts == want for v in vals):
                bad_o.append(f'{c!r}: emits {[ _tag(v)[:30] for v in vals]}')
        for e in p.of('iterend'):
            if e[2] != 'next':
                continue
            v = e[3].get(lp)
            entry = f'loop@while:{lp}'
            ok = v is False or (isinstance(v, Opaque) and v.tag.startswith(f'{WP}:WcParse._handle_posix(')) or \
                (isinstance(v, Opaque) and v.tag == entry and p.decisions.get(entry) is False)
            if not ok:
                bad_m.append(f'after an iteration on {c!r} the marker is {_tag(v)[:50]}')
    # a POSIX class ends a pending range: the iteration that consumed one hands over "no range end pending"
    bad_r = []
    n_r = 0
    for p in rows:
        focus(p)
        hp = [e for e in p.of('call') if e[1] == f'{WP}:WcParse._handle_posix' and len(e[2]) >= 3]
        if not hp:
            continue
        t = _tag(hp[0][2][2])
        if not t.startswith('loop@while:'):
            bad_r.append(f'_handle_posix is not given the pending range end of the loop but {t[:40]}')
            continue
        er = t[len('loop@while:'):]
        for e in p.of('iterend'):
            if e[2] != 'next':
                continue
            consumed = isinstance(e[3].get(lp), Opaque) and e[3][lp].tag.startswith(f'{WP}:WcParse._handle_posix(') and \
                p.decisions.get(e[3][lp].tag) is True
            if consumed:
                n_r += 1
                if e[3].get(er) != 0:
                    bad_r.append(f'after a POSIX class the pending range end is {_tag(e[3].get(er))[:40]}, not 0')
    # ... and so does a range check: the character that completed (or failed to complete) a range cannot end another one
    bad_c2 = []
    n_c2 = 0
    # the variable that holds the pending range end: what the loop hands to _handle_posix as its third argument
    er0 = None
    for p in rows:
        for e in p.of('call'):
            if e[1] == f'{WP}:WcParse._handle_posix' and len(e[2]) >= 3 and _tag(e[2][2]).startswith('loop@while:'):
                er0 = _tag(e[2][2])[len('loop@while:'):]
    for p in rows:
        focus(p)
        rc = [e for e in p.of('call') if e[1] == f'{WP}:WcParse._sequence_range_check']
        if not rc:
            continue
        ers = {er0} if er0 else set()
        for e in p.of('iterend'):
            if e[2] != 'next':
                continue
            # the variable that held the pending range end: the loop variable whose truth guarded the check
            for er in ers:
                if p.decisions.get(f'loop@while:{er}') is True and er in e[3]:
                    n_c2 += 1
                    if e[3][er] != 0:
                        bad_c2.append(f'after the range check on {_char(p, scan)!r} the pending range end is {_tag(e[3][er])[:40]}, not 0')
    emit(f'{WP}:WcParse._sequence/range-end-cleared-by-check', n_c2 >= 2 and not bad_c2, site,
         'the iteration that ran the range check leaves no range end pending', f'{n_c2} rows agree' if n_c2 >= 2 and not bad_c2 else (sorted(set(bad_c2))[0] if bad_c2 else f'{n_c2} rows'),
         "fnmatch('!', '[+--!]') must be True: after the range `+--` the `!` is an ordinary character")
    emit(f'{WP}:WcParse._sequence/range-end-cleared-by-posix', n_r >= 1 and not bad_r, site,
         'the iteration that consumed a POSIX class leaves no range end pending (a class cannot be a range end point)',
         f'{n_r} rows agree' if n_r and not bad_r else (sorted(set(bad_r))[0] if bad_r else 'no row consumes a POSIX class'),
         "fnmatch.translate('[a-[:alpha:][:digit:]]') must compile; fnmatch('b', '[a-[:alpha:]!]') must be True")
    # the internal capture marker `(?#)` is removed textually from finished regexes: a bracket must not be able to spell it
    marker_rows = [p for p in rows if _char(p, scan) == '#']
    okm = bool(marker_rows)
    for p in marker_rows:
        vals = [e[2][0] for e in p.of('call') if e[1].endswith('.append') and e[2]] + \
               [e[2][1] for e in p.of('call') if e[1] == f'{WP}:WcParse._sequence_range_check' and len(e[2]) > 1]
        okm = okm and any(isinstance(v, Tok) and v.parts == ('\\', '{' + scan + '}') for v in vals)
    emit(f'{WP}:WcParse._sequence/marker-not-spellable', okm, site, '`#` inside a bracket is emitted escaped, so `(?#)` cannot be formed by pattern text',
         f'{len(marker_rows)} rows escape it' if okm else 'no row treats `#` specially: the characters ( ? # ) are all emitted raw',
         "fnmatch.translate('[(?#)x]') must still contain the four characters ( ? # )")
    emit(f'{WP}:WcParse._sequence/set-operators-escaped', not bad_o and n_ops >= 3, site, 'c in & | ~: the character is emitted as `\\\\` + c', f'{n_ops} rows agree' if not bad_o else bad_o[0],
         "fnmatch('&', '[&&]') must not trigger Python's nested-set syntax")
    emit(f'{WP}:WcParse._sequence/posix-marker-cleared', not bad_m, site,
         'at the end of an iteration the marker is False unless this iteration consumed a POSIX class', 'as expected' if not bad_m else sorted(set(bad_m))[0],
         "fnmatch('c', '[[:digit:]a-f]') must be True: the hyphen after an ordinary character is a range")


# ---------------------------------------------------------------------------------------------- WcParse.root: one token
PARSER_VOCABULARY = ('set_after_start', 'set_start_dir', 'reset_dir_track', 'update_dir_state', '_restrict_sequence', '_restrict_extended_slash',
                     '_sequence_range_check', '_handle_posix', '_sequence', '_references', '_handle_dot', '_handle_star', 'clean_up_inverse',
                     'parse_extend', 'consume_path_sep', 'root', '_parse', 'parse')

def root_rows(repo: Repo) -> tuple[list[Path], str]:
    """Decision table of one iteration of the token loop of WcParse.root (the loop statement alone; `current` is the
    parameter, the iterator an unknown); returns rows and the tag of the current character."""
    def build() -> tuple[list[Path], str]:
        import ast as _ast
        from .c03 import sub_function
        from ..symeval import Obj, SymEval
        fi = repo.func(WP, 'WcParse.root')
        loops = [st for st in fi.node.body if isinstance(st, _ast.For)]
        if len(loops) != 1:
            raise AnalysisError('WcParse.root: expected one token loop')
        sub = sub_function(fi, [loops[0]], 'token-loop')
        # helper methods that exist today stay calls (they are the vocabulary of the rule); anything new is a refactoring helper and is followed
        known = {f'{WP}:WcParse.{n}' for n in PARSER_VOCABULARY}
        ev = SymEval(repo, inline=True, no_inline=known, max_paths=20000, explore_handlers=True,
                     call_models={'re.escape': lambda fr, n, a, k: Opaque(f're.escape({_tag(a[0])})')})
        params = [p for p in fi.params() if p != 'self']
        paths = ev.tabulate(sub, {params[0]: Opaque('pattern'), params[1]: Opaque('current')}, Obj((WP, 'WcParse'), {'sep': Opaque('self.sep')}))
        it = _tag(Opaque(_ast.unparse(loops[0].iter)))
        return paths, f'elem({it})'
    return cached(repo, 'seqrules:root', build)


def rule_root_loop(ctx: Ctx, rule: str, which: set[str] | None = None) -> None:
    if which is None:
        ctx.text(rule, 'one token of WcParse.root (decision table with effects in order, handlers explored): an unescaped `/` in path mode '
                       'arms the segment start, closes pending `!(…)` groups, emits separator + one-or-more, swallows further separators '
                       'and clears matchbase -- in that order; outside path mode it emits the bare separator; an escape emits what '
                       '_references returns, and when that started a directory the pending groups are closed, further separators '
                       'swallowed and matchbase cleared BEFORE the value is emitted; every token ends with update_dir_state()')
    repo = ctx.repo
    fi = repo.func(WP, 'WcParse.root')
    site = repo.loc(WP, fi.node)
    rows, C = root_rows(repo)
    one = repo.const(WP, '_ONE_OR_MORE')
    bad_s, bad_e, bad_u, bad_w = [], [], [], []
    n_s = n_e = 0

    def seq(p: Path) -> list[str]:
        out = []
        for e in p.events:
            if e[0] == 'call':
                nm = e[1].split(':')[-1]
                if nm.endswith('.append'):
                    out.append('append(' + ', '.join(_tag(a) for a in e[2]) + ')')
                elif nm.startswith('WcParse.'):
                    out.append(nm[len('WcParse.'):] + '(' + ', '.join(_tag(a) for a in e[2]) + ')')
            elif e[0] == 'store' and e[1].startswith('self.'):
                out.append(f'{e[1][5:]}={e[2]!r}' if isinstance(e[2], (bool, int, str, type(None))) else f'{e[1][5:]}={_tag(e[2])}')
        return out
    for p in rows:
        focus(p)
        d = p.decisions
        ch = None
        for k, v in d.items():
            if v and k.startswith(C + ' == '):
                import ast as _ast
                ch = _ast.literal_eval(k[len(C) + 4:])
        s_ = seq(p)
        if d.get('self.extend') and any(k.startswith(f'{WP}:WcParse.parse_extend(') and v for k, v in d.items()):
            continue
        if ch == '/':
            n_s += 1
            pn = d.get('self.pathname')
            want = ['set_start_dir()', 'clean_up_inverse(current)', f'append({{self.sep}}+{one})', 'consume_path_sep(i)', 'matchbase=False', 'update_dir_state()'] \
                if pn else ['append(self.sep)', 'update_dir_state()']
            if pn is None or s_ != want:
                bad_s.append(f'pathname={pn}: {s_}')
        elif ch == '\\':
            exc = [e for e in p.events if e[0] == 'except']
            if exc:
                continue
            n_e += 1
            ds = d.get('self.dir_start')
            val = f'{WP}:WcParse._references(i)'
            want = ['_references(i)'] + (['clean_up_inverse(current)', 'consume_path_sep(i)', 'matchbase=False'] if ds else []) + [f'append({val})', 'update_dir_state()']
            if ds is None or s_ != want:
                bad_e.append(f'dir_start={ds}: {s_}')
        if ch not in ('/', '\\'):
            w = [x for x in s_ if '=' in x.split('(')[0]]
            if w:
                bad_w.append(f'{ch!r}: {w}')
        if not p.raised and not any(e[0] == 'except' and e[3] == 'DotException' for e in p.events):
            if not s_ or s_[-1] != 'update_dir_state()':
                bad_u.append(f'{ch!r}: ends with {s_[-1:] }')
    if n_s < 2 or n_e < 2:
        raise AnalysisError(f'WcParse.root: separator rows {n_s}, escape rows {n_e}')

    def emit(key: str, ok: bool, expect: str, got: str, witness: str = '') -> None:
        if which is None or key in which:
            ctx.ob(rule, f'{WP}:WcParse.root/{key}', ok, site, expect, got, witness=witness)
    emit('separator-token', not bad_s, 'pathname: set_start_dir, clean_up_inverse(current), append(sep + one-or-more), consume_path_sep(i), matchbase=False; else append(sep)',
         f'{n_s} rows agree' if not bad_s else bad_s[0][:220], "globmatch('a//b', 'a//b') / globmatch('a/.b', 'a/*') / MATCHBASE 'a/b' on 'x/a/b'")
    emit('escape-token', not bad_e, '_references(i); if it started a directory: clean_up_inverse, consume_path_sep, matchbase=False; then append(value)',
         f'{n_e} rows agree' if not bad_e else bad_e[0][:220], r"FORCEWIN: globmatch('a\\b', '!(a)\\\\b', EXTGLOB) must be False -- the group is closed before the separator is emitted")
    emit('token-stores', not bad_w, 'no token other than a separator writes a parser attribute directly (matchbase is cleared by separators only; extmatchbase by no token)',
         'as expected' if not bad_w else bad_w[0][:200], "Path('x/b/c/a').match('c\\/a') must stay True: the implicit leading recursion of pathlib matching survives separators")
    emit('token-epilogue', not bad_u, 'every token ends with update_dir_state()', 'as expected' if not bad_u else bad_u[0][:160],
         "fnmatch('a.b', 'a?b')... the segment-start state must be advanced after every token")


def star_table(repo: Repo) -> list[Path]:
    """Decision table of WcParse._handle_star (handlers explored, the duplicate-star loop skipped)."""
    def build() -> list[Path]:
        from ..symeval import Obj, SymEval
        fi = repo.func(WP, 'WcParse._handle_star')
        ev = SymEval(repo, inline=False, explore_handlers=True, loop_mode='skip', max_paths=20000)
        params = [p for p in fi.params() if p != 'self']
        if len(params) != 2:
            raise AnalysisError('WcParse._handle_star: two parameters expected')
        return ev.tabulate(fi, {params[0]: Opaque('i'), params[1]: Opaque('current')}, Obj((WP, 'WcParse'), {}))
    return cached(repo, 'seqrules:star', build)


def rule_star_epilogue(ctx: Ctx, rule: str) -> None:
    """WcParse._handle_star after reset_dir_track(): a globstar always re-arms the segment start, also when it is folded into a
    preceding globstar; a plain star is appended and does not."""
    import ast as _ast
    from .c03 import sub_function
    from ..symeval import Obj, SymEval
    repo = ctx.repo
    fi = repo.func(WP, 'WcParse._handle_star')
    body = fi.node.body
    cut = max((i for i, st in enumerate(body) if isinstance(st, _ast.Expr) and isinstance(st.value, _ast.Call) and
               _ast.unparse(st.value.func) == 'self.reset_dir_track'), default=None)
    if cut is None:
        raise AnalysisError('_handle_star: reset_dir_track() before the emission not found')
    sub = sub_function(fi, body[cut + 1:], 'emission')
    gdiv = repo.const(WP, '_GLOBSTAR_DIV')
    ev = SymEval(repo, inline=True, no_inline={f'{WP}:WcParse.{n}' for n in PARSER_VOCABULARY}, max_paths=2000)
    params = [p for p in fi.params() if p != 'self']
    paths = ev.tabulate(sub, {params[0]: Opaque('i'), params[1]: Opaque('current')}, Obj((WP, 'WcParse'), {'sep': Opaque('self.sep')}))
    bad = []
    n_g = n_p = 0
    for p in paths:
        focus(p)
        star = any(e[0] == 'call' and e[1].endswith('.format') and repr(gdiv) in e[1] for e in p.events)
        calls = [e[1].split('.')[-1] for e in p.of('call') if e[1].startswith(f'{WP}:WcParse.')]
        if star:
            n_g += 1
            if not calls or calls[-1] != 'set_start_dir':
                bad.append(f'globstar path {sorted(k[:40] for k in p.decisions)} ends with {calls[-1:]}')
        else:
            n_p += 1
            if 'set_start_dir' in calls:
                bad.append('a plain star re-arms the segment start')
    if n_g < 2 or n_p < 1:
        raise AnalysisError(f'_handle_star: emission table has {n_g} globstar / {n_p} plain rows')
    ctx.ob(rule, f'{WP}:WcParse._handle_star/globstar-rearms-start', not bad, repo.loc(WP, fi.node),
           'every globstar emission path -- new or folded into the previous globstar -- ends with set_start_dir(); a plain star does not call it',
           f'{n_g}+{n_p} rows agree' if not bad else bad[0][:200], witness="globmatch('.hidden', '**/**/*', GLOBSTAR) must be False: the token after a folded `**/` still starts a segment")


def rule_split_points(ctx: Ctx, rule: str) -> None:
    """_GlobSplit.split, one character of the scan loop: where a pattern is cut into path parts."""
    import ast as _ast
    from .c03 import sub_function
    from ..symeval import Obj, SymEval
    repo = ctx.repo
    fi = repo.func('glob', '_GlobSplit.split')
    loops = [st for st in fi.node.body if isinstance(st, _ast.For)]
    if len(loops) < 1:
        raise AnalysisError('_GlobSplit.split: scan loop not found')
    sub = sub_function(fi, [loops[0]], 'scan')
    ev = SymEval(repo, inline=False, explore_handlers=True, max_paths=5000)
    paths = ev.tabulate(sub, {}, Obj(('glob', '_GlobSplit')))
    C = f'elem({_ast.unparse(loops[0].iter)})'
    bad = []
    seen = set()
    R = 'glob:_GlobSplit._references(i)'
    for p in paths:
        focus(p)
        d = p.decisions
        if d.get('self.extend') and any(k.startswith('glob:_GlobSplit.parse_extend(') and v for k, v in d.items()):
            continue
        ch = None
        for k, v in d.items():
            if v and k.startswith(C + ' == '):
                ch = _ast.literal_eval(k[len(C) + 4:])
        cuts = [e[2][0] for e in p.of('call') if e[1].endswith('.append') and e[2]]
        shape = [(_tag(c[0]), c[1]) if isinstance(c, tuple) and len(c) == 2 else _tag(c) for c in cuts]
        exc = any(e[0] == 'except' for e in p.events)
        if ch == '/':
            seen.add('/')
            if shape != [('(i.index-1)', 0)]:
                bad.append(f'`/`: cuts {shape}')
        elif ch == '\\':
            seen.add('\\')
            if exc:
                if shape:
                    bad.append('escape that raised still cuts')
                continue
            ba = d.get('self.bslash_abort')
            want = (bool(ba) and d.get(f"{R} == '\\\\'") is True) or d.get(f"{R} == '/'") is True
            if (shape == [('(i.index-2)', 1)]) != want or (not want and shape) or ba is None:
                bad.append(f"escape: bslash_abort={ba} returned-backslash={d.get(R + chr(32) + '==' + chr(32) + repr(chr(92)))} returned-slash={d.get(R + ' == ' + repr('/'))}: cuts {shape}")
        else:
            if shape:
                bad.append(f'{ch!r}: cuts {shape}')
    if seen != {'/', '\\'}:
        raise AnalysisError(f'_GlobSplit.split: scan table does not distinguish `/` and `\\\\` ({sorted(seen)})')
    ctx.ob(rule, 'glob:_GlobSplit.split/split-points', not bad, repo.loc('glob', fi.node),
           'a part ends at an unescaped `/`, and at an escaped character only when _references reports `/`, or `\\\\` while backslash is a separator',
           f'{len(paths)} rows agree' if not bad else sorted(set(bad))[0][:220], witness=r"glob(r'd/a\\b') on POSIX must look for the file named `a\b` inside d, not walk d/a/b")
