"""WcParse._sequence (bracket expressions): prologue and epilogue, on the decision table with the scan loop skipped."""
from __future__ import annotations

import re
from typing import Any

from ..model import AnalysisError, Repo
from ..report import Ctx
from ..symeval import MList, Opaque, Path, Tok, _tag, focus
from .common import cached, tabulate_method

WP = '_wcparse'


def table(repo: Repo) -> list[Path]:
    def build() -> list[Path]:
        def esc(fr: Any, n: Any, a: list, k: dict) -> Any:
            v = a[0]
            if isinstance(v, str):
                return re.escape(v)
            if isinstance(v, Opaque):
                pre = f'{v.tag} == '
                for atom, d in fr.ev.decisions.items():
                    if d and atom.startswith(pre):
                        import ast as _ast
                        return re.escape(_ast.literal_eval(atom[len(pre):]))
            return Opaque(f're.escape({_tag(v)})')
        _ev, paths = tabulate_method(repo, WP, 'WcParse._sequence', {}, [Opaque('i')], inline=False, loop_mode='skip',
                                     call_models={'re.escape': esc}, max_paths=4000)
        return paths
    return cached(repo, 'seqrules:table', build)


def _split(p: Path) -> tuple[list, list]:
    at = next((i for i, e in enumerate(p.events) if e[0] == 'loop'), None)
    if at is None:
        raise AnalysisError('WcParse._sequence: a path without the scan loop')
    return p.events[:at], p.events[at + 1:]


def _first_chars(p: Path) -> tuple[Any, Any]:
    """(first character constant or None, second ...) as decided on the path for the 1st/2nd read."""
    out = []
    for tag in ('next(i)', 'next(i)#2'):
        c = None
        for k, v in p.decisions.items():
            if v and k.startswith(tag + ' == '):
                import ast as _ast
                c = _ast.literal_eval(k[len(tag) + 4:])
        out.append(c)
    return out[0], out[1]


def rule_sequence_prologue(ctx: Ctx, rule: str, which: set[str] | None = None) -> None:
    if which is None:
        ctx.text(rule, 'WcParse._sequence before the scan loop (decision table, the characters are the values read from the iterator): '
                       'the result list starts as [`[`]; `^` is appended first and exactly when the first character is `!` or `^`; a '
                       'following `[` is offered to the POSIX-class handler and escaped if it is not one, a following `-` or `]` is taken '
                       'literally (escaped); in each of these cases one more character is read')
    repo = ctx.repo
    fi = repo.func(WP, 'WcParse._sequence')
    site = repo.loc(WP, fi.node)
    paths = table(repo)
    bad_open, bad_neg, bad_lead = [], [], []
    n = 0
    for p in paths:
        focus(p)
        pre, _post = _split(p)
        apps = [e for e in pre if e[0] == 'call' and e[1].endswith('.append')]
        reads = [e for e in pre if e[0] == 'call' and e[1] == 'next']
        lists = {e[1].rsplit('.', 1)[0] for e in apps}
        n += 1
        c1, c2 = _first_chars(p)
        negated = c1 in ('!', '^')
        lead = c2 if negated else c1
        vals = [e[2][0] if e[2] else None for e in apps]
        if negated != (bool(vals) and vals[0] == '^') or vals.count('^') != (1 if negated else 0):
            bad_neg.append(f'first char {c1!r}: appends {vals}')
        rest = vals[1:] if negated else vals
        posix = [e for e in pre if e[0] == 'call' and e[1] == f'{WP}:WcParse._handle_posix']
        if lead == '[':
            was_class = next((v for k, v in p.decisions.items() if k.startswith(f'{WP}:WcParse._handle_posix(')), None)
            ok = len(posix) == 1 and was_class is not None and rest == ([] if was_class else ['\\['])
            if ok:
                a = posix[0][2]
                ok = len(a) == 3 and a[0] == Opaque('i') and isinstance(a[1], MList) and a[2] == 0
        elif lead in ('-', ']'):
            ok = rest == ['\\' + lead] and not posix
        else:
            ok = rest == [] and not posix
        want_reads = 1 + (1 if negated else 0) + (1 if lead in ('[', '-', ']') else 0)
        if not ok or len(reads) != want_reads:
            bad_lead.append(f'chars {c1!r},{c2!r}: appends {rest}, {len(posix)} posix call(s), {len(reads)} reads')
        if len(lists) > 1:
            bad_open.append(f'appends go to {sorted(lists)}')
    if n < 8:
        raise AnalysisError(f'{rule}: WcParse._sequence table has only {n} rows')
    # the list itself: what the closing append receives must have been created as ['[']
    for p in paths:
        _pre, post = _split(p)
        close = [e for e in post if e[0] == 'call' and e[1].endswith('.append')]
        if not close:
            bad_open.append('no append after the loop')
            break
    for p in paths:
        _pre, post = _split(p)
        close = [e for e in post if e[0] == 'call' and e[1].endswith('.append')]
        if close:
            R = close[0][1].rsplit('.', 1)[0]
            made = [e for e in p.of('new') if e[1] == R]
            if len(made) != 1 or made[0][2] != ('[',):
                bad_open.append(f'the list closed with `]` was created as {made[0][2] if made else None}')
                break
    def emit(key: str, ok: bool, expect: str, got: str, witness: str = '') -> None:
        if which is None or key in which:
            ctx.ob(rule, f'{WP}:WcParse._sequence/{key}', ok, site, expect, got, witness=witness)
    emit('opens', not bad_open, "result = ['['] and every emission goes to that list", 'as expected' if not bad_open else bad_open[0])
    emit('negation', not bad_neg, "`^` appended first iff the first character is `!` or `^`", f'{n} rows agree' if not bad_neg else bad_neg[0],
         "fnmatch('b', '[!a]') and fnmatch('b', '[^a]') must both be True")
    emit('leading-literals', not bad_lead, 'leading `[` (unless a POSIX class), `-`, `]` appended escaped, one more character read',
         f'{n} rows agree' if not bad_lead else bad_lead[0], "fnmatch(']', '[]]') and fnmatch('-', '[-a]') must be True")


def rule_sequence_epilogue(ctx: Ctx, rule: str, which: set[str] | None = None) -> None:
    if which is None:
        ctx.text(rule, 'WcParse._sequence after the scan loop (decision table): `]` is appended to the result list first; when ranges were '
                       'removed and the text is `[]` the impossible class [^<full range>] replaces it, when it is `[^]` the full class '
                       '[<full range>] does (byte or unicode range after is_bytes), otherwise the joined text stands; the result is '
                       'prefixed with _restrict_sequence() exactly when pathname or after_start')
    repo = ctx.repo
    fi = repo.func(WP, 'WcParse._sequence')
    site = repo.loc(WP, fi.node)
    paths = table(repo)
    AR, UR = repo.const(WP, 'ASCII_RANGE'), repo.const(WP, 'UNICODE_RANGE')
    bad_close, bad_empty, bad_ret = [], [], []
    for p in paths:
        focus(p)
        _pre, post = _split(p)
        calls = [e for e in post if e[0] == 'call']
        if not calls or not calls[0][1].endswith('.append') or calls[0][2] != [']']:
            bad_close.append(f'first effect after the loop: {calls[0][1] if calls else None}({calls[0][2] if calls else ""})')
            continue
        R = calls[0][1].rsplit('.', 1)[0]
        joined = f"''.join({R})"
        removed = [v for k, v in p.decisions.items() if k.startswith('loop@')]
        if len(removed) > 1:
            raise AnalysisError(f'{rule}: more than one loop-carried flag decides the epilogue: {[k for k in p.decisions if k.startswith("loop@")]}')
        rem = removed[0] if removed else False
        e1 = p.decisions.get(f"{joined} == '[]'")
        e2 = p.decisions.get(f"{joined} == '[^]'")
        isb = p.decisions.get('self.is_bytes')
        if rem and e1:
            want = ['[^' + (AR if isb else UR) + ']'] if isb is not None else None
        elif rem and e2:
            want = ['[' + (AR if isb else UR) + ']'] if isb is not None else None
        else:
            want = ['{' + joined + '}']
        if rem and (e1 is None or (e1 is False and e2 is None)):
            bad_empty.append('ranges removed but the emptied text is not examined')
        r = p.ret
        parts = list(r.parts) if isinstance(r, Tok) else ([r] if isinstance(r, str) else ['{' + _tag(r) + '}'])
        restrict = '{' + f'{WP}:WcParse._restrict_sequence()' + '}'
        pn, as_ = p.decisions.get('self.pathname'), p.decisions.get('self.after_start')
        want_r = bool(pn) or bool(as_)
        has_r = bool(parts) and parts[0] == restrict
        if has_r != want_r or (pn is None) or (pn is False and as_ is None):
            bad_ret.append(f'pathname={pn} after_start={as_}: restricted={has_r}')
        body = parts[1:] if has_r else parts
        if want is None or body != want:
            (bad_empty if rem and (e1 or e2) else bad_ret).append(f'removed={rem} []={e1} [^]={e2} bytes={isb}: class text {body}')

    def emit(key: str, ok: bool, expect: str, got: str, witness: str = '') -> None:
        if which is None or key in which:
            ctx.ob(rule, f'{WP}:WcParse._sequence/{key}', ok, site, expect, got, witness=witness)
    emit('closes', not bad_close, "the first effect after the scan loop is result.append(']')", 'as expected' if not bad_close else bad_close[0])
    emit('empty-class-replacements', not bad_empty, "removed ∧ text == '[]' → [^<full>]; removed ∧ text == '[^]' → [<full>] (full = byte or unicode range)",
         'as expected' if not bad_empty else sorted(set(bad_empty))[0][:200], "fnmatch.translate('[b-a]') must compile and match nothing; '[!b-a]' matches anything")
    emit('return', not bad_ret, '(_restrict_sequence() if pathname or after_start) + class text', 'as expected' if not bad_ret else sorted(set(bad_ret))[0][:200],
         "globmatch('a/b', 'a[/]b') / fnmatch('.a', '[.]a'): a bracket neither crosses a separator nor matches a leading dot")
