"""translate / compile_pattern: the expansion pipeline, decided on decision tables with call events.

Two tables per function, both evaluated from the function entry so every value is named by where it comes from (the
parameters), never by the local that happens to hold it:

  T1  "through the loop": the statements up to and including the expansion loop, the loop bodies run once from an arbitrary
      iteration;
  T2  "tail": the whole function with the loops skipped (what they bind is forgotten, the lists they fill may hold anything).

Roles are read off the returned pair: P = first component (inclusion list), N = second (exclusion list).
"""
from __future__ import annotations

import ast
from typing import Any

from ..model import AnalysisError, Repo
from ..report import Ctx
from ..symeval import BV, MList, MSet, Opaque, Path, SymEval, _tag, focus
from .common import cached, decided_bits
from .c03 import sub_function

WP = '_wcparse'
FUNCS = ('translate', 'compile_pattern')
# callees that are the vocabulary of these rules stay calls; any other package function met on the way (a helper somebody
# extracted) is followed, so that the tables do not depend on how the code is cut into functions
VOCAB = {f'{WP}:{n}' for n in ('translate', 'compile_pattern', 'expand', 'iter_patterns', 'is_negative', 'is_unix_style', '_compile',
                               'expand_braces', 'expand_tilde', 'split', 'get_case', 'is_case_sensitive')} | {'util:norm_pattern'}


def _args() -> dict[str, Any]:
    return {'flags': BV('flags'), 'patterns': Opaque('patterns'), 'limit': Opaque('limit'), 'exclude': Opaque('exclude')}


def tables(repo: Repo, fn: str) -> tuple[list[Path], list[Path]]:
    def build() -> tuple[list[Path], list[Path]]:
        fi = repo.func(WP, fn)
        body = fi.node.body
        cut = next((i for i, st in enumerate(body) if any(isinstance(x, ast.For) for x in ast.walk(st))), None)
        if cut is None:
            raise AnalysisError(f'{fn}: expansion loop not found')
        ev1 = SymEval(repo, inline=True, no_inline=VOCAB, max_paths=20000)
        t1 = ev1.tabulate(sub_function(fi, body[:cut + 1], 'through-loop'), _args())
        ev2 = SymEval(repo, inline=True, no_inline=VOCAB, max_paths=20000, loop_mode='skip')
        t2 = ev2.tabulate(fi, _args())
        return t1, t2
    return cached(repo, f'pipeline:{fn}', build)


def truth_in(p: Path, v: Any) -> bool | None:
    """Truth value the path decided for a list-like value (None: never tested)."""
    if isinstance(v, (MList, MSet)):
        return p.decisions.get(f'nonempty({v.ident})')
    if isinstance(v, Opaque):
        base = v.tag.rstrip("'")
        for k in (v.tag, base, base + "'"):
            if k in p.decisions:
                return p.decisions[k]
        return None
    return bool(v)


def _recv(name: str, v: Any) -> bool:
    """Is the call event `name` a method call on the value v?"""
    base = v.ident if isinstance(v, (MList, MSet)) else _tag(v).rstrip("'")
    recv = name.rsplit('.', 1)[0].rstrip("'")
    return recv == base


def compile_events(p: Path, fn: str) -> list[tuple[Any, Any, tuple, int]]:
    """(pattern argument, flags argument, loop context, event index) of every compile step on the path."""
    out = []
    for i, e in enumerate(p.events):
        if e[0] != 'call':
            continue
        if fn == 'translate' and e[1] == f'{WP}:WcParse':
            pass
        elif fn == 'compile_pattern' and e[1] == f'{WP}:_compile':
            pass
        else:
            continue
        a, k = e[2], e[3]
        pat = a[0] if a else k.get('pattern')
        fl = a[1] if len(a) > 1 else k.get('flags')
        out.append((pat, fl, e[5], i))
    return out


def compiled_value_tag(fn: str, pat: Any, fl: Any) -> str:
    inner = f'{_tag(pat)}, {_tag(fl)}'
    return f'{WP}:WcParse({inner}).parse()' if fn == 'translate' else f'{WP}:_compile({inner})'


def _appends(p: Path) -> list[tuple[str, Any, int]]:
    return [(e[1], e[2][0] if e[2] else None, i) for i, e in enumerate(p.events) if e[0] == 'call' and e[1].endswith('.append')]


def _filtered(ctx: Ctx, which: set[str] | None) -> Any:
    def ob(rule: str, key: str, *a: Any, **k: Any) -> bool:
        if which is None or key.rsplit('/', 1)[1] in which:
            return ctx.ob(rule, key, *a, **k)
        return True
    return ob


def rule_pipeline_loop(ctx: Ctx, rule: str, which: set[str] | None = None, text: bool = True) -> None:
    ob = _filtered(ctx, which)
    if text:
      ctx.text(rule, 'expansion loop of translate / compile_pattern (table T1, argument values): every pattern is normalised with '
                   'util.norm_pattern(p, not is_unix, RAWCHARS bit) and it is the normalised text that is expanded; an expanded pattern '
                   'is compiled only on a path that found it absent from the seen-set and added it; is_negative(x, flags) routes x[1:] to '
                   'the exclusion list and x to the inclusion list; nothing else is compiled inside the loop')
    repo = ctx.repo
    RAW = repo.const(WP, 'RAWCHARS')
    for fn in FUNCS:
        fi = repo.func(WP, fn)
        site = repo.loc(WP, fi.node)
        t1, t2 = tables(repo, fn)
        # roles from the tail table's return value
        rets = [p.ret for p in t2 if not p.raised]
        if not rets or not all(isinstance(r, tuple) and len(r) == 2 for r in rets):
            ob(rule, f'{WP}:{fn}/returns-pair', False, site, 'returns (inclusions, exclusions)', str(rets[:1]))
            continue
        bad_norm, bad_seen, bad_route = [], [], []
        n_norm = n_comp = 0
        for p in t1:
            focus(p)
            unix_atoms = [k for k in p.decisions if k.startswith(f'{WP}:is_unix_style(')]
            for e in p.calls_to(f'{WP}:expand'):
                n_norm += 1
                a, k = e[1], e[2]
                pat = a[0] if a else k.get('pattern')
                tag = _tag(pat)
                if not tag.startswith(f'util:norm_pattern(elem({WP}:iter_patterns(patterns))'):
                    bad_norm.append(f'expand({tag[:70]})')
            for e in p.calls_to('util:norm_pattern'):
                a, k = e[1], e[2]
                is_win = a[1] if len(a) > 1 else k.get('is_unix')
                raw = a[2] if len(a) > 2 else k.get('is_raw_chars')
                if len(unix_atoms) != 1 or is_win is not (not p.decisions[unix_atoms[0]]):
                    bad_norm.append(f'norm_pattern second argument {is_win!r} with is_unix={[p.decisions[u] for u in unix_atoms]}')
                rawbit = p.decisions.get(f'bit:flags:{RAW:x}')
                if not (raw == Opaque(f'bit:flags:{RAW:x}') or (isinstance(raw, bool) and raw is rawbit)):
                    bad_norm.append(f'norm_pattern third argument {raw!r}')
            comps = compile_events(p, fn)
            apps = _appends(p)
            for pat, fl, lctx, idx in comps:
                if not lctx:
                    continue  # the exclude= recursion is not a compile step; defaults belong to the tail
                n_comp += 1
                ptag = _tag(pat)
                x = ptag[:-4] if ptag.endswith('[1:]') else ptag
                if not x.startswith(f'elem({WP}:expand('):
                    bad_route.append(f'compiles {ptag[:60]}')
                    continue
                seen_atoms = [(k, v) for k, v in p.decisions.items() if k.startswith(x + ' in set#')]
                adds = [i for i, e in enumerate(p.events) if e[0] == 'call' and e[1].startswith('set#') and e[1].endswith('.add') and
                        e[2] and _tag(e[2][0]) == x]
                if len(seen_atoms) != 1 or seen_atoms[0][1] is not False or not adds or adds[0] > idx or \
                        not adds or p.events[adds[0]][1].split('.')[0] != seen_atoms[0][0].rsplit(' in ', 1)[1]:
                    bad_seen.append(f'{ptag[:50]}: membership {seen_atoms[:1]}, {len(adds)} add(s)')
                neg = [v for k, v in p.decisions.items() if k.startswith(f'{WP}:is_negative({x}, ')]
                want_excl = ptag.endswith('[1:]')
                if len(neg) != 1 or neg[0] is not want_excl:
                    bad_route.append(f'{ptag[:40]} compiled with is_negative={neg}')
                # which list receives it
                val = compiled_value_tag(fn, pat, fl)
                dest = [nm for nm, v, i in apps if i > idx and v is not None and _tag(v) == val]
                if len(dest) != 1:
                    bad_route.append(f'{ptag[:40]}: result appended {len(dest)} times')
                    continue
                ctx.__dict__.setdefault('_pipeline_dest', {}).setdefault(fn, {}).setdefault(want_excl, set()).add(dest[0])
        dests = ctx.__dict__.get('_pipeline_dest', {}).get(fn, {})
        if len(dests.get(False, ())) != 1:
            bad_route.append(f'inclusions appended to {sorted(dests.get(False, ()))}')
        both = dests.get(False, set()) & dests.get(True, set())
        if both:
            bad_route.append('inclusions and exclusions share a list')
        ctx.count(f'{rule}:expand calls', n_norm)
        ctx.count(f'{rule}:compile steps in loop', n_comp)
        if n_norm < 4 or n_comp < 4:
            raise AnalysisError(f'{rule}: {fn}: only {n_norm} expand / {n_comp} compile events in the loop table -- the rule lost its subject')
        ob(rule, f'{WP}:{fn}/expand-argument', not bad_norm, site,
               'expand(util.norm_pattern(<each pattern>, not is_unix, RAWCHARS?), flags, budget)', 'as expected' if not bad_norm else '; '.join(sorted(set(bad_norm))[:2]),
               witness=r"fnmatch('A', r'\x41', RAWCHARS): the decoded text is what gets expanded and compiled")
        ob(rule, f'{WP}:{fn}/seen-set', not bad_seen, site,
               'a pattern is compiled only after `x in seen` was false and seen.add(x)', 'as expected' if not bad_seen else '; '.join(sorted(set(bad_seen))[:2]),
               witness="translate('a|a', SPLIT) yields one pattern")
        ob(rule, f'{WP}:{fn}/routing', not bad_route, site,
               'is_negative(x, flags): x[1:] -> exclusions, else x -> inclusions (two distinct lists)', 'as expected' if not bad_route else '; '.join(sorted(set(bad_route))[:2]),
               witness="fnmatch('b', '!a', NEGATE): the `!` must be stripped and the rest compiled as an exclusion")


def rule_pipeline_tail(ctx: Ctx, rule: str, which: set[str] | None = None, text: bool = True) -> None:
    ob = _filtered(ctx, which)
    if text:
      ctx.text(rule, 'tail of translate / compile_pattern (table T2; P, N = the returned lists): the default `**` (bytes iff N[0] is bytes) '
                   'is compiled with flags | GLOBSTAR-iff-PATHNAME and appended to P exactly when N is non-empty, P is empty and '
                   'NEGATEALL is set; afterwards the platform NODIR pattern (str/bytes after P[0], unix/windows after is_unix_style) is '
                   'appended to N exactly when P is non-empty (default included) and NODIR is set')
    repo = ctx.repo
    NA, PN, GS, ND = (repo.const(WP, k) for k in ('NEGATEALL', 'PATHNAME', 'GLOBSTAR', 'NODIR'))
    env = repo.mod(WP).env
    for fn in FUNCS:
        fi = repo.func(WP, fn)
        site = repo.loc(WP, fi.node)
        _t1, t2 = tables(repo, fn)
        nodir_tab = {(True, False): env['_NO_NIX_DIR'][0], (True, True): env['_NO_NIX_DIR'][1], (False, False): env['_NO_WIN_DIR'][0],
                     (False, True): env['_NO_WIN_DIR'][1]} if fn == 'translate' else \
                    {(True, False): env['RE_NO_DIR'][0], (True, True): env['RE_NO_DIR'][1], (False, False): env['RE_WIN_NO_DIR'][0],
                     (False, True): env['RE_WIN_NO_DIR'][1]}
        ub = {repr(repo.mod('util').env.get('UNICODE')): False, repr(repo.mod('util').env.get('BYTES')): True}
        if set(ub) != {'0', '1'}:
            raise AnalysisError('util.UNICODE / util.BYTES are not the indices 0 / 1')
        bad_def, bad_nd, bad_ret = [], [], []
        rows = 0
        for p in t2:
            if p.raised:
                continue
            focus(p)
            rows += 1
            if not (isinstance(p.ret, tuple) and len(p.ret) == 2):
                bad_ret.append(repr(p.ret)[:60])
                continue
            P, N = p.ret
            loop_at = next((i for i, e in enumerate(p.events) if e[0] == 'loop'), None)
            if loop_at is None:
                bad_ret.append('no loop on the path')
                continue
            after = [(i, e) for i, e in enumerate(p.events) if i > loop_at]
            nP, nN = truth_in(p, P), truth_in(p, N)
            eff = p.locals.get('flags')  # the flag word the tail works with (after no_negate_flags / masking)
            if not isinstance(eff, BV):
                bad_ret.append(f'flags is {eff!r} at the end')
                continue
            dec = {k: (bool(eff.val & b) if eff.known & b else None) for k, b in (('NA', NA), ('PN', PN), ('ND', ND))}
            comps = [c for c in compile_events(p, fn) if c[3] > loop_at]
            # ---- default
            want_default = bool(nN) and nP is False and bool(dec['NA'])
            if nN is None or nP is None:
                # a path that never tested one of the lists cannot have decided the default correctly unless another test settled it
                want_default = False if (nN is False or nP is True or dec['NA'] is False) else want_default
            if len(comps) != (1 if want_default else 0):
                bad_def.append(f'N={nN} P={nP} NEGATEALL={dec["NA"]}: {len(comps)} default compile(s)')
            default_idx = None
            if comps and want_default:
                pat, fl, _c, idx = comps[0]
                default_idx = idx
                isb = [v for k, v in p.decisions.items() if k.startswith('isinstance(') and k.endswith(', bytes)') and
                       (_tag(N).rstrip("'") + '[0]' in k or (isinstance(N, MList) and N.ident + '[0]' in k))]
                if len(isb) != 1 or pat != (b'**' if isb[0] else '**'):
                    bad_def.append(f'default pattern {pat!r} with N[0] bytes={isb}')
                d = decided_bits(p, 'flags')
                okf = isinstance(fl, BV) and fl.origin == 'flags' and dec['PN'] is not None and \
                    (fl.must_set(GS) if dec['PN'] else not (fl.known & fl.val & GS & ~decided_bits(p, 'flags')))
                # apart from GLOBSTAR the flags are the ones the loop compiled inclusions with
                if not okf:
                    bad_def.append(f'default flags {_tag(fl)} with PATHNAME={dec["PN"]}')
                val = compiled_value_tag(fn, pat, fl)
                dest = [e for i, e in after if e[0] == 'call' and e[1].endswith('.append') and e[2] and _tag(e[2][0]) == val and i > idx]
                if len(dest) != 1 or not _recv(dest[0][1], P):
                    bad_def.append('default not appended to the inclusion list')
            # ---- NODIR
            p_nonempty = bool(nP) or (want_default and bool(comps))
            want_nd = p_nonempty and bool(dec['ND'])
            nd_apps = [(i, e) for i, e in after if e[0] == 'call' and e[1].endswith('.append') and _recv(e[1], N)]
            if dec['ND'] is None and nd_apps:
                bad_nd.append('NODIR pattern appended without testing NODIR')
            if dec['ND'] is None and p_nonempty:
                bad_nd.append('the inclusion list is non-empty (default included) but NODIR was not consulted')
            if len(nd_apps) != (1 if want_nd else 0):
                bad_nd.append(f'P non-empty={p_nonempty} NODIR={dec["ND"]}: {len(nd_apps)} append(s) to the exclusion list')
            elif nd_apps:
                i, e = nd_apps[0]
                if default_idx is not None and i < default_idx:
                    bad_nd.append('NODIR pattern decided before the NEGATEALL default')
                unix = [v for k, v in p.decisions.items() if k.startswith(f'{WP}:is_unix_style(')]
                isb = [v for k, v in p.decisions.items() if k.startswith('isinstance(') and k.endswith(', bytes)') and
                       (f'{P.ident}[0]' in k if isinstance(P, MList) else _tag(P) + '[0]' in k)]
                if want_default and not isb:
                    # P[0] is the default just appended: bytes-ness follows the default pattern
                    isb = [isinstance(comps[0][0], bytes)]
                if len(unix) != 1 or len(isb) != 1 or e[2][0] != nodir_tab[(unix[0], isb[0])]:
                    bad_nd.append(f'unix={unix} bytes={isb}: appended {str(e[2][0])[:40]}')
        if rows < 16:
            raise AnalysisError(f'{rule}: {fn}: tail table has only {rows} rows')
        ctx.count(f'{rule}:tail rows', rows)
        ob(rule, f'{WP}:{fn}/returns-pair', not bad_ret, site, 'returns (inclusions, exclusions)', 'ok' if not bad_ret else bad_ret[0])
        ob(rule, f'{WP}:{fn}/negateall-default', not bad_def, site,
               "N and not P and NEGATEALL: P ← compile('**' | b'**', flags | (GLOBSTAR if PATHNAME))", 'as expected' if not bad_def else '; '.join(sorted(set(bad_def))[:2]),
               witness="fnmatch('b', '!a', flags=NEGATE|NEGATEALL) True; without NEGATEALL False")
        ob(rule, f'{WP}:{fn}/nodir-tail', not bad_nd, site,
               'P (after the default) and NODIR: N ← the NODIR pattern of the platform and string type', 'as expected' if not bad_nd else '; '.join(sorted(set(bad_nd))[:2]),
               witness="globfilter(['a/'], '!b', flags=NEGATE|NEGATEALL|NODIR) == []: the default inclusion must be seen by the NODIR step")


def rule_translate_mask(ctx: Ctx, rule: str) -> None:
    ctx.text(rule, 'translate masks its flags: every WcParse built by translate receives flags with _TRANSLATE set and every bit outside '
                   'FLAG_MASK | _TRANSLATE cleared; compile_pattern hands the flags on unmasked (compile() masks at _compile)')
    repo = ctx.repo
    TR, MASK = repo.const(WP, '_TRANSLATE'), repo.const(WP, 'FLAG_MASK')
    from ..symeval import ALL
    t1, t2 = tables(repo, 'translate')
    bad = []
    n = 0
    for p in list(t1) + list(t2):
        focus(p)
        for pat, fl, lctx, idx in compile_events(p, 'translate'):
            n += 1
            if not isinstance(fl, BV):
                bad.append(f'flags {fl!r}')
                continue
            if not fl.must_set(TR):
                bad.append('_TRANSLATE not set')
            outside = ALL & ~(MASK | TR)
            if not fl.must_clear(outside):
                bad.append(f'bits outside FLAG_MASK pass through: {(outside & ~fl.known):#x}')
    if n < 4:
        raise AnalysisError(f'{rule}: only {n} WcParse constructions seen in translate')
    ctx.ob(rule, f'{WP}:translate/adds-_TRANSLATE-and-masks', not bad, repo.loc(WP, repo.func(WP, 'translate').node),
           'flags = (flags | _TRANSLATE) & FLAG_MASK before any pattern is parsed', f'{n} constructions agree' if not bad else '; '.join(sorted(set(bad))[:2]))


def _strip_compile(s: str) -> str:
    """`_wcparse:WcParse(X).parse()` and `_wcparse:_compile(X)` -> `K(X)` (balanced parentheses)."""
    out = s.replace(f'{WP}:_compile(', 'K(')
    head = f'{WP}:WcParse('
    while head in out:
        i = out.index(head)
        j = i + len(head)
        depth = 1
        while j < len(out) and depth:
            depth += {'(': 1, ')': -1}.get(out[j], 0)
            j += 1
        inner = out[i + len(head):j - 1]
        rest = out[j:]
        if rest.startswith('.parse()'):
            rest = rest[len('.parse()'):]
        elif rest.startswith('.parse'):
            rest = rest[len('.parse'):]
        out = out[:i] + 'K(' + inner + ')' + rest
    return out


def _signature(repo: Repo, fn: str) -> tuple[set, int]:
    """Normalised (decisions, effects) of every path of both tables, with translate's masking statement made the identity."""
    from ..symeval import ALL
    env = repo.mod(WP).env
    saved = {k: env[k] for k in ('_TRANSLATE', 'FLAG_MASK')}
    env['_TRANSLATE'], env['FLAG_MASK'] = 0, ALL
    try:
        fi = repo.func(WP, fn)
        body = fi.node.body
        cut = next((i for i, st in enumerate(body) if any(isinstance(x, ast.For) for x in ast.walk(st))), None)
        if cut is None:
            raise AnalysisError(f'{fn}: expansion loop not found')
        ev1 = SymEval(repo, inline=True, no_inline=VOCAB, max_paths=20000)
        t1 = ev1.tabulate(sub_function(fi, body[:cut + 1], 'through-loop'), _args())
        ev2 = SymEval(repo, inline=True, no_inline=VOCAB, max_paths=20000, loop_mode='skip')
        t2 = ev2.tabulate(fi, _args())
    finally:
        env.update(saved)
    nodir = {}
    for name, role in (('_NO_NIX_DIR', 'unix'), ('_NO_WIN_DIR', 'win'), ('RE_NO_DIR', 'unix'), ('RE_WIN_NO_DIR', 'win')):
        for k in (0, 1):
            v = saved and env[name][k]
            nodir[repr(v)] = f'NODIR[{role},{k}]'

    def norm(x: str) -> str:
        x = x.replace(f'{WP}:{fn}', 'SELF')
        x = _strip_compile(x)
        x = x.replace('.pattern, bytes)', ', bytes)')
        return x

    sig = set()
    for which, tab in (('T1', t1), ('T2', t2)):
        for p in tab:
            focus(p)
            dec = tuple(sorted((norm(k), v) for k, v in p.decisions.items()))
            eff = []
            for e in p.events:
                if e[0] == 'call':
                    nm = norm(e[1])
                    if e[1].startswith(f'{WP}:WcParse(') and e[1].endswith('.parse'):
                        continue
                    args = [nodir.get(repr(a), norm(_tag(a))) for a in e[2]] + [f'{k}={norm(_tag(v))}' for k, v in sorted(e[3].items())]
                    eff.append(('call', 'K' if e[1] in (f'{WP}:WcParse', f'{WP}:_compile') else nm, tuple(args)))
                elif e[0] == 'raise':
                    eff.append(('raise', e[1]))
                elif e[0] == 'return':
                    eff.append(('return', norm(_tag(e[1]))))
                elif e[0] == 'loop':
                    eff.append(('loop',))
            sig.add((which, dec, tuple(eff)))
    return sig, len(t1) + len(t2)


def rule_pipeline_siblings(ctx: Ctx, rule: str) -> None:
    ctx.text(rule, 'sibling agreement of translate and compile_pattern: with translate\'s masking statement neutralised (that statement is '
                   'checked on its own), the two functions have the same decision tables and the same effects on every path (same calls '
                   'with the same argument values in the same order, same raises, same result) up to the compile step WcParse(p, '
                   'f).parse() ~ _compile(p, f), the recursion target, the NODIR text/regex twins and `.pattern` on compiled objects')
    repo = ctx.repo
    a, na = _signature(repo, 'translate')
    b, nb = _signature(repo, 'compile_pattern')
    only_a = sorted(a - b, key=repr)
    only_b = sorted(b - a, key=repr)
    if na < 100 or nb < 100:
        raise AnalysisError(f'{rule}: sibling tables too small ({na}, {nb} paths)')
    ok = not only_a and not only_b
    det = 'identical'
    if not ok:
        def first_diff() -> str:
            if only_a and only_b:
                x, y = only_a[0], only_b[0]
                for u, v in zip(x[2], y[2]):
                    if u != v:
                        return f'translate {str(u)[:110]} vs compile_pattern {str(v)[:110]}'
                if x[1] != y[1]:
                    return f'decisions differ: {str(set(x[1]) ^ set(y[1]))[:200]}'
                return f'effects of different length on {x[0]}'
            one = (only_a or only_b)[0]
            return ('only translate: ' if only_a else 'only compile_pattern: ') + str(one[2][-3:])[:200]
        det = f'{len(only_a)} path(s) only in translate, {len(only_b)} only in compile_pattern; e.g. {first_diff()}'
    ctx.count(f'{rule}:paths compared', na + nb)
    ctx.ob(rule, f'{WP}:translate~compile_pattern', ok, repo.loc(WP, repo.func(WP, 'translate').node),
           'identical decision tables and effects up to the compile step', det,
           witness="translate(p) and compile(p) must route, count and default identically")
    rule_translate_mask(ctx, rule)
