"""Rules added after the first round of independently seeded changes (see DESIGN.md section 6)."""
from __future__ import annotations

import ast
import os
import subprocess
from typing import Any

from ..boolform import equivalent_tests
from ..model import AnalysisError, norm_src, walk_no_nested
from ..pathq import fq
from ..report import Ctx
from ..symeval import BV, Obj, Opaque, SymEval, Tok, tok
from ..tables import compare_table
from .common import enclosing_map

WP = '_wcparse'

# flags that a module exports but consumes itself before the word is masked (each with the place that consumes it)
OUT_OF_BAND = {
    'glob': {'MARK': 'Glob.__init__', 'SCANDOTDIR': 'Glob.__init__'},
    'pathlib': {'SCANDOTDIR': 'Path.glob'},
    'fnmatch': {},
    'wcmatch': {},
}


def rule_flag_mask_agreement(ctx: Ctx, rule: str) -> None:
    ctx.text(rule, 'flag-mask agreement: every flag name a public module exports in __all__ is contained in that module\'s '
                   'FLAG_MASK (otherwise _flag_transform silently strips a documented flag), except the out-of-band flags that '
                   'the module demonstrably consumes itself before masking')
    repo = ctx.repo
    n = 0
    for mod in ('fnmatch', 'glob', 'pathlib', 'wcmatch'):
        m = repo.mod(mod)
        allv = None
        for st in m.tree.body:
            if isinstance(st, ast.Assign) and any(isinstance(t, ast.Name) and t.id == '__all__' for t in st.targets):
                try:
                    allv = list(ast.literal_eval(st.value))
                except ValueError:
                    raise AnalysisError(f'{mod}.__all__ is not a literal') from None
        if allv is None:
            raise AnalysisError(f'{mod}.__all__ not found')
        mask = repo.const(mod, 'FLAG_MASK')
        for name in allv:
            v = m.env.get(name)
            if not isinstance(v, int) or isinstance(v, bool) or not name.isupper() or len(name) < 3:
                continue
            n += 1
            if name in OUT_OF_BAND[mod]:
                user = repo.func(mod, OUT_OF_BAND[mod][name])
                used = any(isinstance(x, ast.Name) and x.id == name for x in ast.walk(user.node))
                ctx.ob(rule, f'{mod}:{name}/consumed-out-of-band', used, repo.loc(mod, user.node), f'{name} is consumed by {OUT_OF_BAND[mod][name]}',
                       'used' if used else 'never referenced', witness=f'{mod}: the documented flag {name} would silently do nothing')
                continue
            ctx.ob(rule, f'{mod}:FLAG_MASK∋{name}', v & mask == v, repo.loc(mod, repo.const_line(mod, 'FLAG_MASK')), f'{name} ({v:#x}) ⊆ FLAG_MASK',
                   'contained' if v & mask == v else f'missing bits {v & ~mask:#x}',
                   witness=f"{mod}: flags={name} is silently stripped: e.g. fnmatch('ABC', 'abc', flags=CASE|IGNORECASE) turns insensitive")
    ctx.floor(rule, 'exported flag names', n, 55)


FOLLOW_CLASS = {'os.path.lexists': 'nofollow', 'os.lstat': 'nofollow', 'os.path.islink': 'nofollow',
                'os.path.isdir': 'follow', 'os.stat': 'follow', 'os.path.exists': 'follow', 'os.path.isfile': 'follow'}


def rule_dirfd_siblings(ctx: Ctx, rule: str) -> None:
    ctx.text(rule, 'dir_fd twins: wherever the code probes the file system once without and once with dir_fd (if dir_fd is None / '
                   'if not self.dir_fd), both arms use probes of the same symlink-following class (lexists~lstat~islink do not follow; '
                   'isdir~stat~exists follow), and the dir_fd arm passes dir_fd=')
    repo = ctx.repo
    n = 0
    for mod, cls in (('glob', 'Glob'), ('_wcmatch', '_Match')):
        for fi in repo.cls(mod, cls).methods.values():
            for st in walk_no_nested(fi.node):
                if not isinstance(st, ast.If):
                    continue
                t = norm_src(st.test)
                if t not in ('dir_fd is None', 'not self.dir_fd', 'self.dir_fd is None', 'dir_fd is not None', 'self.dir_fd is not None'):
                    continue

                def probes(body: list) -> list[ast.Call]:
                    return [c for s in body for c in [s, *walk_no_nested(s)] if isinstance(c, ast.Call) and norm_src(c.func) in FOLLOW_CLASS]
                plain, fd = probes(st.body), probes(st.orelse) if st.orelse else []
                if not st.orelse:
                    # `if not self.dir_fd: return X` followed by the dir_fd code
                    par = enclosing_map(fi.node)
                    blk = par.get(id(st))
                    body = getattr(blk, 'body', [])
                    if st in body:
                        fd = probes(body[body.index(st) + 1:])
                if 'is not None' in t:
                    plain, fd = fd, plain
                if not plain or not fd:
                    continue
                n += 1
                ca = {FOLLOW_CLASS[norm_src(c.func)] for c in plain}
                cb = {FOLLOW_CLASS[norm_src(c.func)] for c in fd}
                kw = all(any(k.arg == 'dir_fd' for k in c.keywords) for c in fd)
                ok = len(ca) == 1 and ca == cb and kw
                ctx.ob(rule, f'{mod}:{fi.qualname}/dir_fd-twin[{",".join(sorted(norm_src(c.func) for c in plain))}]', ok, repo.loc(mod, st),
                       'same follow/nofollow class in both arms; dir_fd= passed',
                       f'without dir_fd: {sorted(norm_src(c.func) for c in plain)} ({sorted(ca)}); with: {sorted(norm_src(c.func) for c in fd)} ({sorted(cb)}); dir_fd passed={kw}',
                       witness="glob('dangling', dir_fd=fd) vs root_dir=: a dangling symlink / symlink-to-directory is treated differently")
    ctx.floor(rule, 'dir_fd twin sites', n, 4)


def rule_loop_fresh_lists(ctx: Ctx, rule: str) -> None:
    ctx.text(rule, 'iteration independence in the glob walker: a list that is mutated (pop/append/remove/insert) inside a loop body of '
                   'Glob.glob / Glob._glob and is not itself the loop\'s accumulator must be (re)bound inside that loop body, so one '
                   'start location / one branch cannot consume the pattern parts of the next')
    repo = ctx.repo
    n = 0
    for qn in ('Glob.glob', 'Glob._glob'):
        fi = repo.func('glob', qn)
        for loop in [x for x in walk_no_nested(fi.node) if isinstance(x, ast.For)]:
            inner_loops = [x for s in loop.body for x in ast.walk(s) if isinstance(x, ast.For)]
            for c in [x for s in loop.body for x in ast.walk(s) if isinstance(x, ast.Call) and isinstance(x.func, ast.Attribute) and
                      x.func.attr in ('pop', 'remove', 'insert', 'clear') and isinstance(x.func.value, ast.Name)]:
                if any(any(y is c for y in ast.walk(il)) for il in inner_loops):
                    continue  # judged at the innermost loop that contains it
                name = c.func.value.id
                n += 1
                bound_here = any(isinstance(a, ast.Assign) and any(isinstance(t, ast.Name) and t.id == name for t in a.targets)
                                 for s in loop.body for a in ast.walk(s))
                ctx.ob(rule, f'glob:{qn}/{name}.{c.func.attr}-in-loop[{norm_src(loop.target)}]', bound_here, repo.loc('glob', c),
                       f'`{name}` is bound inside the loop body before it is consumed', 'bound in the loop' if bound_here else 'defined outside the loop: shared between iterations',
                       witness="glob('src/*.py', flags=IGNORECASE) with src/ and Src/ on a case-sensitive file system: the second start location gets no remaining parts")
    ctx.floor(rule, 'list mutations inside walker loops', n, 1)


def rule_extend_guards(ctx: Ctx, rule: str) -> None:
    ctx.text(rule, 'every call of parse_extend in the parser and in both splitting scanners is guarded by `self.extend` and '
                   '`c in EXT_TYPES`: without EXTMATCH/EXTGLOB, `?(`, `*(`, `+(`, `@(`, `!(` are ordinary characters')
    repo = ctx.repo
    n = 0
    for mod, cls in ((WP, 'WcParse'), (WP, 'WcSplit'), ('glob', '_GlobSplit')):
        for fi in repo.cls(mod, cls).methods.values():
            q = None
            for c in walk_no_nested(fi.node):
                if isinstance(c, ast.Call) and norm_src(c.func) == 'self.parse_extend':
                    q = q or fq(fi)
                    n += 1
                    # the call sits in `self.extend and c in EXT_TYPES and self.parse_extend(...)`: find the enclosing BoolOp / guards
                    par = enclosing_map(fi.node)
                    p = par.get(id(c))
                    ok = False
                    if isinstance(p, ast.BoolOp) and isinstance(p.op, ast.And):
                        before = [norm_src(v) for v in p.values[:p.values.index(c)]]
                        ok = 'self.extend' in before and any(b in ('c in EXT_TYPES', 'c in _wcparse.EXT_TYPES') for b in before)
                    else:
                        g = q.guards(c)
                        ok = ('self.extend', 'T') in g and any(t in ('c in EXT_TYPES', 'c in _wcparse.EXT_TYPES') and pol == 'T' for t, pol in g)
                    ctx.ob(rule, f'{mod}:{fi.qualname}/parse_extend-guard@{n}', ok, repo.loc(mod, c), 'self.extend and c in EXT_TYPES and self.parse_extend(…)',
                           norm_src(p)[:90] if p is not None else '?',
                           witness="glob('*(1/2)') without EXTGLOB must split at the `/`: directory `v(1` holding file `2)`")
    ctx.floor(rule, 'parse_extend call sites', n, 6)


def rule_is_magic_guard(ctx: Ctx, rule: str) -> None:
    ctx.text(rule, 'is_magic and escape exempt a Windows drive prefix under the same guard: path mode and '
                   '((unix is None and host is windows) or unix is False)')
    repo = ctx.repo
    want = "is_path and (unix is None and util.platform() == 'windows' or unix is False)"
    im = repo.func(WP, 'is_magic')
    g = [n for n in walk_no_nested(im.node) if isinstance(n, ast.If) and any(isinstance(x, ast.Call) and norm_src(x.func) == 'drive_pat.match' for s in n.body for x in ast.walk(s))]
    ok = len(g) == 1 and equivalent_tests(g[0].test, want, fn=None)
    ctx.ob(rule, f'{WP}:is_magic/drive-guard', ok, repo.loc(WP, g[0] if g else im.node), want, norm_src(g[0].test) if g else 'none',
           witness="fnmatch.is_magic('//server/sh*re', flags=FORCEWIN) must be True: names have no drive prefix")
    ip = [s for s in walk_no_nested(im.node) if isinstance(s, ast.Assign) and norm_src(s.targets[0]) == 'is_path']
    ctx.ob(rule, f'{WP}:is_magic/is_path', len(ip) == 1 and norm_src(ip[0].value) == 'flags & PATHNAME', repo.loc(WP, im.node), 'is_path = flags & PATHNAME',
           norm_src(ip[0].value) if ip else 'none')


def rule_references_table(ctx: Ctx, rule: str) -> None:
    ctx.text(rule, 'decision table of WcParse._references (what an escaped character becomes): `\\\\` -> abort / separator run / '
                   'restricted separator / separator class (windows, name mode; bare class inside brackets) / literal backslash; `\\/` '
                   'likewise with pathname; `\\.` defers to the dot handler; anything else is re.escape(c)')
    repo = ctx.repo
    fi = repo.func(WP, 'WcParse._references')
    ev = SymEval(repo, call_models={'re.escape': lambda fr, n, a, k: ('escape', repr(a[0])),
                                    'builtins.next': lambda fr, n, a, k: Opaque('c')})

    def am(node: ast.AST, fr: Any) -> Any:
        s = norm_src(node).replace('"', "'")
        return {"c == '\\\\'": 'c=bslash', "c == '/'": 'c=slash', "c == '.'": 'c=dot'}.get(s)
    ev.atom_map = am
    one = repo.const(WP, '_ONE_OR_MORE')
    attrs = {'bslash_abort': Opaque('BA'), 'pathname': Opaque('P'), 'in_list': Opaque('L'), 'unix': Opaque('U'),
             'sep': tok('sep'), 'bare_sep': tok('bare_sep'), 'seq_path': tok('seq_path'), 'after_start': Opaque('as'), 'dir_start': Opaque('ds')}
    ev.call_models['next'] = lambda fr, n, a, k: Opaque('c')
    paths = ev.tabulate(fi, {'i': Opaque('i'), 'sequence': Opaque('Q')}, Obj((WP, 'WcParse'), attrs))

    def proj(p: Any) -> Any:
        if p.raised:
            return ('raise', p.raised)
        r = p.ret
        started = p.attrs.get('dir_start') is True
        val = r.parts if isinstance(r, Tok) else r
        return (val, started)

    def oracle(g: Any) -> Any:
        if g('c=bslash'):
            if g('Q') and g('BA'):
                return ('raise', 'PathNameException')
            if g('BA'):
                if not g('L'):
                    return (('sep', one), True)
                return ((('seq_path', 'sep') if g('P') else ('sep',)), False)
            if not g('U'):
                return ((('sep',) if not g('Q') else ('bare_sep',)), False)
            return ('\\\\', False)
        if g('c=slash'):
            if g('Q') and g('P'):
                return ('raise', 'PathNameException')
            if g('P'):
                if not g('L'):
                    return (('sep', one), True)
                return (('seq_path', 'sep'), False)
            return ((('sep',) if not g('Q') else ('bare_sep',)), False)
        if g('c=dot'):
            return ('raise', 'DotException')
        return (('escape', '<c>'), False)
    ok, why, rows = compare_table(paths, ev.bitnames, oracle, proj, {'c=bslash', 'c=slash', 'c=dot', 'Q', 'BA', 'P', 'L', 'U'}, where='_references')
    ctx.count('decision_table_rows', rows)
    ctx.ob(rule, f'{WP}:WcParse._references/table', ok, repo.loc(WP, fi.node), 'documented table (DESIGN appendix B)', f'{rows} rows agree' if ok else why[:300],
           witness="fnmatch('usr/bin', 'usr[\\\\\\\\]bin', flags=FORCEWIN) must be True: under FORCEWIN an escaped backslash is a separator, also inside brackets")


def rule_case_fold_consistency(ctx: Ctx, rule: str) -> None:
    ctx.text(rule, 'case-fold consistency (contradiction rule): inside one function, if a value is compared with lowercase keyword '
                   'literals through .lower() at some sites, no site compares the same value raw with a lowercase keyword')
    repo = ctx.repo
    n = 0
    for m in repo.modules.values():
        for fi in m.functions.values():
            folded: dict[str, list] = {}
            raw: dict[str, list] = {}
            for c in walk_no_nested(fi.node):
                if not (isinstance(c, ast.Compare) and len(c.ops) == 1 and isinstance(c.ops[0], (ast.Eq, ast.NotEq, ast.In, ast.NotIn))):
                    continue
                left, right = c.left, c.comparators[0]
                lits = []
                if isinstance(right, ast.Constant) and isinstance(right.value, str):
                    lits = [right.value]
                elif isinstance(right, (ast.Tuple, ast.Set, ast.List)) and all(isinstance(e, ast.Constant) and isinstance(e.value, str) for e in right.elts):
                    lits = [e.value for e in right.elts]
                if not lits:
                    continue
                if isinstance(left, ast.Call) and isinstance(left.func, ast.Attribute) and left.func.attr == 'lower' and not left.args:
                    folded.setdefault(norm_src(left.func.value), []).append(c)
                elif any(x.isalpha() and x == x.lower() and len(x) >= 2 for x in lits):
                    raw.setdefault(norm_src(left), []).append(c)
            for key in folded:
                n += 1
                bad = raw.get(key, [])
                ctx.ob(rule, f'{fi.fq}/{key}-compared-folded', not bad, repo.loc(m.name, (bad or folded[key])[0]),
                       f'every keyword comparison of `{key}` goes through .lower()',
                       'consistent' if not bad else f'raw comparison {norm_src(bad[0])} next to {norm_src(folded[key][0])}',
                       witness="globmatch('//?/unc/host/share/f', '//?/UNC/HoSt/ShArE/f', flags=FORCEWIN|CASE) must be True: the UNC keyword is case-insensitive")
    ctx.floor(rule, 'case-folded keyword comparisons', n, 1)


def rule_prologue_every_path(ctx: Ctx, rule: str) -> None:
    ctx.text(rule, 'every run calls on_reset() and restarts the skipped counter: in imatch every path from entry to a normal exit passes '
                   'self.on_reset() and `self._skipped = 0` (also a run on an already-killed object)')
    repo = ctx.repo
    im = repo.func('wcmatch', 'WcMatch.imatch')
    q = fq(im)
    resets = q.nodes_of_calls(lambda s: s == 'self.on_reset')
    zero = {q.node_of(s) for s in q.stmts(lambda n: isinstance(n, ast.Assign) and norm_src(n) == 'self._skipped = 0')}
    ok1 = bool(resets) and q.cfg.exit.id not in q.cfg.reachable_from(q.cfg.entry.id, blocked_nodes=resets, labels={'n', 'T', 'F'})
    ok2 = bool(zero) and q.cfg.exit.id not in q.cfg.reachable_from(q.cfg.entry.id, blocked_nodes=zero, labels={'n', 'T', 'F'})
    ctx.ob(rule, 'wcmatch:WcMatch.imatch/prologue-on-every-path', ok1 and ok2, repo.loc('wcmatch', im.node),
           'no path from entry to exit avoids on_reset() or `_skipped = 0`', f'on_reset unavoidable={ok1}, counter reset unavoidable={ok2}',
           witness='match(); kill(); match(): the killed run must still call on_reset once and report get_skipped() == 0')


def rule_pathlib_norm(ctx: Ctx, rule: str) -> None:
    ctx.text(rule, "pathlib uniqueness key: _pathlib_norm removes `.` segments with the platform's regex and strips one trailing "
                   'separator from every path longer than one character')
    repo = ctx.repo
    fi = repo.func('glob', 'Glob._pathlib_norm')
    rets = [r for r in walk_no_nested(fi.node) if isinstance(r, ast.Return)]
    ok = False
    got = 'no conditional return'
    if len(rets) == 1 and isinstance(rets[0].value, ast.IfExp):
        e = rets[0].value
        test = e.test
        got = norm_src(e)
        conj = test.values if isinstance(test, ast.BoolOp) and isinstance(test.op, ast.And) else [test]
        lens = [c for c in conj if isinstance(c, ast.Compare) and norm_src(c.left) == 'len(path)']
        rest = [norm_src(c) for c in conj if c not in lens]
        bound = None
        if len(lens) == 1 and isinstance(lens[0].comparators[0], ast.Constant):
            k = lens[0].comparators[0].value
            bound = {ast.Gt: k + 1, ast.GtE: k}.get(type(lens[0].ops[0]))
        ok = bound == 2 and rest == ['path[-1:] in self.seps'] and norm_src(e.body) == 'path[:-1]' and norm_src(e.orelse) == 'path'
    ctx.ob(rule, 'glob:Glob._pathlib_norm/strip-rule', ok, repo.loc('glob', fi.node), 'path[:-1] if len(path) >= 2 and path[-1:] in self.seps else path', got,
           witness="Path('.').glob(['*', '*/']) must not yield the one-letter directory `a` twice")
    subs = [c for c in walk_no_nested(fi.node) if isinstance(c, ast.Call) and norm_src(c.func) == 'self.re_pathlib_norm.sub']
    ctx.ob(rule, 'glob:Glob._pathlib_norm/dot-segments', len(subs) == 1 and [norm_src(a) for a in subs[0].args] == ['self.empty', 'path'], repo.loc('glob', fi.node),
           'path = self.re_pathlib_norm.sub(self.empty, path)', norm_src(subs[0]) if subs else 'none')


def rule_mypy_str_bytes(ctx: Ctx, rule: str) -> None:
    ctx.text(rule, "type-checked program (the repository's own mypy, strict as configured in pyproject.toml, run on the source, nothing "
                   'imported or executed): no diagnostic that confuses str and bytes (AnyStr assignments, arguments, returns)')
    repo = ctx.repo
    exe = '/venv/bin/python'
    try:
        p = subprocess.run([exe, '-m', 'mypy', '--strict', '--show-error-codes', '--no-incremental', '--cache-dir', os.devnull,
                            '--no-error-summary', '--hide-error-context', 'wcmatch'],
                           cwd=repo.root, capture_output=True, text=True, timeout=120)
    except (OSError, subprocess.TimeoutExpired) as e:
        raise AnalysisError(f'mypy could not be run: {e}') from None
    lines = [ln for ln in p.stdout.splitlines() if ': error:' in ln]
    if p.returncode not in (0, 1):
        raise AnalysisError('mypy failed: ' + (p.stderr or p.stdout)[-300:])
    hits = [ln for ln in lines if 'bytes' in ln and 'str' in ln]
    ctx.count('mypy_diagnostics', len(lines))
    ctx.ob(rule, 'package/mypy-str-bytes', not hits, hits[0].split(': error:')[0] if hits else 'wcmatch/', 'no str/bytes type confusion', 'clean' if not hits else '; '.join(h.strip()[:160] for h in hits[:3]),
           witness="WcMatch(b'.', None) must use a bytes catch-all pattern: every bytes file name would raise TypeError and be swallowed as an error")


def rule_sequence_separator(ctx: Ctx, rule: str) -> None:
    ctx.text(rule, 'FORCEWIN: `/` and `\\` are interchangeable, also inside a bracket expression of a name pattern: the arm of '
                   'WcParse._sequence that keeps a `/` inside the class must emit the separator class unless unix rules apply '
                   '(as _references does for escaped separators)')
    repo = ctx.repo
    sq = repo.func(WP, 'WcParse._sequence')
    q = fq(sq)
    arms = [s for s in q.stmts(lambda n: isinstance(n, ast.Assign)) if norm_src(s.targets[0]) == 'value' and
            any(t.replace('"', "'") == "c == '/'" and p == 'T' for t, p in q.guards(s))]
    ok = bool(arms) and all(('self.unix' in norm_src(a.value) or 'self.bare_sep' in norm_src(a.value)) or
                            any('self.unix' in t for t, _p in q.guards(a)) for a in arms)
    ctx.ob(rule, f'{WP}:WcParse._sequence/separator-in-brackets', ok, repo.loc(WP, arms[0] if arms else sq.node),
           'value = separator class when not unix', '; '.join(norm_src(a) for a in arms) or 'arm not found', note='F18',
           witness="fnmatch('a\\\\b', 'a[/]b', flags=FORCEWIN) is False although fnmatch('a\\\\b', 'a/b', flags=FORCEWIN) is True")


FORWARD_MODULES = ('fnmatch', 'glob', 'pathlib', '_wcparse', '_wcmatch')
FORWARD_SKIP = {'self', 'cls', 'flags'}  # flags are transformed on the way (checked by the flag-flow rules)


def rule_same_name_forwarding(ctx: Ctx, rule: str) -> None:
    ctx.text(rule, 'same-name forwarding: when a function of the public layers (fnmatch, glob, pathlib, _wcparse entry points, matcher '
                   'objects) calls a package function that has a parameter with the same name as one of its own parameters, the call '
                   'binds that parameter to the caller\'s own parameter (never to another value, never silently to the default)')
    from ..callgraph import resolve_callee
    repo = ctx.repo
    n = 0
    for mod in FORWARD_MODULES:
        m = repo.mod(mod)
        for fi in m.functions.values():
            if not hasattr(fi.node, 'args') or fi.qualname.startswith('<lambda'):
                continue
            if mod in ('_wcparse',) and fi.qualname not in ('compile',):
                continue  # the expansion pipeline below the entry points re-uses these names for derived values
            if mod == '_wcmatch' and not fi.qualname.startswith(('WcRegexp.', 'WcMatcher.')):
                continue
            if mod == 'glob' and fi.qualname.startswith(('Glob._', '_GlobSplit.')):
                continue
            own = [p for p in fi.params() if p not in FORWARD_SKIP]
            if not own:
                continue
            reassigned = {t.id for s in walk_no_nested(fi.node) if isinstance(s, (ast.Assign, ast.AugAssign))
                          for t in (s.targets if isinstance(s, ast.Assign) else [s.target]) if isinstance(t, ast.Name)}
            for c in [x for x in walk_no_nested(fi.node) if isinstance(x, ast.Call)]:
                r = resolve_callee(repo, fi, c)
                if not isinstance(r, list) or not r:
                    continue
                callee = r[0]
                if not hasattr(callee.node, 'args'):
                    continue
                if fi.fq == '_wcparse:compile' and callee.fq != '_wcparse:compile_pattern':
                    continue
                cparams = callee.params()
                if callee.cls and callee.parent is None and cparams and cparams[0] in ('self', 'cls'):
                    cparams = cparams[1:]
                kwonly = {a.arg for a in callee.node.args.kwonlyargs}
                has_star = any(isinstance(a, ast.Starred) for a in c.args) or any(k.arg is None for k in c.keywords)
                if has_star:
                    continue
                for p in own:
                    if p not in cparams:
                        continue
                    idx = cparams.index(p)
                    arg = next((k.value for k in c.keywords if k.arg == p), None)
                    if arg is None and p not in kwonly and idx < len(c.args):
                        arg = c.args[idx]
                    n += 1
                    from ..boolform import resolved_src
                    src = resolved_src(fi.node, arg) if arg is not None else '<not passed>'
                    ok = arg is not None and (src == p or (isinstance(arg, ast.IfExp) and p in src) or
                                              (src in (f'os.fspath({p})', f'os.fspath({p}) if {p} is not None else None')) or
                                              (p in reassigned and p in src))
                    if callee.fq == fi.fq and src != p:
                        ok = p in src  # recursion with a derived value (exclude= pass)
                    ctx.ob(rule, f'{fi.fq}->{callee.fq.split(":")[1]}/{p}', ok, repo.loc(mod, c), f'{p}={p}', f'{p}={src}',
                           witness=f"{fi.qualname}(..., {p}=X) must hand X to {callee.qualname}: e.g. glob(root_dir=…)/dir_fd=/exclude= silently ignored or crossed")
    ctx.floor(rule, 'same-name parameter hand-overs', n, 60)


def rule_match_siblings(ctx: Ctx, rule: str) -> None:
    ctx.text(rule, 'WcRegexp.match and WcRegexp.filter build _Match from the same five fields in the same order and pass root_dir / dir_fd '
                   'alike; _Match.__init__ stores every parameter in the like-named attribute')
    repo = ctx.repo
    want = ['self._include', 'self._exclude', 'self._real', 'self._path', 'self._follow']
    for meth in ('match', 'filter'):
        f = repo.func('_wcmatch', f'WcRegexp.{meth}')
        cs = [c for c in walk_no_nested(f.node) if isinstance(c, ast.Call) and norm_src(c.func) == '_Match']
        ok = len(cs) == 1 and norm_src(cs[0].args[0]) == 'os.fspath(filename)' and [norm_src(a) for a in cs[0].args[1:]] == want
        ctx.ob(rule, f'_wcmatch:WcRegexp.{meth}/_Match-arguments', ok, repo.loc('_wcmatch', cs[0] if cs else f.node), '_Match(os.fspath(filename), ' + ', '.join(want) + ')',
               norm_src(cs[0])[:140] if cs else 'none', witness='swapping _real and _path makes REALPATH matchers ignore the file system')
        outer = [c for c in walk_no_nested(f.node) if isinstance(c, ast.Call) and isinstance(c.func, ast.Attribute) and c.func.attr == 'match' and
                 isinstance(c.func.value, ast.Call) and norm_src(c.func.value.func) == '_Match']
        kw = {k.arg: norm_src(k.value) for k in outer[0].keywords} if outer else {}
        okk = bool(outer) and set(kw) == {'root_dir', 'dir_fd'} and kw['dir_fd'] == 'dir_fd' and \
            kw['root_dir'] in ('os.fspath(root_dir) if root_dir is not None else None', 'rdir')
        ctx.ob(rule, f'_wcmatch:WcRegexp.{meth}/match-arguments', okk, repo.loc('_wcmatch', f.node), '.match(root_dir=<fspath of root_dir>, dir_fd=dir_fd)', str(kw))
    init = repo.func('_wcmatch', '_Match.__init__')
    pairs = {norm_src(s.targets[0]): norm_src(s.value) for s in walk_no_nested(init.node) if isinstance(s, ast.Assign)}
    want2 = {f'self.{p}': p for p in ('filename', 'include', 'exclude', 'real', 'path', 'follow')}
    bad = {k: pairs.get(k) for k, v in want2.items() if pairs.get(k) != v}
    ctx.ob(rule, '_wcmatch:_Match.__init__/field-sources', not bad, repo.loc('_wcmatch', init.node), 'self.x = x for the six fields', 'ok' if not bad else str(bad))
    ctx.ob(rule, '_wcmatch:_Match.__init__/parameter-order', init.params() == ['self', 'filename', 'include', 'exclude', 'real', 'path', 'follow'],
           repo.loc('_wcmatch', init.node), '(filename, include, exclude, real, path, follow)', str(init.params()))


def rule_lookahead_putback(ctx: Ctx, rule: str) -> None:
    ctx.text(rule, 'look-ahead / put-back pairing in the parser: a `while c == K: c = next(i)` scan reads one character too many, so its '
                   'normal exit must be followed by i.rewind(1)')
    repo = ctx.repo
    n = 0
    for qn in ('WcParse.consume_path_sep', 'WcParse._handle_star'):
        fi = repo.func(WP, qn)
        par = enclosing_map(fi.node)
        for w in [x for x in walk_no_nested(fi.node) if isinstance(x, ast.While)]:
            if not any(isinstance(s, ast.Assign) and norm_src(s) == 'c = next(i)' for s in w.body):
                continue
            if isinstance(w.test, ast.Constant):
                continue
            n += 1
            blk = par.get(id(w))
            body = None
            for fld in ('body', 'orelse', 'finalbody'):
                seq = getattr(blk, fld, None)
                if isinstance(seq, list) and w in seq:
                    body = seq
            nxt = body[body.index(w) + 1] if body is not None and body.index(w) + 1 < len(body) else None
            ok = nxt is not None and isinstance(nxt, ast.Expr) and norm_src(nxt.value) == 'i.rewind(1)'
            ctx.ob(rule, f'{WP}:{qn}/putback[{norm_src(w.test)}]', ok, repo.loc(WP, w), 'i.rewind(1) right after the scan loop', norm_src(nxt)[:50] if nxt is not None else 'nothing follows',
                   witness="globmatch('a/b', 'a//b') / fnmatch('ab', '**b'): the character after the run would be swallowed")
    ctx.floor(rule, 'scan loops', n, 3)


def rule_inverse_cleanup(ctx: Ctx, rule: str) -> None:
    ctx.text(rule, 'clean_up_inverse: the rest-of-pattern slot of `!(…)` is closed with the end-of-name assertion (_EOP in name mode, '
                   'path_eop in path mode) unless the group is nested; the placeholder is replaced by rest + close template; the counter '
                   'of open inverse groups is cleared')
    repo = ctx.repo
    fi = repo.func(WP, 'WcParse.clean_up_inverse')
    q = fq(fi)
    apps = [c for c in q.calls(lambda s: s == 'content.append')]
    ok = len(apps) == 1 and isinstance(apps[0].args[0], ast.IfExp) and q.guarded(apps[0], 'nested', 'F')
    if ok:
        e = apps[0].args[0]
        t, b, o = norm_src(e.test), norm_src(e.body), norm_src(e.orelse)
        ok = (t, b, o) in (('not self.pathname', '_EOP', 'self.path_eop'), ('self.pathname', 'self.path_eop', '_EOP'))
    ctx.ob(rule, f'{WP}:WcParse.clean_up_inverse/end-assertion', ok, repo.loc(WP, apps[0] if apps else fi.node),
           'if not nested: content.append(_EOP if not self.pathname else self.path_eop)', norm_src(apps[0])[:90] if apps else 'none',
           witness="globmatch('ab/', '!(a)', EXTGLOB): in path mode the negation must also stop at a separator")
    early = [n for n in fi.node.body if isinstance(n, ast.If) and norm_src(n.test) == 'not self.inv_ext' and any(isinstance(s, ast.Return) for s in n.body)]
    reset = [s for s in fi.node.body if isinstance(s, ast.Assign) and norm_src(s) == 'self.inv_ext = 0']
    ctx.ob(rule, f'{WP}:WcParse.clean_up_inverse/counter', len(early) == 1 and len(reset) == 1, repo.loc(WP, fi.node), 'returns early when no inverse group is open; clears inv_ext at the end',
           f'early={len(early)} reset={len(reset)}')
    cl = [c for c in walk_no_nested(fi.node) if isinstance(c, ast.Call) and norm_src(c.func) == '_EXCLA_GROUP_CLOSE.format']
    okc = len(cl) == 1 and norm_src(cl[0].args[0]) == 'str(current[index])'
    ctx.ob(rule, f'{WP}:WcParse.clean_up_inverse/close-template', okc, repo.loc(WP, fi.node), '_EXCLA_GROUP_CLOSE.format(str(current[index]))', norm_src(cl[0]) if cl else 'none',
           witness="fnmatch('b', '!(a)', E): the placeholder carries the star that follows the assertion")
    ph = [c for c in walk_no_nested(fi.node) if isinstance(c, ast.Call) and norm_src(c.func) == 'isinstance' and 'InvPlaceholder' in norm_src(c)]
    ctx.ob(rule, f'{WP}:WcParse.clean_up_inverse/placeholder-test', len(ph) == 1, repo.loc(WP, fi.node), 'isinstance(current[index], InvPlaceholder)', str(len(ph)))


def rule_sequence_shape(ctx: Ctx, rule: str) -> None:
    ctx.text(rule, 'bracket expressions: WcParse._sequence opens with `[`, emits `^` iff the first character is `!` or `^`, takes a leading '
                   '`[`, `-` or `]` literally (escaped), escapes the set operators & ~ | and closes with `]`')
    repo = ctx.repo
    sq = repo.func(WP, 'WcParse._sequence')
    q = fq(sq)
    init = [s for s in sq.node.body if isinstance(s, ast.Assign) and norm_src(s.targets[0]) == 'result']
    ctx.ob(rule, f'{WP}:WcParse._sequence/opens', bool(init) and norm_src(init[0].value) == "['[']", repo.loc(WP, sq.node), "result = ['[']", norm_src(init[0].value) if init else 'none')
    neg = [c for c in q.calls(lambda s: s == 'result.append') if c.args and norm_src(c.args[0]) == "'^'"]
    okn = len(neg) == 1 and any(equivalent_tests(n.test, "c in ('!', '^')") or norm_src(n.test) in ("c in ('^', '!')",)
                                for n in walk_no_nested(sq.node) if isinstance(n, ast.If) and any(x is neg[0] for s in n.body for x in ast.walk(s)))
    ctx.ob(rule, f'{WP}:WcParse._sequence/negation', okn, repo.loc(WP, neg[0] if neg else sq.node), "if c in ('!', '^'): result.append('^')", str(okn),
           witness="fnmatch('b', '[!a]') and fnmatch('b', '[^a]') must both be True")
    so = repo.const(WP, 'SET_OPERATORS')
    ctx.ob(rule, f'{WP}:SET_OPERATORS', so == frozenset(('&', '~', '|')), repo.loc(WP, repo.const_line(WP, 'SET_OPERATORS')), "{'&', '~', '|'}", str(sorted(so)),
           witness="fnmatch('&', '[&&]') must not trigger Python's nested-set syntax")
    esc = [s for s in q.stmts(lambda n: isinstance(n, ast.Assign)) if norm_src(s.targets[0]) == 'value' and ('c in SET_OPERATORS', 'T') in q.guards(s)]
    ctx.ob(rule, f'{WP}:WcParse._sequence/set-operators-escaped', len(esc) == 1 and norm_src(esc[0].value) == "'\\\\' + c", repo.loc(WP, esc[0] if esc else sq.node),
           "value = '\\\\' + c under c in SET_OPERATORS", norm_src(esc[0].value) if esc else 'none')
    lead = [c for c in q.calls(lambda s: s == 'result.append') if c.args and norm_src(c.args[0]) == 're.escape(c)']
    oklead = len(lead) == 2 and any(("c == '['", 'T') in q.guards(c) for c in lead) and \
        any(any(t.replace('"', "'") in ("c in ('-', ']')", "c in (']', '-')") and p == 'T' for t, p in q.guards(c)) for c in lead)
    ctx.ob(rule, f'{WP}:WcParse._sequence/leading-literals', oklead, repo.loc(WP, sq.node), 'leading `[`, `-`, `]` appended via re.escape', f'{len(lead)} escaped appends',
           witness="fnmatch(']', '[]]') and fnmatch('-', '[-a]') must be True")
    last = [c for c in q.calls(lambda s: s == 'result.append') if c.args and norm_src(c.args[0]) == "']'"]
    ctx.ob(rule, f'{WP}:WcParse._sequence/closes', len(last) == 1, repo.loc(WP, sq.node), "result.append(']') once, after the scan loop", str(len(last)))
    hy = [s for s in q.stmts(lambda n: isinstance(n, ast.Expr)) if norm_src(s.value) == "result.append('\\\\' + c)" and ("c == '-'", 'T') in q.guards(s)]
    ctx.ob(rule, f'{WP}:WcParse._sequence/literal-hyphen-escaped', len(hy) >= 2, repo.loc(WP, sq.node), "a `-` that is not a range delimiter is emitted as `\\-`", str(len(hy)),
           witness="fnmatch('-', '[a-c-]') must be True and must not create a second range")


def rule_is_hidden(ctx: Ctx, rule: str) -> None:
    ctx.text(rule, 'util.is_hidden: a base name starting with `.` is hidden on every platform; otherwise only platform attributes decide')
    repo = ctx.repo
    fi = repo.func('util', 'is_hidden')
    q = fq(fi)
    sets = [s for s in q.stmts(lambda n: isinstance(n, ast.Assign)) if norm_src(s) == 'hidden = True']
    ok = len(sets) == 1 and any(t.replace('"', "'") in ("f[:1] in ('.', b'.')", "f[0:1] in ('.', b'.')") and p == 'T' for t, p in q.guards(sets[0]))
    base = [s for s in q.stmts(lambda n: isinstance(n, ast.Assign)) if norm_src(s.targets[0]) == 'f']
    ok = ok and len(base) == 1 and norm_src(base[0].value) == 'os.path.basename(path)'
    ctx.ob(rule, 'util:is_hidden/dot-files', ok, repo.loc('util', fi.node), "f = os.path.basename(path); if f[:1] in ('.', b'.'): hidden = True", str(ok),
           witness="WcMatch('.', '*') must skip '.git' (str and bytes) unless HIDDEN")
    rets = [r for r in walk_no_nested(fi.node) if isinstance(r, ast.Return)]
    ctx.ob(rule, 'util:is_hidden/returns', len(rets) == 1 and norm_src(rets[0].value) == 'hidden', repo.loc('util', fi.node), 'return hidden', str(len(rets)))
