"""Rules added after the first round of independently seeded changes (see DESIGN.md section 6)."""
from __future__ import annotations

import ast
import os
import subprocess
from typing import Any

from ..boolform import equivalent_tests
from ..model import AnalysisError, Repo, norm_src, walk_no_nested
from ..pathq import fq
from ..report import Ctx
from ..symeval import BV, Obj, Opaque, SymEval, Tok, tok, _tag
from ..tables import compare_table
from .common import cached, char_alias, enclosing_map, tabulate_method

WP = '_wcparse'

# flags that a module exports but consumes itself before the word is masked (each with the place that consumes it)
OUT_OF_BAND = {
    'glob': {'MARK': 'Glob.__init__', 'SCANDOTDIR': 'Glob.__init__'},
    'pathlib': {'SCANDOTDIR': 'Path.glob'},
    'fnmatch': {},
    'wcmatch': {},
}


def rule_flag_mask_agreement(ctx: Ctx, rule: str) -> None:
    ctx.text(rule, 'flag-mask agreement: every flag name a public module exports in __all__ is contained in that module\'s '
                   'FLAG_MASK (otherwise _flag_transform silently strips a documented flag), except the out-of-band flags that '
                   'the module demonstrably consumes itself before masking')
    repo = ctx.repo
    n = 0
    for mod in ('fnmatch', 'glob', 'pathlib', 'wcmatch'):
        m = repo.mod(mod)
        allv = None
        for st in m.tree.body:
            if isinstance(st, ast.Assign) and any(isinstance(t, ast.Name) and t.id == '__all__' for t in st.targets):
                try:
                    allv = list(ast.literal_eval(st.value))
                except ValueError:
                    raise AnalysisError(f'{mod}.__all__ is not a literal') from None
        if allv is None:
            raise AnalysisError(f'{mod}.__all__ not found')
        mask = repo.const(mod, 'FLAG_MASK')
        for name in allv:
            v = m.env.get(name)
            if not isinstance(v, int) or isinstance(v, bool) or not name.isupper() or len(name) < 3:
                continue
            n += 1
            if name in OUT_OF_BAND[mod]:
                user = repo.func(mod, OUT_OF_BAND[mod][name])
                used = any(isinstance(x, ast.Name) and x.id == name for x in ast.walk(user.node))
                ctx.ob(rule, f'{mod}:{name}/consumed-out-of-band', used, repo.loc(mod, user.node), f'{name} is consumed by {OUT_OF_BAND[mod][name]}',
                       'used' if used else 'never referenced', witness=f'{mod}: the documented flag {name} would silently do nothing')
                continue
            ctx.ob(rule, f'{mod}:FLAG_MASK∋{name}', v & mask == v, repo.loc(mod, repo.const_line(mod, 'FLAG_MASK')), f'{name} ({v:#x}) ⊆ FLAG_MASK',
                   'contained' if v & mask == v else f'missing bits {v & ~mask:#x}',
                   witness=f"{mod}: flags={name} is silently stripped: e.g. fnmatch('ABC', 'abc', flags=CASE|IGNORECASE) turns insensitive")
    ctx.floor(rule, 'exported flag names', n, 55)


FOLLOW_CLASS = {'os.path.lexists': 'nofollow', 'os.lstat': 'nofollow', 'os.path.islink': 'nofollow',
                'os.path.isdir': 'follow', 'os.stat': 'follow', 'os.path.exists': 'follow', 'os.path.isfile': 'follow'}


def rule_dirfd_siblings(ctx: Ctx, rule: str) -> None:
    ctx.text(rule, 'dir_fd twins: wherever the code probes the file system once without and once with dir_fd (if dir_fd is None / '
                   'if not self.dir_fd), both arms use probes of the same symlink-following class (lexists~lstat~islink do not follow; '
                   'isdir~stat~exists follow), and the dir_fd arm passes dir_fd=')
    repo = ctx.repo
    n = 0
    for mod, cls in (('glob', 'Glob'), ('_wcmatch', '_Match')):
        for fi in repo.cls(mod, cls).methods.values():
            for st in walk_no_nested(fi.node):
                if not isinstance(st, ast.If):
                    continue
                t = norm_src(st.test)
                if t not in ('dir_fd is None', 'not self.dir_fd', 'self.dir_fd is None', 'dir_fd is not None', 'self.dir_fd is not None'):
                    continue

                def probes(body: list) -> list[ast.Call]:
                    return [c for s in body for c in [s, *walk_no_nested(s)] if isinstance(c, ast.Call) and norm_src(c.func) in FOLLOW_CLASS]
                plain, fd = probes(st.body), probes(st.orelse) if st.orelse else []
                if not st.orelse:
                    # `if not self.dir_fd: return X` followed by the dir_fd code
                    par = enclosing_map(fi.node)
                    blk = par.get(id(st))
                    body = getattr(blk, 'body', [])
                    if st in body:
                        fd = probes(body[body.index(st) + 1:])
                if 'is not None' in t:
                    plain, fd = fd, plain
                if not plain or not fd:
                    continue
                n += 1
                ca = {FOLLOW_CLASS[norm_src(c.func)] for c in plain}
                cb = {FOLLOW_CLASS[norm_src(c.func)] for c in fd}
                kw = all(any(k.arg == 'dir_fd' for k in c.keywords) for c in fd)
                ok = len(ca) == 1 and ca == cb and kw
                ctx.ob(rule, f'{mod}:{fi.qualname}/dir_fd-twin[{",".join(sorted(norm_src(c.func) for c in plain))}]', ok, repo.loc(mod, st),
                       'same follow/nofollow class in both arms; dir_fd= passed',
                       f'without dir_fd: {sorted(norm_src(c.func) for c in plain)} ({sorted(ca)}); with: {sorted(norm_src(c.func) for c in fd)} ({sorted(cb)}); dir_fd passed={kw}',
                       witness="glob('dangling', dir_fd=fd) vs root_dir=: a dangling symlink / symlink-to-directory is treated differently")
    ctx.floor(rule, 'dir_fd twin sites', n, 4)


def rule_loop_fresh_lists(ctx: Ctx, rule: str) -> None:
    ctx.text(rule, 'iteration independence in the glob walker: a list that is mutated (pop/append/remove/insert) inside a loop body of '
                   'Glob.glob / Glob._glob and is not itself the loop\'s accumulator must be (re)bound inside that loop body, so one '
                   'start location / one branch cannot consume the pattern parts of the next')
    repo = ctx.repo
    n = 0
    for qn in ('Glob.glob', 'Glob._glob'):
        fi = repo.func('glob', qn)
        for loop in [x for x in walk_no_nested(fi.node) if isinstance(x, ast.For)]:
            inner_loops = [x for s in loop.body for x in ast.walk(s) if isinstance(x, ast.For)]
            for c in [x for s in loop.body for x in ast.walk(s) if isinstance(x, ast.Call) and isinstance(x.func, ast.Attribute) and
                      x.func.attr in ('pop', 'remove', 'insert', 'clear') and isinstance(x.func.value, ast.Name)]:
                if any(any(y is c for y in ast.walk(il)) for il in inner_loops):
                    continue  # judged at the innermost loop that contains it
                name = c.func.value.id
                n += 1
                bound_here = any(isinstance(a, ast.Assign) and any(isinstance(t, ast.Name) and t.id == name for t in a.targets)
                                 for s in loop.body for a in ast.walk(s))
                ctx.ob(rule, f'glob:{qn}/{name}.{c.func.attr}-in-loop[{norm_src(loop.target)}]', bound_here, repo.loc('glob', c),
                       f'`{name}` is bound inside the loop body before it is consumed', 'bound in the loop' if bound_here else 'defined outside the loop: shared between iterations',
                       witness="glob('src/*.py', flags=IGNORECASE) with src/ and Src/ on a case-sensitive file system: the second start location gets no remaining parts")
    ctx.floor(rule, 'list mutations inside walker loops', n, 1)


def rule_extend_guards(ctx: Ctx, rule: str) -> None:
    ctx.text(rule, 'every call of parse_extend in the parser and in both splitting scanners is guarded by `self.extend` and '
                   '`c in EXT_TYPES`: without EXTMATCH/EXTGLOB, `?(`, `*(`, `+(`, `@(`, `!(` are ordinary characters')
    repo = ctx.repo
    n = 0
    for mod, cls in ((WP, 'WcParse'), (WP, 'WcSplit'), ('glob', '_GlobSplit')):
        for fi in repo.cls(mod, cls).methods.values():
            q = None
            for c in walk_no_nested(fi.node):
                if isinstance(c, ast.Call) and norm_src(c.func) == 'self.parse_extend':
                    q = q or fq(fi)
                    n += 1
                    # the call sits in `self.extend and c in EXT_TYPES and self.parse_extend(...)`: find the enclosing BoolOp / guards
                    par = enclosing_map(fi.node)
                    p = par.get(id(c))
                    ok = False
                    if isinstance(p, ast.BoolOp) and isinstance(p.op, ast.And):
                        before = [norm_src(v) for v in p.values[:p.values.index(c)]]
                        ok = 'self.extend' in before and any(b in ('c in EXT_TYPES', 'c in _wcparse.EXT_TYPES') for b in before)
                    else:
                        g = q.guards(c)
                        ok = ('self.extend', 'T') in g and any(t in ('c in EXT_TYPES', 'c in _wcparse.EXT_TYPES') and pol == 'T' for t, pol in g)
                    ctx.ob(rule, f'{mod}:{fi.qualname}/parse_extend-guard@{n}', ok, repo.loc(mod, c), 'self.extend and c in EXT_TYPES and self.parse_extend(…)',
                           norm_src(p)[:90] if p is not None else '?',
                           witness="glob('*(1/2)') without EXTGLOB must split at the `/`: directory `v(1` holding file `2)`")
    ctx.floor(rule, 'parse_extend call sites', n, 6)


def rule_is_magic_guard(ctx: Ctx, rule: str) -> None:
    ctx.text(rule, 'is_magic and escape exempt a Windows drive prefix under the same guard: path mode and '
                   '((unix is None and host is windows) or unix is False)')
    repo = ctx.repo
    want = "flags & PATHNAME and (unix is None and util.platform() == 'windows' or unix is False), unix = is_unix_style(flags)"
    im = repo.func(WP, 'is_magic')
    from .common import api_table
    from ..symeval import focus
    _ev, paths = api_table(repo, WP, 'is_magic')
    pn = repo.const(WP, 'PATHNAME')
    bit = f'bit:flags:{pn:x}'
    bad = []
    n_m = 0

    def K_and(*xs: Any) -> Any:
        return False if any(x is False for x in xs) else (None if any(x is None for x in xs) else True)

    def K_or(*xs: Any) -> Any:
        return True if any(x is True for x in xs) else (None if any(x is None for x in xs) else False)
    for p in paths:
        focus(p)
        d = p.decisions
        matched = [e for e in p.of('call') if e[1].endswith('.match') and 'RegexConst' in e[1]]
        u_false = u_none = win = None
        for k, v in d.items():
            if k.startswith(f'{WP}:is_unix_style(') and k.endswith(' is False'):
                u_false = v
            elif k.startswith(f'{WP}:is_unix_style(') and k.endswith(' is not None'):
                u_none = not v
            elif k.startswith(f'{WP}:is_unix_style(') and k.endswith(' is None'):
                u_none = v
            elif k == "util:platform() == 'windows'":
                win = v
        exp = K_and(d.get(bit), K_or(K_and(u_none, win), u_false))
        if matched:
            n_m += 1
            if [_tag(a) for a in matched[0][2]] != ['pattern']:
                bad.append(f'the drive pattern is matched against {[_tag(a) for a in matched[0][2]]}')
        if exp is None or bool(matched) != exp:
            bad.append(f'PATHNAME={d.get(bit)} unix is None={u_none} windows={win} unix is False={u_false}: drive prefix looked for={bool(matched)}')
    if n_m < 2:
        raise AnalysisError('is_magic: the drive prefix match is not reached in the table')
    ctx.ob(rule, f'{WP}:is_magic/drive-guard', not bad, repo.loc(WP, im.node), want, f'{len(paths)} rows agree' if not bad else sorted(set(bad))[0],
           witness="fnmatch.is_magic('//server/sh*re', flags=FORCEWIN) must be True: names have no drive prefix")


def rule_references_table(ctx: Ctx, rule: str) -> None:
    ctx.text(rule, 'decision tables of the three _references methods (what an escaped character becomes), extracted by value -- the '
                   'character is "the value read from the iterator", whatever the local is called, helpers are inlined: WcParse: `\\\\` -> '
                   'abort / separator run + directory start / restricted separator / separator class (windows, name mode; bare class '
                   'inside brackets) / literal backslash; `\\/` likewise with pathname; `\\.` puts the dot back and defers to the dot '
                   'handler; anything else is re.escape(c).  WcSplit / _GlobSplit: inside a bracket an escaped separator raises '
                   'PathNameException (backslash: bslash_abort; slash: pathname, always for the glob splitter); _GlobSplit returns the '
                   'separator character it consumed and nothing otherwise')
    repo = ctx.repo
    one = repo.const(WP, '_ONE_OR_MORE')
    BS, SL, DOT = "c='\\\\'", "c='/'", "c='.'"
    vocab = {BS, SL, DOT, 'Q', 'BA', 'P', 'L', 'U'}
    attrs = {'bslash_abort': Opaque('BA'), 'pathname': Opaque('P'), 'in_list': Opaque('L'), 'unix': Opaque('U'),
             'sep': tok('sep'), 'bare_sep': tok('bare_sep'), 'seq_path': tok('seq_path'), 'after_start': Opaque('as'), 'dir_start': Opaque('ds')}

    def char_of(p: Any) -> Any:
        for k, v in p.decisions.items():
            if v and k.startswith('next(i) == '):
                return ast.literal_eval(k[len('next(i) == '):])
        return None

    def norm(v: Any, p: Any) -> Any:
        if isinstance(v, Opaque) and v.tag == 'next(i)':
            c = char_of(p)
            return c if c is not None else '<c>'
        return v.parts if isinstance(v, Tok) else v

    # ---- WcParse
    fi = repo.func(WP, 'WcParse._references')
    ev, paths = tabulate_method(repo, WP, 'WcParse._references', attrs, [Opaque('i'), Opaque('Q')],
                                call_models={'re.escape': lambda fr, n, a, k: ('escape', _tag(a[0]))})

    def proj(p: Any) -> Any:
        if p.raised:
            back = [c for c in p.calls_to(lambda s: s.endswith('.rewind'))]
            return ('raise', p.raised) + ((('rewind',) + tuple(back[0][1]),) if back else ())
        return (norm(p.ret, p), p.attrs.get('dir_start') is True and p.attrs.get('after_start') is False)

    def oracle(g: Any) -> Any:
        if g(BS):
            if g('Q') and g('BA'):
                return ('raise', 'PathNameException')
            if g('BA'):
                if not g('L'):
                    return (('sep', one), True)
                return ((('seq_path', 'sep') if g('P') else ('sep',)), False)
            if not g('U'):
                return ((('sep',) if not g('Q') else ('bare_sep',)), False)
            return ('\\\\', False)
        if g(SL):
            if g('Q') and g('P'):
                return ('raise', 'PathNameException')
            if g('P'):
                if not g('L'):
                    return (('sep', one), True)
                return (('seq_path', 'sep'), False)
            return ((('sep',) if not g('Q') else ('bare_sep',)), False)
        if g(DOT):
            return ('raise', 'DotException', ('rewind', 1))
        return (('escape', 'next(i)'), False)
    ok, why, rows = compare_table(paths, ev.bitnames, oracle, proj, vocab, alias=char_alias(paths, 'next(i)'), where='_references',
                                  exclusive=lambda a: 'c' if a.startswith('c=') else None)
    ctx.count('decision_table_rows', rows)
    ctx.ob(rule, f'{WP}:WcParse._references/table', ok, repo.loc(WP, fi.node), 'documented table (DESIGN appendix B)', f'{rows} rows agree' if ok else why[:300],
           witness="fnmatch('usr/bin', 'usr[\\\\\\\\]bin', flags=FORCEWIN) must be True: under FORCEWIN an escaped backslash is a separator, also inside brackets; "
                   "globmatch('a//b', 'a\\\\/b') must be True: a written separator stands for a run of separators")
    # ---- the two splitters
    for mod, cls, has_pathname in ((WP, 'WcSplit', True), ('glob', '_GlobSplit', False)):
        f2 = repo.func(mod, f'{cls}._references')
        ev2, paths2 = tabulate_method(repo, mod, f'{cls}._references', {'bslash_abort': Opaque('BA'), 'pathname': Opaque('P'), 'unix': Opaque('U')},
                                      [Opaque('i'), Opaque('Q')])

        def proj2(p: Any) -> Any:
            if p.raised:
                return ('raise', p.raised)
            return ('ret', norm(p.ret, p) or None) if not has_pathname else ('ret',)

        def oracle2(g: Any) -> Any:
            if g(BS):
                if g('Q') and g('BA'):
                    return ('raise', 'PathNameException')
                return ('ret', '\\') if not has_pathname else ('ret',)
            if g(SL):
                if g('Q') and (not has_pathname or g('P')):
                    return ('raise', 'PathNameException')
                return ('ret', '/') if not has_pathname else ('ret',)
            return ('ret', None) if not has_pathname else ('ret',)
        ok2, why2, rows2 = compare_table(paths2, ev2.bitnames, oracle2, proj2, vocab, alias=char_alias(paths2, 'next(i)'), where=f'{cls}._references',
                                         exclusive=lambda a: 'c' if a.startswith('c=') else None)
        ctx.count('decision_table_rows', rows2)
        # whatever follows the backslash belongs to the escape: exactly one character is taken from the iterator on every path
        from ..symeval import focus as _fc
        reads = set()
        for p_ in paths2:
            _fc(p_)
            reads.add(sum(1 for e in p_.of('call') if e[1] == 'next' and [_tag(a) for a in e[2]] == ['i']))
        ctx.ob(rule, f'{mod}:{cls}._references/consumes-the-escaped-character', reads == {1}, repo.loc(mod, f2.node),
               'next(i) exactly once on every path', f'reads per path: {sorted(reads)}',
               witness="fnmatch.translate(fnmatch.escape('a|b'), flags=SPLIT) must stay one pattern: the `|` after the backslash is not a split point")
        ctx.ob(rule, f'{mod}:{cls}._references/table', ok2, repo.loc(mod, f2.node),
               'raise PathNameException iff in a bracket and (`\\\\` with bslash_abort, or `\\/` ' + ('with pathname)' if has_pathname else 'always); returns the consumed separator'),
               f'{rows2} rows agree' if ok2 else why2[:300],
               witness="globmatch('a[\\\\/]b', 'a[\\\\/]b') -- an escaped separator inside brackets aborts the bracket, in the splitter exactly as in the parser")


def rule_case_fold_consistency(ctx: Ctx, rule: str) -> None:
    ctx.text(rule, 'case-fold consistency (contradiction rule): inside one function, if a value is compared with lowercase keyword '
                   'literals through .lower() at some sites, no site compares the same value raw with a lowercase keyword')
    repo = ctx.repo
    n = 0
    for m in repo.modules.values():
        for fi in m.functions.values():
            folded: dict[str, list] = {}
            raw: dict[str, list] = {}
            for c in walk_no_nested(fi.node):
                if not (isinstance(c, ast.Compare) and len(c.ops) == 1 and isinstance(c.ops[0], (ast.Eq, ast.NotEq, ast.In, ast.NotIn))):
                    continue
                left, right = c.left, c.comparators[0]
                lits = []
                if isinstance(right, ast.Constant) and isinstance(right.value, str):
                    lits = [right.value]
                elif isinstance(right, (ast.Tuple, ast.Set, ast.List)) and all(isinstance(e, ast.Constant) and isinstance(e.value, str) for e in right.elts):
                    lits = [e.value for e in right.elts]
                if not lits:
                    continue
                if isinstance(left, ast.Call) and isinstance(left.func, ast.Attribute) and left.func.attr == 'lower' and not left.args:
                    folded.setdefault(norm_src(left.func.value), []).append(c)
                elif any(x.isalpha() and x == x.lower() and len(x) >= 2 for x in lits):
                    raw.setdefault(norm_src(left), []).append(c)
            for key in folded:
                n += 1
                bad = raw.get(key, [])
                ctx.ob(rule, f'{fi.fq}/{key}-compared-folded', not bad, repo.loc(m.name, (bad or folded[key])[0]),
                       f'every keyword comparison of `{key}` goes through .lower()',
                       'consistent' if not bad else f'raw comparison {norm_src(bad[0])} next to {norm_src(folded[key][0])}',
                       witness="globmatch('//?/unc/host/share/f', '//?/UNC/HoSt/ShArE/f', flags=FORCEWIN|CASE) must be True: the UNC keyword is case-insensitive")
    ctx.floor(rule, 'case-folded keyword comparisons', n, 1)


def rule_prologue_every_path(ctx: Ctx, rule: str) -> None:
    ctx.text(rule, 'every run calls on_reset() and restarts the skipped counter: in imatch every path from entry to a normal exit passes '
                   'self.on_reset() and `self._skipped = 0` (also a run on an already-killed object)')
    repo = ctx.repo
    im = repo.func('wcmatch', 'WcMatch.imatch')
    q = fq(im)
    resets = q.nodes_of_calls(lambda s: s == 'self.on_reset')
    zero = {q.node_of(s) for s in q.stmts(lambda n: isinstance(n, ast.Assign) and norm_src(n) == 'self._skipped = 0')}
    ok1 = bool(resets) and q.cfg.exit.id not in q.cfg.reachable_from(q.cfg.entry.id, blocked_nodes=resets, labels={'n', 'T', 'F'})
    ok2 = bool(zero) and q.cfg.exit.id not in q.cfg.reachable_from(q.cfg.entry.id, blocked_nodes=zero, labels={'n', 'T', 'F'})
    ctx.ob(rule, 'wcmatch:WcMatch.imatch/prologue-on-every-path', ok1 and ok2, repo.loc('wcmatch', im.node),
           'no path from entry to exit avoids on_reset() or `_skipped = 0`', f'on_reset unavoidable={ok1}, counter reset unavoidable={ok2}',
           witness='match(); kill(); match(): the killed run must still call on_reset once and report get_skipped() == 0')


def rule_pathlib_norm(ctx: Ctx, rule: str) -> None:
    ctx.text(rule, "pathlib uniqueness key: _pathlib_norm removes `.` segments with the platform's regex and strips one trailing "
                   'separator from every path longer than one character')
    repo = ctx.repo
    fi = repo.func('glob', 'Glob._pathlib_norm')
    from ..symeval import SymEval, Opaque, Obj, _tag, focus
    pars = [p for p in fi.params() if p != 'self']
    if len(pars) != 1:
        raise AnalysisError('Glob._pathlib_norm: one parameter expected')
    ev = SymEval(repo, inline=False)
    paths = ev.tabulate(fi, {pars[0]: Opaque('path')}, Obj(('glob', 'Glob'), {}))
    X = 'self.re_pathlib_norm.sub(self.empty, path)'

    def long_enough(atom: str, val: bool) -> bool | None:
        """Truth of `len(X) >= 2` implied by the decided length comparison (None: not a length test of X against a constant)."""
        try:
            e = ast.parse(atom.replace(X, 'X'), mode='eval').body
        except SyntaxError:
            return None
        if not (isinstance(e, ast.Compare) and len(e.ops) == 1):
            return None
        l, r, op = e.left, e.comparators[0], type(e.ops[0])
        if isinstance(l, ast.Constant):
            l, r, op = r, l, {ast.Lt: ast.Gt, ast.LtE: ast.GtE, ast.Gt: ast.Lt, ast.GtE: ast.LtE}.get(op, op)
        if not (norm_src(l) == 'len(X)' and isinstance(r, ast.Constant) and isinstance(r.value, int)):
            return None
        k = r.value
        lo = {ast.Gt: k + 1, ast.GtE: k}.get(op)          # true  <=> len >= lo
        hi = {ast.Lt: k - 1, ast.LtE: k}.get(op)          # true  <=> len <= hi
        if lo is not None:
            return val if lo == 2 else None
        if hi is not None:
            return (not val) if hi == 1 else None
        return None
    bad = []
    for p in paths:
        focus(p)
        d = dict(p.decisions)
        le = [long_enough(k, v) for k, v in d.items() if 'len(' in k]
        tail = [v for k, v in d.items() if k in (f'{X}[-1:] in self.seps', f'{X}.endswith(self.seps)')]
        other = [k for k in d if 'len(' not in k and k not in (f'{X}[-1:] in self.seps', f'{X}.endswith(self.seps)')]
        known = (len(le) == 1 and le[0] is not None) or (not le and tail == [False])
        strip = bool(le and le[0]) and tail == [True] if le else False
        if not le and tail == [True]:
            known = False
        if le and le[0] and len(tail) != 1:
            known = False
        want = f'{X}[:-1]' if strip else X
        if other or not known or _tag(p.ret) != want:
            bad.append(f'{d} -> {_tag(p.ret)[:80]}')
    ok = len(paths) >= 3 and not bad
    got = f'{len(paths)} rows agree' if ok else (bad[0] if bad else f'{len(paths)} rows')
    ctx.ob(rule, 'glob:Glob._pathlib_norm/strip-rule', ok, repo.loc('glob', fi.node), 'path[:-1] if len(path) >= 2 and path[-1:] in self.seps else path', got,
           witness="Path('.').glob(['*', '*/']) must not yield the one-letter directory `a` twice")
    subs = [c for c in walk_no_nested(fi.node) if isinstance(c, ast.Call) and norm_src(c.func) == 'self.re_pathlib_norm.sub']
    ctx.ob(rule, 'glob:Glob._pathlib_norm/dot-segments', len(subs) == 1 and [norm_src(a) for a in subs[0].args] == ['self.empty', 'path'], repo.loc('glob', fi.node),
           'path = self.re_pathlib_norm.sub(self.empty, path)', norm_src(subs[0]) if subs else 'none')


def rule_mypy_str_bytes(ctx: Ctx, rule: str) -> None:
    ctx.text(rule, "type-checked program (the repository's own mypy, strict as configured in pyproject.toml, run on the source, nothing "
                   'imported or executed): no diagnostic that confuses str and bytes (AnyStr assignments, arguments, returns)')
    repo = ctx.repo
    exe = '/venv/bin/python'
    try:
        p = subprocess.run([exe, '-m', 'mypy', '--strict', '--show-error-codes', '--no-incremental', '--cache-dir', os.devnull,
                            '--no-error-summary', '--hide-error-context', 'wcmatch'],
                           cwd=repo.root, capture_output=True, text=True, timeout=120)
    except (OSError, subprocess.TimeoutExpired) as e:
        raise AnalysisError(f'mypy could not be run: {e}') from None
    lines = [ln for ln in p.stdout.splitlines() if ': error:' in ln]
    if p.returncode not in (0, 1):
        raise AnalysisError('mypy failed: ' + (p.stderr or p.stdout)[-300:])
    import re as _re

    def lost_narrowing(ln: str) -> bool:
        # `expression has type "bytes | str"`: both alternatives are still present in the value mypy sees, i.e. it could not
        # follow the test that selects one of them (a boolean local instead of an inline isinstance) -- no evidence of a mix-up
        m = _re.search(r'expression has type "([^"]*)"', ln)
        return bool(m and '|' in m.group(1) and 'str' in m.group(1) and 'bytes' in m.group(1))
    hits = [ln for ln in lines if 'bytes' in ln and 'str' in ln and not lost_narrowing(ln)]
    ctx.count('mypy_diagnostics', len(lines))
    ctx.count('mypy_str_bytes_diagnostics', len(hits))
    # advisory only: mypy reports the same `[assignment]` diagnostic for a behaviour-preserving edit that replaces an inline
    # isinstance test by a boolean local (it cannot narrow through the local) and for a real str/bytes mix-up, so the
    # diagnostics cannot decide the property; they are recorded in the evidence, the decision is made by the value tables below
    if hits:
        ctx.notes.append('mypy (advisory, not a verdict): ' + '; '.join(h.strip()[:140] for h in hits[:3]))
    rule_wcmatch_init_types(ctx, rule)


def rule_wcmatch_init_types(ctx: Ctx, rule: str) -> None:
    """WcMatch.__init__: the separator and the default patterns have the type of root_dir (slice table)."""
    from ..slicer import slice_function
    from ..symeval import focus
    repo = ctx.repo
    fi = repo.func('wcmatch', 'WcMatch.__init__')
    sl = slice_function(fi, {'self._sep', 'self.pattern_file', 'self.pattern_folder_exclude'}, keep_exits=False, name='typed-attrs')
    ev = SymEval(repo, inline=False)
    args = {p: Opaque(p) for p in fi.params() if p != 'self'}
    paths = ev.tabulate(sl, args, Obj(('wcmatch', 'WcMatch')))
    bad = []
    for p in paths:
        focus(p)
        isb = p.decisions.get('isinstance(root_dir, bytes)')
        if isb is None:
            bad.append('the type of root_dir is not consulted')
            continue
        if _tag(p.attrs.get('_sep')) != ('os.fsencode(os.sep)' if isb else 'os.sep'):
            bad.append(f'bytes={isb}: _sep = {_tag(p.attrs.get("_sep"))}')
        for attr, par in (('pattern_file', 'file_pattern'), ('pattern_folder_exclude', 'exclude_pattern')):
            given = p.decisions.get(f'{par} is not None')
            v = p.attrs.get(attr)
            if given is None:
                given = p.decisions.get(par)  # truthiness used instead of `is not None`
            want = par if given else ("os.fsencode('')" if isb else "''")
            if _tag(v) not in (want, "b''" if (isb and not given) else want):
                bad.append(f'bytes={isb} {par} given={given}: self.{attr} = {_tag(v)}')
    ctx.ob(rule, 'wcmatch:WcMatch.__init__/typed-defaults', not bad and len(paths) >= 8, repo.loc('wcmatch', fi.node),
           'self._sep and the default (empty) patterns are bytes iff root_dir is bytes; given patterns are kept', f'{len(paths)} rows agree' if not bad else sorted(set(bad))[0],
           witness="WcMatch(b'.', None) must use a bytes catch-all pattern: every bytes file name would raise TypeError and be swallowed as an error")


def rule_sequence_separator(ctx: Ctx, rule: str) -> None:
    ctx.text(rule, 'FORCEWIN: `/` and `\\` are interchangeable, also inside a bracket expression of a name pattern: the arm of '
                   'WcParse._sequence that keeps a `/` inside the class must emit the separator class unless unix rules apply '
                   '(as _references does for escaped separators)')
    repo = ctx.repo
    from . import seqrules
    from ..symeval import focus
    sq = repo.func(WP, 'WcParse._sequence')
    rows, scan, _every = seqrules.loop_table(repo, WP, 'WcParse')
    got = []
    n = 0
    for p in rows:
        focus(p)
        if seqrules._char(p, scan) != '/' or p.raised:
            continue
        n += 1
        vals = [e[2][0] for e in p.of('call') if e[1].endswith('.append') and e[2]] + \
               [e[2][1] for e in p.of('call') if e[1] == f'{WP}:WcParse._sequence_range_check' and len(e[2]) > 1]
        unix = p.decisions.get('self.unix')
        for v in vals:
            t = _tag(v)
            if unix is True or 'self.bare_sep' in t or 'self.sep' in t or '\\\\' in t:
                continue
            got.append('value = c' if t == scan else f'value = {t[:60]}')
    if not n:
        raise AnalysisError('WcParse._sequence: no row of the scan loop keeps a `/` inside the bracket')
    ok = not got
    ctx.ob(rule, f'{WP}:WcParse._sequence/separator-in-brackets', ok, repo.loc(WP, sq.node),
           'value = separator class when not unix', sorted(set(got))[0] if got else f'{n} rows emit the separator class', note='F18',
           witness="fnmatch('a\\\\b', 'a[/]b', flags=FORCEWIN) is False although fnmatch('a\\\\b', 'a/b', flags=FORCEWIN) is True")


FORWARD_MODULES = ('fnmatch', 'glob', 'pathlib', '_wcparse', '_wcmatch')
FORWARD_SKIP = {'self', 'cls', 'flags'}  # flags are transformed on the way (checked by the flag-flow rules)


def _mentions(v: Any, p: str) -> bool:
    import re as _re
    if isinstance(v, BV):
        return v.origin == p
    if isinstance(v, (Opaque, Tok)):
        return _re.search(rf'(?<![\w.]){_re.escape(p)}(?![\w])', _tag(v)) is not None
    if isinstance(v, (tuple, list)):
        return any(_mentions(x, p) for x in v)
    return False


def rule_same_name_forwarding(ctx: Ctx, rule: str) -> None:
    ctx.text(rule, 'same-name forwarding (on call events of the decision tables, i.e. on argument values): when a function of the public '
                   'layers (fnmatch, glob, pathlib, _wcparse entry points, matcher objects) calls a package function that has a '
                   'parameter with the same name as one of its own parameters, the value bound to that parameter is derived from the '
                   "caller's own parameter on every path (never another value, never silently the default; `None` only on a path that "
                   'tested the parameter)')
    from ..callgraph import resolve_callee
    from .common import api_table, bind_call
    repo = ctx.repo
    n = 0
    for mod in FORWARD_MODULES:
        m = repo.mod(mod)
        for fi in m.functions.values():
            if not hasattr(fi.node, 'args') or fi.qualname.startswith('<lambda') or fi.parent is not None:
                continue
            if mod in ('_wcparse',) and fi.qualname not in ('compile',):
                continue  # the expansion pipeline below the entry points re-uses these names for derived values
            if mod == '_wcmatch' and not fi.qualname.startswith(('WcRegexp.', 'WcMatcher.')):
                continue
            if mod == 'glob' and fi.qualname.startswith(('Glob._', '_GlobSplit.')):
                continue
            own = [p for p in fi.params() if p not in FORWARD_SKIP]
            if not own:
                continue
            try:
                ev, paths = api_table(repo, mod, fi.qualname, max_paths=512)
            except AnalysisError:
                ctx.count(f'{rule}:functions not tabulated')
                continue
            verdict: dict[tuple[str, str], tuple[bool, str, Any]] = {}
            for p_ in paths:
                for e in p_.of('call'):
                    _k, name, args, kwargs, node, _c = e
                    if any(isinstance(a, ast.Starred) for a in node.args) or any(k.arg is None for k in node.keywords):
                        continue
                    r = resolve_callee(repo, fi, node)
                    if not isinstance(r, list) or not r:
                        continue
                    callee = r[0]
                    if not hasattr(callee.node, 'args'):
                        continue
                    if fi.fq == '_wcparse:compile' and callee.fq != '_wcparse:compile_pattern':
                        continue
                    cparams = [x for x in callee.params() if x not in ('self', 'cls')]
                    kwonly = {a.arg for a in callee.node.args.kwonlyargs}
                    pos = [x for x in cparams if x not in kwonly]
                    bound = dict(kwargs)
                    for i_, a in enumerate(args):
                        if i_ < len(pos):
                            bound[pos[i_]] = a
                    for p in own:
                        if p not in cparams:
                            continue
                        key = (callee.fq.split(':')[1], p)
                        if p not in bound:
                            verdict[key] = (False, '<not passed>', node)
                            continue
                        v = bound[p]
                        ok = _mentions(v, p) or (v is None and any(_mentions(Opaque(a), p) for a in p_.decisions))
                        if key not in verdict or (verdict[key][0] and not ok):
                            verdict[key] = (ok, _tag(v)[:80], node)
            for (cq, p), (ok, got, node) in sorted(verdict.items()):
                n += 1
                ctx.ob(rule, f'{fi.fq}->{cq}/{p}', ok, repo.loc(mod, node), f'{p} = a value derived from the parameter {p}', f'{p}={got}',
                       witness=f"{fi.qualname}(..., {p}=X) must hand X to {cq}: e.g. glob(root_dir=…)/dir_fd=/exclude= silently ignored or crossed")
    ctx.floor(rule, 'same-name parameter hand-overs', n, 60)


def rule_match_siblings(ctx: Ctx, rule: str) -> None:
    ctx.text(rule, 'WcRegexp.match and WcRegexp.filter (decision tables with call events, helpers of the class inlined): a falsy '
                   'argument returns False / [] without matching; otherwise one _Match per file name is built from os.fspath(name) and '
                   'the five stored fields, each in its own slot, and .match receives root_dir (fspath-ed, None kept) and dir_fd; '
                   '_Match.__init__ stores every parameter in the like-named attribute')
    from .common import api_table, bind_call
    repo = ctx.repo
    want = {'include': Opaque('self._include'), 'exclude': Opaque('self._exclude'), 'real': Opaque('self._real'),
            'path': Opaque('self._path'), 'follow': Opaque('self._follow')}
    helpers = {f.fq for f in repo.cls('_wcmatch', 'WcRegexp').methods.values()}
    for meth, arg, elem in (('match', 'filename', 'filename'), ('filter', 'filenames', 'elem(filenames)')):
        f = repo.func('_wcmatch', f'WcRegexp.{meth}')
        ev, paths = api_table(repo, '_wcmatch', f'WcRegexp.{meth}', inline=True, inline_only=helpers)
        bad_c, bad_m, bad_e = [], [], []
        for p in paths:
            cons = p.calls_to('_wcmatch:_Match')
            if p.decisions.get(arg) is False:
                if cons or p.ret not in (False, []):
                    bad_e.append(f'falsy {arg}: returns {p.ret!r}, {len(cons)} _Match built')
                continue
            if len(cons) != 1:
                bad_c.append(f'{len(cons)} _Match constructions on a path')
                continue
            b = bind_call(repo, '_wcmatch:_Match', cons[0][1], cons[0][2])
            if b.get('filename') != Opaque(f'os.fspath({elem})'):
                bad_c.append(f'filename={b.get("filename")!r}')
            for k, v in want.items():
                if b.get(k) != v:
                    bad_c.append(f'{k}={b.get(k)!r}')
            if meth == 'filter' and not any(c.startswith('for:filenames') for c in cons[0][3]):
                bad_c.append('_Match built outside the per-name iteration')
            ms = p.calls_to(lambda s_: s_.startswith('_wcmatch:_Match(') and s_.endswith(').match'))
            if len(ms) != 1:
                bad_m.append(f'{len(ms)} .match calls')
                continue
            mb = bind_call(repo, '_wcmatch:_Match.match', ms[0][1], ms[0][2])
            notnone = p.decisions.get('root_dir is not None')
            exp_rd = Opaque('os.fspath(root_dir)') if notnone else None
            if notnone is None or mb.get('root_dir') != exp_rd or mb.get('dir_fd') != Opaque('dir_fd') or set(mb) != {'root_dir', 'dir_fd'}:
                bad_m.append(f'root_dir is not None={notnone}: {mb}')
        ctx.ob(rule, f'_wcmatch:WcRegexp.{meth}/_Match-arguments', not bad_c and len(paths) >= 3, repo.loc('_wcmatch', f.node),
               '_Match(os.fspath(<name>), ' + ', '.join(f'self._{k}' for k in want) + '), one per name',
               'as expected' if not bad_c else '; '.join(bad_c[:3]), witness='swapping _real and _path makes REALPATH matchers ignore the file system')
        ctx.ob(rule, f'_wcmatch:WcRegexp.{meth}/match-arguments', not bad_m and len(paths) >= 3, repo.loc('_wcmatch', f.node),
               '.match(root_dir=<fspath of root_dir, None kept>, dir_fd=dir_fd)', 'as expected' if not bad_m else '; '.join(bad_m[:2])[:200])
        ctx.ob(rule, f'_wcmatch:WcRegexp.{meth}/falsy-argument', not bad_e, repo.loc('_wcmatch', f.node),
               'returns False / [] without building a matcher', 'as expected' if not bad_e else bad_e[0])
    init = repo.func('_wcmatch', '_Match.__init__')
    pairs = {norm_src(s.targets[0]): norm_src(s.value) for s in walk_no_nested(init.node) if isinstance(s, ast.Assign)}
    want2 = {f'self.{p}': p for p in ('filename', 'include', 'exclude', 'real', 'path', 'follow')}
    bad = {k: pairs.get(k) for k, v in want2.items() if pairs.get(k) != v}
    ctx.ob(rule, '_wcmatch:_Match.__init__/field-sources', not bad, repo.loc('_wcmatch', init.node), 'self.x = x for the six fields', 'ok' if not bad else str(bad))
    ctx.ob(rule, '_wcmatch:_Match.__init__/parameter-order', init.params() == ['self', 'filename', 'include', 'exclude', 'real', 'path', 'follow'],
           repo.loc('_wcmatch', init.node), '(filename, include, exclude, real, path, follow)', str(init.params()))


def rule_lookahead_putback(ctx: Ctx, rule: str) -> None:
    ctx.text(rule, 'look-ahead / put-back pairing in the parser: a `while c == K: c = next(i)` scan reads one character too many, so its '
                   'normal exit must be followed by i.rewind(1)')
    repo = ctx.repo
    from ..symeval import SymEval, Obj, Opaque, focus
    from .seqrules import star_table
    n = 0

    def scan_loop(w: ast.AST) -> bool:
        if not isinstance(w, ast.While) or isinstance(w.test, ast.Constant):
            return False
        def reads(e: ast.AST) -> bool:
            return any(isinstance(c, ast.Call) and isinstance(c.func, ast.Name) and c.func.id == 'next' and len(c.args) == 1 for c in ast.walk(e))
        if reads(w.test):
            return True
        tested = {x.id for x in ast.walk(w.test) if isinstance(x, ast.Name)}
        for st in ast.walk(ast.Module(body=list(w.body), type_ignores=[])):
            if isinstance(st, (ast.Assign, ast.NamedExpr)) and reads(st.value):
                tg = st.targets if isinstance(st, ast.Assign) else [st.target]
                if any(isinstance(t, ast.Name) and t.id in tested for t in tg):
                    return True
        return False
    for qn in ('WcParse.consume_path_sep', 'WcParse._handle_star'):
        fi = repo.func(WP, qn)
        if qn.endswith('_handle_star'):
            paths = star_table(repo)
        else:
            pars = [p for p in fi.params() if p != 'self']
            ev = SymEval(repo, inline=False, explore_handlers=True, loop_mode='skip', max_paths=20000)
            paths = ev.tabulate(fi, {pars[0]: Opaque('i')}, Obj((WP, 'WcParse'), {}))
        verdict: dict[int, list] = {}
        loops: dict[int, ast.AST] = {}
        for p in paths:
            focus(p)
            evs = p.events
            for k, e in enumerate(evs):
                if e[0] != 'loop' or not scan_loop(e[1]):
                    continue
                loops[id(e[1])] = e[1]
                rest = evs[k + 1:]
                if any(x[0] == 'except' for x in rest):
                    continue  # the run was cut short by the end of the pattern: nothing was read too far
                nxt = next((x for x in rest if x[0] in ('call', 'loop', 'store', 'yield')), None)
                ok = nxt is not None and nxt[0] == 'call' and nxt[1].endswith('.rewind') and nxt[2] == [1] and not nxt[3]
                if p.raised and nxt is None:
                    continue
                verdict.setdefault(id(e[1]), []).append(ok if ok else (f'{nxt[1]}({nxt[2]})' if nxt is not None and nxt[0] == 'call' else 'nothing is put back'))
        for lid, w in sorted(loops.items(), key=lambda kv: kv[1].lineno):
            n += 1
            res = verdict.get(lid, [])
            bad = [r for r in res if r is not True]
            kind = ''.join(sorted({repr(c.value) for c in ast.walk(w.test) if isinstance(c, ast.Constant)}))
            ctx.ob(rule, f'{WP}:{qn}/putback[{kind}]', bool(res) and not bad, repo.loc(WP, w), 'on the normal exit of the scan loop the next effect is <iterator>.rewind(1)',
                   f'{len(res)} rows agree' if res and not bad else (str(bad[0])[:80] if bad else 'the exit of the loop is never reached in the table'),
                   witness="globmatch('a/b', 'a//b') / fnmatch('ab', '**b'): the character after the run would be swallowed")
    ctx.floor(rule, 'scan loops', n, 3)
    # which runs are folded: a run of `/` in POSIX mode; a run of `/` and `\\` mixed in Windows mode; a run of `*`
    kinds = sorted({k.rsplit('putback[', 1)[1][:-1] for k in ctx.keys_of(rule) if '/putback[' in k})
    want = sorted(["'/'", "'/''\\\\'", "'*'"])
    ctx.ob(rule, f'{WP}:WcParse/folded-runs', kinds == want, repo.loc(WP, repo.func(WP, 'WcParse.consume_path_sep').node),
           f'scan loops fold runs of {want}', str(kinds), witness="globmatch('a/b', 'a//b', FORCEWIN) must be True like under FORCEUNIX: in Windows mode `/` and `\\` both continue a separator run")


def inverse_cleanup_table(repo: Repo) -> list:
    """Decision table (with events) of WcParse.clean_up_inverse; the loop body is abstracted to one placeholder."""
    def build() -> list:
        from ..symeval import SymEval, Obj, Opaque
        ev = SymEval(repo, inline=False)
        fn = repo.func(WP, 'WcParse.clean_up_inverse')
        pr = [p for p in fn.params() if p != 'self']
        if len(pr) < 2:
            raise AnalysisError('clean_up_inverse: expected (current, nested)')
        args = {p: Opaque(p) for p in pr[2:]}  # any further parameter is an input the table may branch on
        args.update({pr[0]: Opaque('current'), pr[1]: Opaque('nested')})
        return ev.tabulate(fn, args, Obj((WP, 'WcParse')))
    return cached(repo, 'inverse_cleanup_table', build)


def _dec(p: Any, pred: Any) -> bool | None:
    hits = [v for k, v in p.decisions.items() if pred(k)]
    return hits[0] if len(hits) == 1 else None


def rule_inverse_cleanup(ctx: Ctx, rule: str) -> None:
    ctx.text(rule, 'clean_up_inverse (decision table over inv_ext / placeholder test / nested / pathname / capture, loop body abstracted): '
                   'the rest-of-pattern slot of `!(…)` is closed with the end-of-name assertion (_EOP in name mode, path_eop in path '
                   'mode) unless the group is nested, before the rest is joined; the placeholder is replaced by rest + close template '
                   'formatted with the placeholder itself; the counter of open inverse groups is cleared')
    repo = ctx.repo
    fi = repo.func(WP, 'WcParse.clean_up_inverse')
    site = repo.loc(WP, fi.node)
    paths = inverse_cleanup_table(repo)
    eop = repo.const(WP, '_EOP')
    close = repo.const(WP, '_EXCLA_GROUP_CLOSE')
    writes = [p for p in paths if p.of('setitem')]
    ctx.floor(rule, 'placeholder rewriting paths', len(writes), 4)
    bad_end, bad_close, bad_test = [], [], []
    for p in writes:
        sets = p.of('setitem')
        _k, base, idx, val, _n, _c = sets[0]
        nested = _dec(p, lambda k: k == 'nested')
        pathname = _dec(p, lambda k: k == 'self.pathname')
        isph = _dec(p, lambda k: k.startswith('isinstance(') and 'InvPlaceholder' in k and f'{_tag(base)}[{_tag(idx)}]' in k)
        if len(sets) != 1 or isph is not True:
            bad_test.append(str(p.decisions))
        # the value written back, as a value: join(rest) [+ end assertion] [.replace(marker)] + close template
        from ..symeval import _parts
        capture = _dec(p, lambda k: k == 'self.capture')
        rest = Opaque(f"''.join({_tag(base)}[({_tag(idx)}+1):])")
        closefmt = Tok((f'format({close!r}; str({_tag(base)}[{_tag(idx)}]))',))

        def expected(with_end: bool, pn: Any, cap: Any) -> str:
            inner: Any = rest
            if with_end:
                inner = Tok(_parts(rest) + _parts(Opaque('self.path_eop') if pn else eop))
            if cap:
                inner = Opaque(f"{_tag(inner)}.replace('(?#)', '?:')")
            return _tag(Tok(_parts(inner) + _parts(closefmt)))
        got = _tag(val)
        if nested is None or capture is None or (nested is False and pathname is None):
            bad_end.append(f'the written value is not decided by nested / pathname / capture: {sorted(p.decisions)}')
        elif got != expected(not nested, pathname, capture):
            # which clause fails?
            if got == expected(nested, pathname, capture) or got == expected(not nested, not pathname, capture) or \
                    not any(got == expected(w, pn, capture) for w in (True, False) for pn in (True, False)):
                bad_end.append(f'nested={nested} pathname={pathname}: writes {got[:110]}')
            if not got.endswith(_tag(closefmt)) or not any(got == expected(w, pn, capture) for w in (True, False) for pn in (True, False)):
                bad_close.append(got[:140])
    ctx.ob(rule, f'{WP}:WcParse.clean_up_inverse/end-assertion', not bad_end, site,
           'not nested: the joined rest is followed by _EOP (name mode) / self.path_eop (path mode); nested: by nothing',
           'as expected' if not bad_end else '; '.join(bad_end[:2]),
           witness="globmatch('ab/', '!(a)', EXTGLOB): in path mode the negation must also stop at a separator")
    from ..symeval import focus
    quiet = [p for p in paths if _dec(p, lambda k: k == 'self.inv_ext') is False]
    busy = [p for p in paths if _dec(p, lambda k: k == 'self.inv_ext') is True]
    okq = bool(quiet) and all(len(p.events) == 1 for p in quiet)
    # accounting: the counter goes down by the number of groups closed here -- groups still open in an enclosing list stay counted
    import re as _re
    bad_acc = []
    for p in busy:
        focus(p)
        stores = [e for e in p.events if e[0] == 'store' and e[1] == 'self.inv_ext']
        wrote = bool(p.of('setitem'))
        ends = [e for e in p.of('iterend') if e[2] == 'next']
        if len(stores) != 1:
            bad_acc.append(f'{len(stores)} writes of self.inv_ext on a path')
            continue
        t = _tag(stores[0][2])
        after_loop = not ends or p.events.index(stores[0]) > p.events.index(ends[-1])
        m = _re.fullmatch(r'\(self\.inv_ext-(loop@\w+:(\w+))\)', t)
        if after_loop and m:
            for e in ends:
                now = _tag(e[3].get(m.group(2), Opaque(m.group(1))))
                want = f'({m.group(1)}+1)' if wrote else m.group(1)
                if now != want:
                    bad_acc.append(f'closed a group={wrote}: the count of closed groups becomes {now}')
        elif after_loop and t in ('self.inv_ext', '(self.inv_ext-0)') and not ends:
            pass  # no iteration: nothing closed, nothing subtracted
        elif not after_loop and t == '(self.inv_ext-1)' and wrote:
            pass  # decremented where the group is closed
        else:
            bad_acc.append(f'self.inv_ext = {t}' + ('' if after_loop else ' inside an iteration that closes no group' if not wrote else ''))
    okb = bool(busy) and not bad_acc
    ctx.ob(rule, f'{WP}:WcParse.clean_up_inverse/counter', okq and okb and len(quiet) + len(busy) == len(paths), site,
           'returns without effect when no inverse group is open; otherwise inv_ext is reduced by exactly the number of placeholders rewritten in this list',
           f'quiet={okq} busy={okb}' + (f': {sorted(set(bad_acc))[0]}' if bad_acc else ''),
           witness="fnmatch('b', '!(a)@(@(b))', EXTMATCH) must not raise re.error: the inner list has no placeholder, the outer `!(a)` is still open")
    ctx.ob(rule, f'{WP}:WcParse.clean_up_inverse/close-template', not bad_close, site,
           "placeholder := ''.join(rest)… + _EXCLA_GROUP_CLOSE.format(str(placeholder))", 'as expected' if not bad_close else bad_close[0],
           witness="fnmatch('b', '!(a)', E): the placeholder carries the star that follows the assertion")
    ctx.ob(rule, f'{WP}:WcParse.clean_up_inverse/placeholder-test', not bad_test, site,
           'an element is rewritten only when it is an InvPlaceholder', 'as expected' if not bad_test else bad_test[0])


def rule_sequence_shape(ctx: Ctx, rule: str) -> None:
    ctx.text(rule, 'bracket expressions: WcParse._sequence opens with `[`, emits `^` iff the first character is `!` or `^`, takes a leading '
                   '`[`, `-` or `]` literally (escaped), escapes the set operators & ~ | and closes with `]`')
    repo = ctx.repo
    sq = repo.func(WP, 'WcParse._sequence')
    q = fq(sq)
    from . import seqrules
    seqrules.rule_sequence_prologue(ctx, rule, which={'opens', 'negation', 'leading-literals'})
    seqrules.rule_sequence_epilogue(ctx, rule, which={'closes'})
    so = repo.const(WP, 'SET_OPERATORS')
    ctx.ob(rule, f'{WP}:SET_OPERATORS', so == frozenset(('&', '~', '|')), repo.loc(WP, repo.const_line(WP, 'SET_OPERATORS')), "{'&', '~', '|'}", str(sorted(so)),
           witness="fnmatch('&', '[&&]') must not trigger Python's nested-set syntax")
    seqrules.rule_scan_loops(ctx, rule, which={'set-operators-escaped', 'posix-marker-cleared', 'posix-in-loop', 'range-end-cleared-by-posix', 'range-end-cleared-by-check'})
    # hyphens, on the table of one loop iteration: a `-` is emitted raw only as a range delimiter (and that iteration records where
    # the range ends); every other `-` is emitted as `\\-`
    from ..symeval import focus, Tok
    rows, scan, _every = seqrules.loop_table(repo, WP, 'WcParse')
    bad_h = []
    n_esc = n_raw = 0
    for p in rows:
        focus(p)
        if seqrules._char(p, scan) != '-':
            continue
        vals = [e[2][0] for e in p.of('call') if e[1].endswith('.append') and e[2]] + \
               [e[2][1] for e in p.of('call') if e[1] == f'{WP}:WcParse._sequence_range_check' and len(e[2]) > 1]
        for v in vals:
            if isinstance(v, Tok) and v.parts == ('\\', '{' + scan + '}'):
                n_esc += 1
            elif _tag(v) == scan:
                n_raw += 1
                marks = [k for e in p.of('iterend') if e[2] == 'next' for k, x in e[3].items() if _tag(x) == 'i.index']
                if not marks:
                    bad_h.append('a raw `-` is emitted by an iteration that does not record a range end')
            else:
                bad_h.append(f'`-` is emitted as {_tag(v)[:40]}')
        if not vals:
            bad_h.append('an iteration on `-` emits nothing')
    ctx.ob(rule, f'{WP}:WcParse._sequence/literal-hyphen-escaped', n_esc >= 2 and n_raw >= 1 and not bad_h, repo.loc(WP, sq.node),
           "a `-` that is not a range delimiter is emitted as `\\-`; the delimiter records the range end", f'{n_esc} escaped / {n_raw} delimiter rows' if not bad_h else sorted(set(bad_h))[0],
           witness="fnmatch('-', '[a-c-]') must be True and must not create a second range")


def rule_is_hidden(ctx: Ctx, rule: str) -> None:
    ctx.text(rule, 'util.is_hidden (decision table, sys.platform symbolic): a base name starting with `.` (str or bytes) is hidden on every '
                   'platform and no file-system call is needed for it; otherwise only the platform attribute decides (win32: '
                   'FILE_ATTRIBUTE_HIDDEN, darwin: UF_HIDDEN, elsewhere: not hidden)')
    from .common import api_table
    from ..symeval import focus
    repo = ctx.repo
    fi = repo.func('util', 'is_hidden')
    _ev, paths = api_table(repo, 'util', 'is_hidden')
    bad_d, bad_p = [], []
    for p in paths:
        focus(p)
        d = p.decisions
        dots = {k: v for k, v in d.items() if k.startswith('os.path.basename(path)[:1] == ') or k.startswith('os.path.basename(path)[0:1] == ')}
        dot = any(dots.values())
        consts = sorted(k.split(' == ', 1)[1] for k in dots)
        if dot:
            if as_bool_(p) is not True or p.calls_to('os.lstat') or p.calls_to('os.stat'):
                bad_d.append(f'dot name: returns {p.ret!r}, fs calls {len(p.calls_to("os.lstat"))}')
            continue
        if consts != ["'.'", "b'.'"]:
            bad_d.append(f'not a dot name decided by {consts}')
            continue
        win, mac = d.get("sys.platform == 'win32'"), d.get("sys.platform == 'darwin'")
        if win is None or (win is False and mac is None):
            bad_p.append('platform not consulted for a non-dot name')
        elif not win and not mac and as_bool_(p) is not False:
            bad_p.append(f'other platform: returns {p.ret!r}')
        elif (win or mac) and len(p.calls_to('os.lstat')) != 1:
            bad_p.append('platform attribute not read with os.lstat(path)')
    ctx.ob(rule, 'util:is_hidden/dot-files', not bad_d and len(paths) >= 4, repo.loc('util', fi.node), "basename(path)[:1] in ('.', b'.') -> True, on every platform, without touching the file system",
           f'{len(paths)} rows agree' if not bad_d else bad_d[0], witness="WcMatch('.', '*') must skip '.git' (str and bytes) unless HIDDEN")
    ctx.ob(rule, 'util:is_hidden/returns', not bad_p and len(paths) >= 4, repo.loc('util', fi.node), 'other names: hidden only by the platform attribute (win32 / darwin), False elsewhere',
           'as expected' if not bad_p else bad_p[0])


def as_bool_(p: Any) -> Any:
    from .common import as_bool
    return as_bool(p, p.ret)


def rule_descriptor_presence(ctx: Ctx, rule: str) -> None:
    ctx.text(rule, 'a directory descriptor is an int and 0 is a valid one: wherever glob.py / _wcmatch.py decide whether a descriptor was '
                   'given (`dir_fd` parameter, self.dir_fd), the test is an identity test against None, never truthiness (consistency rule: '
                   'all sites must agree with the majority form `is None` / `is not None`)')
    repo = ctx.repo
    n = 0

    def is_fd(x: ast.AST) -> bool:
        return (isinstance(x, ast.Name) and x.id == 'dir_fd') or (isinstance(x, ast.Attribute) and x.attr == 'dir_fd')

    for mod in ('glob', '_wcmatch'):
        for fi in repo.mod(mod).functions.values():
            if not hasattr(fi.node, 'body') or isinstance(fi.node, ast.Lambda):
                continue
            for x in walk_no_nested(fi.node):
                tests: list[ast.AST] = []
                if isinstance(x, (ast.If, ast.While, ast.IfExp)):
                    tests.append(x.test)
                elif isinstance(x, ast.Assert):
                    tests.append(x.test)
                for t in tests:
                    todo = [t]
                    while todo:
                        e = todo.pop()
                        if isinstance(e, ast.BoolOp):
                            todo.extend(e.values)
                        elif isinstance(e, ast.UnaryOp) and isinstance(e.op, ast.Not):
                            todo.append(e.operand)
                        elif is_fd(e):
                            n += 1
                            ctx.ob(rule, f'{fi.fq}/descriptor-truthiness@{n}', False, repo.loc(mod, e), '`is None` / `is not None`', f'truthiness of {norm_src(e)}',
                                   witness="glob('name', dir_fd=0) must look the name up relative to descriptor 0, like any other descriptor")
                        elif isinstance(e, ast.Compare) and len(e.ops) == 1 and is_fd(e.left) and isinstance(e.ops[0], (ast.Is, ast.IsNot)) and \
                                isinstance(e.comparators[0], ast.Constant) and e.comparators[0].value is None:
                            n += 1
                            ctx.ob(rule, f'{fi.fq}/descriptor-test@{n}', True, repo.loc(mod, e), '`is None` / `is not None`', norm_src(e))
    ctx.floor(rule, 'descriptor presence tests', n, 5)
