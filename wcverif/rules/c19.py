"""C19: results never depend on call history, caching, sharing or threads (effect analysis)."""
from __future__ import annotations

import ast
from typing import Any

from ..callgraph import callgraph, local_names
from ..model import (AnalysisError, ClassRef, ExtRef, FuncRef, ModRef, RegexConst, Repo, norm_src, walk_no_nested,
                     ModuleInfo, FuncInfo)
from ..report import Ctx

WP = '_wcparse'
MUTATORS = {'append', 'add', 'update', 'pop', 'clear', 'extend', 'insert', 'remove', 'setdefault', 'discard', 'popitem',
            'sort', 'reverse', '__setitem__', '__delitem__', 'appendleft', 'cache_clear'}


def module_state_writes(mod: ModuleInfo, fns: list[FuncInfo]) -> list[tuple[ast.AST, str, str]]:
    """(node, function qualname, description) for every write to module-level state from inside a function."""
    out = []
    modnames = set(mod.assigned_at) | set(mod.env)
    for fi in fns:
        if not hasattr(fi.node, 'body'):
            continue
        locs = local_names(fi)
        globals_decl: set[str] = set()
        for n in walk_no_nested(fi.node):
            if isinstance(n, (ast.Global, ast.Nonlocal)):
                globals_decl |= set(n.names)
                out.append((n, fi.qualname, f'{type(n).__name__.lower()} {", ".join(n.names)}'))
        # locals that are just another name of a module-level container (`d = _TABLE`): writes through them are writes to it
        alias: dict[str, str] = {}
        for n in walk_no_nested(fi.node):
            if isinstance(n, ast.Assign) and len(n.targets) == 1 and isinstance(n.targets[0], ast.Name) and isinstance(n.value, ast.Name) and \
                    n.value.id in modnames and n.value.id not in locs and isinstance(mod.env.get(n.value.id), (dict, list, set, bytearray)):
                alias[n.targets[0].id] = n.value.id
        for n in walk_no_nested(fi.node):
            # X.attr = v / X[k] = v / del on a module-level object or a module
            if isinstance(n, (ast.Assign, ast.AugAssign, ast.AnnAssign, ast.Delete)):
                for t in (n.targets if isinstance(n, (ast.Assign, ast.Delete)) else [n.target]):
                    b0 = t
                    while isinstance(b0, (ast.Attribute, ast.Subscript)):
                        b0 = b0.value
                    if isinstance(t, (ast.Attribute, ast.Subscript)) and isinstance(b0, ast.Name) and b0.id in alias:
                        out.append((n, fi.qualname, f'store into module-level object `{alias[b0.id]}` through its alias `{b0.id}`'))
            if isinstance(n, ast.Call) and isinstance(n.func, ast.Attribute) and n.func.attr in MUTATORS and \
                    isinstance(n.func.value, ast.Name) and n.func.value.id in alias:
                out.append((n, fi.qualname, f'mutating call on module-level object `{alias[n.func.value.id]}` through its alias `{n.func.value.id}`'))
            if isinstance(n, (ast.Assign, ast.AugAssign, ast.AnnAssign, ast.Delete)):
                tg = n.targets if isinstance(n, (ast.Assign, ast.Delete)) else [n.target]
                for t in tg:
                    base = t
                    while isinstance(base, (ast.Attribute, ast.Subscript)):
                        base = base.value
                    if isinstance(t, (ast.Attribute, ast.Subscript)) and isinstance(base, ast.Name):
                        if base.id in ('self', 'cls'):
                            continue
                        if (base.id not in locs or base.id in globals_decl) and base.id in modnames:
                            out.append((n, fi.qualname, f'store into module-level object `{norm_src(t)}`'))
            if isinstance(n, ast.Call) and isinstance(n.func, ast.Attribute) and n.func.attr in MUTATORS:
                base = n.func.value
                while isinstance(base, (ast.Attribute, ast.Subscript)):
                    base = base.value
                if isinstance(base, ast.Name) and base.id not in ('self', 'cls') and \
                        (base.id not in locs or base.id in globals_decl) and base.id in modnames:
                    v = mod.env.get(base.id)
                    if isinstance(v, (ModRef, ExtRef, FuncRef, ClassRef)) and n.func.attr != 'cache_clear':
                        continue
                    out.append((n, fi.qualname, f'mutating call `{norm_src(n.func)}` on a module-level object'))
            if isinstance(n, ast.Call) and isinstance(n.func, ast.Name) and n.func.id == 'setattr' and n.args:
                b = n.args[0]
                if isinstance(b, ast.Name) and b.id not in locs and b.id in modnames:
                    out.append((n, fi.qualname, f'setattr on module-level `{b.id}`'))
    return out


CONTROL_SNIPPET = '''
_CACHE = []
def remember(p):
    _CACHE.append(p)
    return len(_CACHE)
'''


def rule_no_module_state(ctx: Ctx, rule: str) -> None:
    ctx.text(rule, 'no function of the package writes module-level state: no global/nonlocal, no attribute/subscript store '
                   'or mutating method call on a module-level object, no mutable default argument, no mutable class '
                   'attribute; the only process-wide mutable object is the lru_cache of _compile')
    repo = ctx.repo
    # positive control: the detector must flag an embedded snippet
    import tempfile, os, shutil
    tree = ast.parse(CONTROL_SNIPPET)
    cm = ModuleInfo('ctrl', '<control>', CONTROL_SNIPPET, tree)
    cm.assigned_at = {'_CACHE': [2]}
    cm.env = {'_CACHE': []}
    cfn = FuncInfo('ctrl', 'remember', tree.body[1], None, None)
    if len(module_state_writes(cm, [cfn])) != 1:
        raise AnalysisError('C19-R1 positive control not flagged: the module-state detector is broken')
    nfun = 0
    for m in repo.modules.values():
        fns = list(m.functions.values())
        nfun += len(fns)
        writes = module_state_writes(m, fns)
        ctx.ob(rule, f'{m.name}/module-state-writes', not writes, repo.loc(m.name, writes[0][0] if writes else 1),
               'no write to module-level state from any function',
               'none' if not writes else '; '.join(f'{q}: {d}' for _n, q, d in writes[:4]),
               witness='a module-level memo/list written by calls makes results depend on call history and races under threads')
        # mutable defaults
        bad = []
        for fi in fns + m.overloads:
            if not hasattr(fi.node, 'args'):
                continue
            for p, d in fi.param_defaults().items():
                if isinstance(d, (ast.List, ast.Dict, ast.Set, ast.ListComp, ast.DictComp, ast.SetComp)) or \
                        (isinstance(d, ast.Call) and isinstance(d.func, ast.Name) and d.func.id in ('list', 'dict', 'set', 'bytearray')):
                    bad.append(f'{fi.qualname}({p}={norm_src(d)})')
        ctx.ob(rule, f'{m.name}/mutable-defaults', not bad, repo.loc(m.name, 1), 'no mutable default arguments',
               'none' if not bad else ', '.join(bad), witness='a mutable default is state shared between calls')
        # mutable class attributes
        badc = []
        for ci in m.classes.values():
            for st in ci.node.body:
                if isinstance(st, (ast.Assign, ast.AnnAssign)) and st.value is not None and \
                        isinstance(st.value, (ast.List, ast.Dict, ast.Set)) or \
                        (isinstance(st, (ast.Assign, ast.AnnAssign)) and isinstance(getattr(st, 'value', None), ast.Call) and
                         isinstance(st.value.func, ast.Name) and st.value.func.id in ('list', 'dict', 'set')):
                    badc.append(f'{ci.name}: {norm_src(st)[:50]}')
        ctx.ob(rule, f'{m.name}/mutable-class-attributes', not badc, repo.loc(m.name, 1), 'no mutable class attributes',
               'none' if not badc else '; '.join(badc), witness='a class-level list/dict is shared by all parser objects')
    ctx.floor(rule, 'functions scanned for effects', nfun, 150)
    # process-wide caches: decorated functions
    caches = []
    for m in repo.modules.values():
        for fi in m.functions.values():
            for d in getattr(fi.node, 'decorator_list', []):
                s = norm_src(d)
                if 'cache' in s:
                    caches.append((m.name, fi, d))
    ctx.ob(rule, 'package/caches', [f.fq for _m, f, _d in caches] == [f'{WP}:_compile'], repo.loc(WP, 1),
           'exactly one cached function: _wcparse._compile', str([f.fq for _m, f, _d in caches]),
           witness='an additional memo keyed on less than its inputs returns stale answers')


PURE_EXTERNAL = {
    're.compile', 're.escape', 'builtins.bool', 'builtins.isinstance', 'builtins.ord', 'builtins.len', 'builtins.next',
    'builtins.str', 'builtins.enumerate', 'builtins.int', 'builtins.chr', 'builtins.bytes', 'builtins.ValueError',
    'builtins.StopIteration', 'builtins.range', 'builtins.tuple', 'builtins.set', 'builtins.frozenset', 'builtins.list',
    'builtins.min', 'builtins.max', 'builtins.super', 'builtins.type', 'builtins.hash', 'builtins.format',
    'builtins.IndexError', 'builtins.TypeError', 'builtins.SyntaxError',
}
AMBIENT_OK = {'util:platform': 'returns the import-time constant _PLATFORM',
              'util:is_case_sensitive': 'returns the import-time constant CASE_FS'}


def rule_cache_key(ctx: Ctx, rule: str) -> None:
    ctx.text(rule, 'cache-key completeness of _compile: decorated functools.lru_cache(typed=True); everything reachable from '
                   'its body (call graph) reads only its parameters, module constants that are never rebound, and the '
                   'import-time platform probes; no external call outside a pure allow-list; every caller passes a full '
                   'flag word; no public FLAG_MASK lets a user inject the internal bits; translate bypasses the cache')
    repo = ctx.repo
    fi = repo.func(WP, '_compile')
    decs = [norm_src(d) for d in fi.node.decorator_list]
    ok = any(d.startswith('functools.lru_cache(') and 'typed=True' in d for d in decs)
    ctx.ob(rule, f'{WP}:_compile/decorator', ok, repo.loc(WP, fi.node), 'functools.lru_cache(…, typed=True)', str(decs),
           witness="without typed=True a str and a bytes pattern may share one cache slot")
    ctx.ob(rule, f'{WP}:_compile/key-parameters', fi.params() == ['pattern', 'flags'], repo.loc(WP, fi.node),
           "parameters (pattern, flags)", str(fi.params()))
    cg = callgraph(repo)
    reach = sorted(cg.reachable(fi.fq))
    ctx.count('functions_reachable_from__compile', len(reach))
    ctx.floor(rule, 'functions reachable from _compile', len(reach), 25)
    bad_ext = []
    for f in reach:
        for x in sorted(cg.external.get(f, ())):
            if x in PURE_EXTERNAL or x.startswith('builtins.') and x.split('.')[1][:1].isupper():
                continue
            if x.split('.')[0] in repo.modules or x == 'functools.lru_cache':
                continue  # a package class without its own __init__ (e.g. InvPlaceholder(str)); the decorator itself
            bad_ext.append(f'{f} -> {x}')
    ctx.ob(rule, f'{WP}:_compile/external-calls', not bad_ext, repo.loc(WP, fi.node),
           'only pure functions are called on the way to the cached value', 'pure' if not bad_ext else '; '.join(bad_ext[:5]),
           witness='a translation that consults os.environ / cwd / time is not a function of (pattern, flags)')
    # reads of non-constant module names / external module attributes
    bad_reads = []
    for f in reach:
        mname, q = f.split(':', 1)
        m = repo.mod(mname)
        fn = m.functions[q]
        locs = local_names(fn)
        for n in walk_no_nested(fn.node):
            if isinstance(n, ast.Name) and isinstance(n.ctx, ast.Load) and n.id not in locs and n.id in m.assigned_at:
                if len(m.assigned_at[n.id]) > 1 and n.id not in ('_PLATFORM',):
                    bad_reads.append(f'{f} reads {n.id} (bound {len(m.assigned_at[n.id])} times)')
                if n.id in m.unresolved and f not in AMBIENT_OK:
                    bad_reads.append(f'{f} reads environment-dependent {n.id}')
            if isinstance(n, ast.Attribute) and isinstance(n.value, ast.Name) and n.value.id not in locs:
                r = m.env.get(n.value.id)
                if isinstance(r, ModRef) and not r.internal and r.name in ('os', 'sys', 'time', 'random', 'locale'):
                    par_ok = f in AMBIENT_OK
                    if not par_ok:
                        bad_reads.append(f'{f} reads {r.name}.{n.attr}')
    ctx.ob(rule, f'{WP}:_compile/ambient-reads', not bad_reads, repo.loc(WP, fi.node),
           'no read of mutable or environment-dependent state (beyond the two import-time probes)',
           'none' if not bad_reads else '; '.join(bad_reads[:5]),
           witness='reading os.sep / sys.platform lazily would make the cached regex stale under mocking or chdir')
    # callers pass a flag word as 2nd argument
    n = 0
    for m in repo.modules.values():
        for f2 in m.functions.values():
            for c in walk_no_nested(f2.node):
                if isinstance(c, ast.Call) and norm_src(c.func) in ('_compile', '_wcparse._compile'):
                    n += 1
                    a = c.args[1] if len(c.args) > 1 else None
                    ok = a is not None and ('flags' in norm_src(a))
                    ctx.ob(rule, f'{f2.fq}/_compile-call@{n}', ok, repo.loc(m.name, c), 'second argument is the complete flag word',
                           norm_src(c)[:80], witness='a caller that folds part of the flags into the pattern text defeats the key')
    ctx.floor(rule, '_compile call sites', n, 5)
    internal = repo.const(WP, '_TRANSLATE') | repo.const(WP, '_ANCHOR') | repo.const(WP, '_NO_GLOBSTAR_CAPTURE')
    for mod in ('fnmatch', 'glob', 'pathlib', 'wcmatch'):
        mask = repo.const(mod, 'FLAG_MASK')
        ctx.ob(rule, f'{mod}:FLAG_MASK/no-internal-bits', mask & internal == 0, repo.loc(mod, repo.const_line(mod, 'FLAG_MASK')),
               'FLAG_MASK ∩ {_TRANSLATE,_ANCHOR,_NO_GLOBSTAR_CAPTURE} = ∅', hex(mask & internal),
               witness='a user passing 0x100000000 would switch the matcher into translate mode')
    tr = repo.func(WP, 'translate')
    uses_cache = any(isinstance(c, ast.Call) and norm_src(c.func) == '_compile' for c in walk_no_nested(tr.node))
    ctx.ob(rule, f'{WP}:translate/bypasses-cache', not uses_cache, repo.loc(WP, tr.node), 'translate builds WcParse directly',
           'uses _compile' if uses_cache else 'direct')
    from .common import api_table
    from ..symeval import ALL, BV, Opaque, focus
    MASK = repo.const(WP, 'FLAG_MASK')
    _ev, paths = api_table(repo, WP, '_compile')
    bad = []
    for p in paths:
        focus(p)
        ws = p.calls_to(f'{WP}:WcParse')
        rc = p.calls_to('re.compile')
        if len(ws) != 1 or len(rc) != 1 or p.decisions:
            bad.append(f'{len(ws)} WcParse / {len(rc)} re.compile calls, decisions {sorted(p.decisions)}')
            continue
        a_ = ws[0][1]
        fl = a_[1] if len(a_) > 1 else ws[0][2].get('flags')
        if not a_ or a_[0] != Opaque('pattern') or not isinstance(fl, BV) or fl.origin != 'flags' or fl.known != (ALL & ~MASK) or fl.val != 0:
            bad.append(f'WcParse({a_})')
        arg = rc[0][1][0] if rc[0][1] else None
        if not (isinstance(arg, Opaque) and arg.tag.startswith(f'{WP}:WcParse(') and arg.tag.endswith('.parse()')) or len(rc[0][1]) != 1 or rc[0][2]:
            bad.append(f're.compile({rc[0][1]}, {rc[0][2]})')
        if not (isinstance(p.ret, Opaque) and p.ret.tag.startswith('re.compile(')):
            bad.append(f'returns {p.ret!r}')
    ctx.ob(rule, f'{WP}:_compile/body', not bad and len(paths) == 1, repo.loc(WP, fi.node), 're.compile(WcParse(pattern, flags & FLAG_MASK).parse()) and nothing else',
           'as expected' if not bad else bad[0][:160], witness='the cached value must be a function of the key only')


PER_CALL_CLASSES = [(WP, 'WcParse'), (WP, 'WcSplit'), ('glob', '_GlobSplit'), ('_wcmatch', '_Match'), ('glob', 'Glob'),
                    ('util', 'StringIter')]


def rule_per_call_objects(ctx: Ctx, rule: str) -> None:
    ctx.text(rule, 'every construction of WcParse, WcSplit, _GlobSplit, _Match, Glob, util.StringIter is consumed at once '
                   '(X(...).method()) or bound to a local; none is stored in a module-level name, class attribute or an '
                   'object attribute; all state the parser mutates lives in instance attributes')
    repo = ctx.repo
    n = 0
    targets = {(m, c) for m, c in PER_CALL_CLASSES}
    for m in repo.modules.values():
        # module-level constructions
        for st in m.tree.body:
            for c in ast.walk(st) if not isinstance(st, (ast.FunctionDef, ast.ClassDef)) else []:
                if isinstance(c, ast.Call):
                    r = repo.resolve_name(m.name, c.func)
                    if isinstance(r, ClassRef) and (r.module, r.name) in targets:
                        n += 1
                        ctx.ob(rule, f'{m.name}/module-level-{r.name}', False, repo.loc(m.name, c), 'no shared parser object',
                               norm_src(c)[:60], witness='a shared WcParse carries matchbase/in_list state between calls')
        for fi in m.functions.values():
            par = None
            for c in walk_no_nested(fi.node):
                if not isinstance(c, ast.Call):
                    continue
                r = repo.resolve_name(m.name, c.func)
                if not (isinstance(r, ClassRef) and (r.module, r.name) in targets):
                    continue
                if par is None:
                    from .common import enclosing_map
                    par = enclosing_map(fi.node)
                p = par.get(id(c))
                n += 1
                if isinstance(p, ast.Attribute):
                    ok, how = True, 'consumed immediately'
                elif isinstance(p, ast.Assign) and all(isinstance(t, ast.Name) for t in p.targets):
                    ok, how = True, f'bound to local {norm_src(p.targets[0])}'
                elif isinstance(p, (ast.Return, ast.YieldFrom, ast.Yield)):
                    ok, how = True, 'returned to the caller'
                else:
                    ok, how = False, f'escapes via {type(p).__name__}: {norm_src(p)[:60]}'
                ctx.ob(rule, f'{fi.fq}/{r.name}()@{n}', ok, repo.loc(m.name, c), 'consumed at once or bound to a local', how,
                       witness='storing a parser on self/module shares mutable parse state between calls and threads')
    ctx.floor(rule, 'constructions of per-call objects', n, 8)
    # attribute-store census of WcParse: all stores are on self
    cls = repo.cls(WP, 'WcParse')
    bad = []
    for fi in cls.methods.values():
        for s in walk_no_nested(fi.node):
            if isinstance(s, (ast.Assign, ast.AugAssign)):
                for t in (s.targets if isinstance(s, ast.Assign) else [s.target]):
                    if isinstance(t, ast.Attribute) and not (isinstance(t.value, ast.Name) and t.value.id == 'self'):
                        bad.append(f'{fi.qualname}: {norm_src(t)}')
    ctx.ob(rule, f'{WP}:WcParse/attribute-stores-on-self-only', not bad, repo.loc(WP, cls.node), 'all attribute stores target self',
           'ok' if not bad else '; '.join(bad))


def _compare_fields(node: ast.AST, prefix: str) -> list[str]:
    out = []
    for n in ast.walk(node):
        if isinstance(n, ast.Attribute) and isinstance(n.value, ast.Name) and n.value.id == prefix and n.attr.startswith('_'):
            if n.attr not in out:
                out.append(n.attr)
    return out


def rule_immutability(ctx: Ctx, rule: str) -> None:
    ctx.text(rule, 'WcRegexp / WcMatcher: derive from util.Immutable, declare __slots__, initialise every slot only through '
                   'super().__init__(**kwargs); Immutable.__setattr__ raises unconditionally; the field sets used by __eq__, '
                   '__ne__, the hash tuple, the copyreg reducer and the constructor coincide')
    repo = ctx.repo
    imm = repo.func('util', 'Immutable.__setattr__')
    body = [s for s in imm.node.body if not (isinstance(s, ast.Expr) and isinstance(s.value, ast.Constant))]
    ok = len(body) == 1 and isinstance(body[0], ast.Raise) and 'AttributeError' in norm_src(body[0])
    ctx.ob(rule, 'util:Immutable.__setattr__/raises', ok, repo.loc('util', imm.node), 'raise AttributeError unconditionally',
           norm_src(body[0])[:60] if body else 'empty', witness='m = compile("*"); m._matcher = x must fail')
    # deleting an attribute is a mutation too: both ways of changing a slot are closed
    ic = repo.cls('util', 'Immutable')
    dl = ic.methods.get('__delattr__')
    okd = False
    if dl is not None:
        bd = [s for s in dl.node.body if not (isinstance(s, ast.Expr) and isinstance(s.value, ast.Constant))]
        okd = len(bd) == 1 and isinstance(bd[0], ast.Raise) and 'AttributeError' in norm_src(bd[0])
    ctx.ob(rule, 'util:Immutable.__delattr__/raises', okd, repo.loc('util', (dl.node if dl is not None else ic.node)), 'defined, raise AttributeError unconditionally',
           'raises' if okd else ('missing' if dl is None else 'does not raise unconditionally'),
           witness="m = glob.compile('*.txt'); del m._hash  must fail: afterwards hash(m) raises AttributeError and the matcher is unusable as a dict key")
    for mod, cname, fields in (('_wcmatch', 'WcRegexp', ['_include', '_exclude', '_real', '_path', '_follow']),
                               ('_wcmatch', 'WcMatcher', ['_matcher'])):
        ci = repo.cls(mod, cname)
        site = repo.loc(mod, ci.node)
        bases = [norm_src(b) for b in ci.bases]
        ctx.ob(rule, f'{mod}:{cname}/immutable-base', any(b.endswith('Immutable') for b in bases), site, 'util.Immutable base', str(bases))
        slots = None
        for st in ci.node.body:
            if isinstance(st, ast.Assign) and any(isinstance(t, ast.Name) and t.id == '__slots__' for t in st.targets):
                try:
                    slots = list(ast.literal_eval(st.value))
                except ValueError:
                    slots = None
        ctx.ob(rule, f'{mod}:{cname}/slots', slots is not None and sorted(slots) == sorted(fields + ['_hash']), site,
               f'__slots__ = {sorted(fields + ["_hash"])}', str(slots), witness='a missing slot gives instances a __dict__ and mutability')
        init = ci.methods['__init__']
        stmts = [s for s in init.node.body if not (isinstance(s, ast.Expr) and isinstance(s.value, ast.Constant))]
        only_super = len(stmts) == 1 and isinstance(stmts[0], ast.Expr) and isinstance(stmts[0].value, ast.Call) and \
            norm_src(stmts[0].value.func) == 'super().__init__'
        kws = [k.arg for k in stmts[0].value.keywords] if only_super else []
        ctx.ob(rule, f'{mod}:{cname}.__init__/fields', only_super and sorted(kws) == sorted(fields + ['_hash']), repo.loc(mod, init.node),
               f'super().__init__({", ".join(f + "=…" for f in fields)}, _hash=…) and nothing else', str(kws))
        # each field initialised from the like-named parameter
        if only_super:
            params = [p for p in init.params() if p != 'self']
            pairs = {k.arg: norm_src(k.value) for k in stmts[0].value.keywords if k.arg != '_hash'}
            okp = all(pairs.get(f) == f.lstrip('_') for f in fields) and params == [f.lstrip('_') for f in fields]
            ctx.ob(rule, f'{mod}:{cname}.__init__/field-sources', okp, repo.loc(mod, init.node), 'field _x = parameter x, in order', str(pairs))
            hk = next((k.value for k in stmts[0].value.keywords if k.arg == '_hash'), None)
            hnames = [n.id for n in ast.walk(hk) if isinstance(n, ast.Name) and n.id in params] if hk is not None else []
            okh = hk is not None and all(hnames.count(p) >= 1 for p in params) and 'type(self)' in norm_src(hk)
            ctx.ob(rule, f'{mod}:{cname}.__init__/hash-fields', okh, repo.loc(mod, init.node),
                   'hash over type(self) and every constructor parameter', norm_src(hk)[:90] if hk is not None else 'none',
                   witness='two matchers that accept different names must not be forced equal by the hash... and equal ones must hash equal')
        for meth in ('__eq__', '__ne__'):
            f = ci.methods.get(meth)
            if f is None:
                ctx.ob(rule, f'{mod}:{cname}.{meth}', False, site, 'defined', 'missing')
                continue
            mine = _compare_fields(f.node, 'self')
            theirs = _compare_fields(f.node, 'other')
            ctx.ob(rule, f'{mod}:{cname}.{meth}/fields', sorted(mine) == sorted(fields) and sorted(theirs) == sorted(fields),
                   repo.loc(mod, f.node), f'compares {fields}', f'self: {mine}, other: {theirs}',
                   witness='dropping _follow from __eq__ makes a FOLLOW and a non-FOLLOW matcher compare equal')
            ret = [s for s in f.node.body if isinstance(s, ast.Return)]
            if ret:
                v = ret[0].value
                shape = isinstance(v, ast.BoolOp) and isinstance(v.op, ast.And if meth == '__eq__' else ast.Or)
                cmp_ok = all(isinstance(c.ops[0], ast.Eq if meth == '__eq__' else ast.NotEq)
                             for c in ast.walk(v) if isinstance(c, ast.Compare))
                ctx.ob(rule, f'{mod}:{cname}.{meth}/shape', shape and cmp_ok, repo.loc(mod, f.node),
                       'conjunction of == ' if meth == '__eq__' else 'disjunction of !=', norm_src(v)[:80])
                # each field is compared by value (== / !=) with the same field of the other object, directly
                want_op = ast.Eq if meth == '__eq__' else ast.NotEq
                direct = set()
                for c in (v.values if isinstance(v, ast.BoolOp) else [v]):
                    if isinstance(c, ast.Compare) and len(c.ops) == 1 and isinstance(c.ops[0], want_op):
                        l, r = norm_src(c.left), norm_src(c.comparators[0])
                        for a, b in ((l, r), (r, l)):
                            if a.startswith('self.') and b == 'other.' + a[5:]:
                                direct.add(a[5:])
                ctx.ob(rule, f'{mod}:{cname}.{meth}/by-value', sorted(direct) == sorted(fields), repo.loc(mod, f.node),
                       f'self.f {"==" if meth == "__eq__" else "!="} other.f for every field of {fields}', f'compared directly: {sorted(direct)}',
                       witness='matchers built from the same patterns and flags must compare equal whether or not the compiled regexes are the same objects (cache eviction, pickling)')
        hf = ci.methods.get('__hash__')
        okhh = hf is not None and any(isinstance(s, ast.Return) and norm_src(s.value) == 'self._hash' for s in hf.node.body)
        ctx.ob(rule, f'{mod}:{cname}.__hash__', okhh, site, 'return self._hash', str(okhh))
    # pickle reducers
    n = 0
    for m in repo.modules.values():
        for st in m.tree.body:
            if isinstance(st, ast.Expr) and isinstance(st.value, ast.Call) and norm_src(st.value.func) == 'copyreg.pickle':
                c = st.value
                n += 1
                cname = norm_src(c.args[0])
                lam = c.args[1] if len(c.args) > 1 else None
                want = ['_include', '_exclude', '_real', '_path', '_follow'] if cname == 'WcRegexp' else ['_matcher']
                ok = isinstance(lam, ast.Lambda) and isinstance(lam.body, ast.Tuple) and len(lam.body.elts) == 2 and \
                    norm_src(lam.body.elts[0]) == cname and isinstance(lam.body.elts[1], ast.Tuple) and \
                    [norm_src(e) for e in lam.body.elts[1].elts] == [f'{lam.args.args[0].arg}.{f}' for f in want]
                ctx.ob(rule, f'{m.name}:copyreg.pickle({cname})', ok, repo.loc(m.name, c), f'reducer rebuilds {cname} from {want} in order',
                       norm_src(lam)[:90] if lam is not None else 'none',
                       witness='dropping _follow from the reducer makes an unpickled FOLLOW matcher behave differently')
    ctx.floor(rule, 'pickle reducers', n, 3)


def rule_glob_instance_state(ctx: Ctx, rule: str) -> None:
    ctx.text(rule, 'Glob.seen / is_abs_pattern / current_limit are instance attributes created per Glob object; iglob builds a '
                   'new Glob per call; WcMatcher.match/filter build a new _Match per name')
    repo = ctx.repo
    gi = repo.func('glob', 'Glob.__init__')
    src = [norm_src(s) for s in walk_no_nested(gi.node) if isinstance(s, (ast.Assign, ast.AnnAssign))]
    ok = any(s.startswith('self.seen') and 'set()' in s for s in src)
    ctx.ob(rule, 'glob:Glob.__init__/seen-per-object', ok, repo.loc('glob', gi.node), 'self.seen = set() in __init__', str(ok),
           witness='a shared seen-set makes the second glob() call return nothing')
    ig = repo.func('glob', 'iglob')
    ok2 = any(isinstance(c, ast.Call) and norm_src(c.func) == 'Glob' for c in walk_no_nested(ig.node))
    ctx.ob(rule, 'glob:iglob/new-Glob-per-call', ok2, repo.loc('glob', ig.node), 'constructs Glob(...) inside the call', str(ok2))
    from .common import api_table
    helpers = {f.fq for f in repo.cls('_wcmatch', 'WcRegexp').methods.values()}
    for meth, arg in (('match', 'filename'), ('filter', 'filenames')):
        f = repo.func('_wcmatch', f'WcRegexp.{meth}')
        _ev, paths = api_table(repo, '_wcmatch', f'WcRegexp.{meth}', inline=True, inline_only=helpers)
        live = [p for p in paths if p.decisions.get(arg) is not False]
        ok3 = bool(live) and all(len(p.calls_to('_wcmatch:_Match')) == 1 and
                                 (meth == 'match' or any(c.startswith('for:filenames') for c in p.calls_to('_wcmatch:_Match')[0][3])) for p in live)
        ctx.ob(rule, f'_wcmatch:WcRegexp.{meth}/new-_Match-per-name', ok3, repo.loc('_wcmatch', f.node), 'a fresh _Match(...) per file name', str(ok3))
