"""C11: the pattern limit (defaults, forwarding, hand-over, clamp, continuity)."""
from __future__ import annotations

import ast
from typing import Any

from ..callgraph import resolve_callee
from ..model import AnalysisError, FuncInfo, Unknown, norm_src, walk_no_nested
from ..pathq import fq
from ..report import Ctx

WP = '_wcparse'
DOCUMENTED_LIMIT = 1000


def rule_limit_defaults(ctx: Ctx, rule: str) -> None:
    ctx.text(rule, 'every parameter named `limit` that has a default, in every function, method and overload stub of the '
                   f'package, evaluates (constant resolver) to the documented value {DOCUMENTED_LIMIT} = _wcparse.PATTERN_LIMIT')
    repo = ctx.repo
    pl = repo.const(WP, 'PATTERN_LIMIT')
    ctx.ob(rule, f'{WP}:PATTERN_LIMIT', pl == DOCUMENTED_LIMIT, repo.loc(WP, repo.const_line(WP, 'PATTERN_LIMIT')),
           DOCUMENTED_LIMIT, pl, witness="fnmatch('x', '{1..1001}', flags=BRACE) must raise, '{1..1000}' must not")
    n = 0
    for m in repo.modules.values():
        for fi in list(m.functions.values()) + m.overloads:
            if not hasattr(fi.node, 'args'):
                continue
            d = fi.param_defaults()
            if 'limit' not in d:
                continue
            n += 1
            try:
                v = repo.evaluator(m.name).eval(d['limit'])
            except Unknown:
                raise AnalysisError(f'{fi.fq}: default of `limit` is not statically resolvable') from None
            tag = '/overload' + str(fi.lineno) if fi.is_overload else ''
            ctx.ob(rule, f'{fi.fq}/limit-default{tag}' if not fi.is_overload else f'{fi.fq}/limit-default/overload@{_ov_index(m, fi)}',
                   v == DOCUMENTED_LIMIT, repo.loc(m.name, d['limit']), DOCUMENTED_LIMIT, f'{norm_src(d["limit"])} = {v}',
                   witness="WcMatch('.', '{1..40}', flags=BRACE) raises PatternLimitException with the default limit")
    ctx.floor(rule, 'defaulted limit parameters', n, 26)


def _ov_index(m: Any, fi: FuncInfo) -> int:
    same = [o for o in m.overloads if o.qualname == fi.qualname]
    return same.index(fi) + 1


TERMINAL = {f'{WP}:translate', f'{WP}:compile_pattern', f'{WP}:expand', f'{WP}:expand_braces', 'glob:Glob.__init__',
            'wcmatch:WcMatch.__init__'}


def rule_limit_forwarding(ctx: Ctx, rule: str) -> None:
    ctx.text(rule, 'in every function with a `limit` parameter, each call whose resolved callee has a `limit` parameter binds '
                   'it to the caller\'s own, unmodified `limit` (position or keyword); classes that store it (Glob, WcMatch) '
                   'pass the stored attribute')
    repo = ctx.repo
    n = 0
    for m in repo.modules.values():
        for fi in m.functions.values():
            if not hasattr(fi.node, 'args') or 'limit' not in fi.params():
                continue
            reassigned = [s for s in walk_no_nested(fi.node) if isinstance(s, (ast.Assign, ast.AugAssign)) and
                          any(isinstance(t, ast.Name) and t.id == 'limit'
                              for t in (s.targets if isinstance(s, ast.Assign) else [s.target]))]
            delegations = 0
            for c in [x for x in walk_no_nested(fi.node) if isinstance(x, ast.Call)]:
                r = resolve_callee(repo, fi, c)
                if not isinstance(r, list) or not r:
                    continue
                callee = r[0]
                if not hasattr(callee.node, 'args') or 'limit' not in callee.params():
                    continue
                params = callee.params()
                if callee.cls and callee.parent is None and params and params[0] in ('self', 'cls'):
                    params = params[1:]
                idx = params.index('limit')
                kwonly = {a.arg for a in callee.node.args.kwonlyargs}
                arg = next((k.value for k in c.keywords if k.arg == 'limit'), None)
                if arg is None and 'limit' not in kwonly and idx < len(c.args):
                    arg = c.args[idx]
                n += 1
                delegations += 1
                src = norm_src(arg) if arg is not None else '<default>'
                if fi.fq in TERMINAL and callee.fq in (f'{WP}:translate', f'{WP}:compile_pattern'):
                    ok = src == 'limit'  # recursive call for `exclude=`
                elif fi.fq in TERMINAL:
                    ok = src in ('limit', 'current_limit', 'self.current_limit')
                else:
                    ok = src == 'limit' and not reassigned
                ctx.ob(rule, f'{fi.fq}/{callee.fq.split(":")[1]}(limit=…)@{delegations}', ok, repo.loc(m.name, c),
                       'limit=limit', f'limit={src}' + (' (limit reassigned in this function)' if reassigned and fi.fq not in TERMINAL else ''),
                       witness="glob.globfilter(names, '{1..2000}', flags=BRACE, limit=0) must not raise; limit=5 must")
            if fi.fq not in TERMINAL and not fi.qualname.startswith('_') and delegations == 0 and m.name in ('fnmatch', 'glob', 'pathlib'):
                ctx.ob(rule, f'{fi.fq}/delegates-limit', False, repo.loc(m.name, fi.node), 'passes `limit` on', 'no delegation found')
    ctx.floor(rule, 'limit delegations', n, 17)
    # stored limits
    for mod, cls, attr_user, callee_text in (('wcmatch', 'WcMatch', 'WcMatch._compile_wildcard', '_wcparse.compile'),):
        init = repo.func(mod, f'{cls}.__init__')
        stored = any(isinstance(s, ast.Assign) and norm_src(s) == 'self.limit = limit' for s in walk_no_nested(init.node))
        ctx.ob(rule, f'{mod}:{cls}.__init__/stores-limit', stored, repo.loc(mod, init.node), 'self.limit = limit', str(stored))
        user = repo.func(mod, attr_user)
        calls = [c for c in walk_no_nested(user.node) if isinstance(c, ast.Call) and norm_src(c.func) == callee_text]
        okc = bool(calls) and all((len(c.args) > 2 and norm_src(c.args[2]) == 'self.limit') or
                                  any(k.arg == 'limit' and norm_src(k.value) == 'self.limit' for k in c.keywords) for c in calls)
        ctx.ob(rule, f'{mod}:{attr_user}/passes-self.limit', okc, repo.loc(mod, user.node), f'{callee_text}(…, self.limit)',
               '; '.join(norm_src(c) for c in calls), witness="WcMatch('.', '{1..10}', flags=BRACE, limit=5) must raise")
    # Glob: the budget is initialised once, before the first parsing pass, and only the expansion loop spends it
    from ..slicer import slice_function
    from ..symeval import BV, Obj, Opaque, SymEval, focus, _tag
    gi = repo.func('glob', 'Glob.__init__')
    sl = slice_function(gi, {'self.current_limit', 'self.limit', 'self.total'}, self_calls_define={'self.current_limit', 'self.total'}, keep_exits=False, name='budget')
    ev = SymEval(repo, inline=False, max_paths=5000)
    args = {p: (BV('flags') if p == 'flags' else Opaque(p)) for p in gi.params() if p != 'self'}
    paths = ev.tabulate(sl, args, Obj(('glob', 'Glob')))
    bad = []
    for p in paths:
        focus(p)
        stores = [(i, e) for i, e in enumerate(p.events) if e[0] == 'store' and e[1] in ('self.current_limit', 'self.limit', 'self.total')]
        passes = [i for i, e in enumerate(p.events) if e[0] == 'call' and e[1] == 'glob:Glob._parse_patterns']
        cur = [(i, e) for i, e in stores if e[1] == 'self.current_limit']
        lim = [(i, e) for i, e in stores if e[1] == 'self.limit']
        tot = [(i, e) for i, e in stores if e[1] == 'self.total']
        if len(lim) != 1 or lim[0][1][2] != Opaque('limit'):
            bad.append(f'self.limit stored {[ _tag(e[2]) for _i, e in lim]}')
        if len(cur) != 1 or cur[0][1][2] != Opaque('limit'):
            bad.append(f'self.current_limit stored {[_tag(e[2])[:50] for _i, e in cur]}')
        if len(tot) != 1 or tot[0][1][2] != 0:
            bad.append(f'self.total stored {[_tag(e[2]) for _i, e in tot]}')
        if passes and any(i > passes[0] for i, _e in stores):
            bad.append('the budget is rewritten between / after the parsing passes')
        if not passes:
            bad.append('no parsing pass')
    ctx.ob(rule, 'glob:Glob.__init__/stores-limit', not bad and len(paths) >= 2, repo.loc('glob', gi.node),
           'self.limit = limit; self.current_limit = limit; self.total = 0 -- once, before the first _parse_patterns; exclusions share the same budget',
           f'{len(paths)} rows agree' if not bad else sorted(set(bad))[0], witness="glob('x', exclude='*.{log,md}', limit=0) must not raise: limit 0 disables the check for exclusions too")


LOOPS = [(WP, 'translate', 'limit', 'current_limit'), (WP, 'compile_pattern', 'limit', 'current_limit'),
         ('glob', 'Glob._iter_patterns', 'self.limit', 'self.current_limit')]


def rule_limit_handover(ctx: Ctx, rule: str) -> None:
    ctx.text(rule, 'expand_braces hands its limit to bracex.iexpand(limit=…) and re-raises ExpansionLimitException; expand '
                   'forwards it; each of the three expansion loops iterates expand(…, <remaining budget>) inside a try whose '
                   'handler turns bracex.ExpansionLimitException into PatternLimitException, and raises PatternLimitException '
                   'under `0 < limit < total` after counting each expansion')
    repo = ctx.repo
    eb = repo.func(WP, 'expand_braces')
    calls = [c for c in walk_no_nested(eb.node) if isinstance(c, ast.Call) and norm_src(c.func) == 'bracex.iexpand']
    ctx.floor(rule, 'bracex.iexpand calls', len(calls), 1)
    for i, c in enumerate(calls, 1):
        lim = next((norm_src(k.value) for k in c.keywords if k.arg == 'limit'), None)
        ctx.ob(rule, f'{WP}:expand_braces/iexpand-limit@{i}', lim == 'limit', repo.loc(WP, c), 'bracex.iexpand(…, limit=limit)',
               f'limit={lim}', witness="fnmatch('x', '{1..100000000}', flags=BRACE) must fail fast, not materialise")
    tries = [t for t in walk_no_nested(eb.node) if isinstance(t, ast.Try) and
             any(x is c for c in calls for s2 in t.body for x in ast.walk(s2))]
    first = tries[0].handlers[0] if tries and tries[0].handlers else None
    okh = first is not None and first.type is not None and norm_src(first.type) == 'bracex.ExpansionLimitException' and \
        any(isinstance(s, ast.Raise) and s.exc is None for s in first.body)
    ctx.ob(rule, f'{WP}:expand_braces/limit-exception-reraised', okh, repo.loc(WP, eb.node),
           'first handler: except bracex.ExpansionLimitException: raise', norm_src(first.type) if first and first.type else 'none',
           witness='the blanket `except Exception: yield p` must not swallow the expansion limit')
    ex = repo.func(WP, 'expand')
    c2 = [c for c in walk_no_nested(ex.node) if isinstance(c, ast.Call) and norm_src(c.func) == 'expand_braces']
    ok2 = bool(c2) and all(len(c.args) >= 3 and norm_src(c.args[2]) == 'limit' for c in c2)
    ctx.ob(rule, f'{WP}:expand/forwards-limit', ok2, repo.loc(WP, ex.node), 'expand_braces(pattern, flags, limit)',
           '; '.join(norm_src(c) for c in c2))
    n = 0
    for mod, qn, lim, cur in LOOPS:
        fi = repo.func(mod, qn)
        q = fq(fi)
        exp_calls = [c for c in walk_no_nested(fi.node) if isinstance(c, ast.Call) and norm_src(c.func) in ('expand', '_wcparse.expand')]
        if not exp_calls:
            raise AnalysisError(f'{fi.fq}: expansion loop not found')
        for c in exp_calls:
            n += 1
            third = norm_src(c.args[2]) if len(c.args) > 2 else next((norm_src(k.value) for k in c.keywords if k.arg == 'limit'), None)
            ctx.ob(rule, f'{fi.fq}/expand-gets-remaining-budget', third == cur, repo.loc(mod, c), f'expand(…, {cur})', f'expand(…, {third})',
                   witness="fnmatch('x', ['{1..5}', '{1..100000000}'], flags=BRACE, limit=10) must fail fast on the 2nd pattern")
            # inside try with converting handler
            tries = [t for t in walk_no_nested(fi.node) if isinstance(t, ast.Try) and
                     any(x is c for s in t.body for x in ast.walk(s))]
            conv = False
            for t in tries:
                for h in t.handlers:
                    if h.type is not None and norm_src(h.type) == 'bracex.ExpansionLimitException' and \
                            any(isinstance(s, ast.Raise) and s.exc is not None and 'PatternLimitException' in norm_src(s.exc) for s in h.body):
                        conv = True
            ctx.ob(rule, f'{fi.fq}/expansion-limit-converted', conv, repo.loc(mod, c),
                   'try … except bracex.ExpansionLimitException: raise PatternLimitException', str(conv),
                   witness="fnmatch('x', '{1..2000}', flags=BRACE) must raise PatternLimitException, not bracex's exception")
        raises = [r for r in q.stmts(lambda x: isinstance(x, ast.Raise)) if r.exc is not None and
                  'PatternLimitException' in norm_src(r.exc) and not q.in_handler(r, {'ExpansionLimitException'})]
        counter = 'self.total' if any(norm_src(s) == 'self.total += 1' for s in q.stmts(lambda x: isinstance(x, ast.AugAssign))) else 'total'
        good = [r for r in raises if (f'0 < {lim} < {counter}', 'T') in q.guards(r)]
        ctx.ob(rule, f'{fi.fq}/count-guard', bool(good), repo.loc(mod, fi.node), f'raise PatternLimitException under 0 < {lim} < {counter}',
               f'{len(good)} of {len(raises)} raise sites', witness="fnmatch('x', ['a','b','c'], limit=2) must raise; limit=3 must not; limit=0 never")
        incs = [s for s in q.stmts(lambda x: isinstance(x, ast.AugAssign)) if norm_src(s) == f'{counter} += 1']
        okinc = bool(incs) and bool(good) and all(q.cfg.dominates(q.node_of(i2), q.node_of(g)) for i2 in incs[:1] for g in good)
        ctx.ob(rule, f'{fi.fq}/count-before-guard', okinc, repo.loc(mod, fi.node), f'`{counter} += 1` dominates the guard', str(okinc))
    ctx.floor(rule, 'expansion loops', n, 3)


def rule_budget_clamp(ctx: Ctx, rule: str) -> None:
    ctx.text(rule, 'contradiction rule: 0 means "no limit", so every subtraction from a budget variable (limit, current_limit, '
                   'self.current_limit) is immediately followed by a clamp `if x < 1: x = 1` (the code states this belief for '
                   'current_limit in all three loops)')
    repo = ctx.repo
    n = 0
    budget_fns = [(m, fi_) for m in (WP, 'glob') for fi_ in repo.mod(m).functions.values() if hasattr(fi_.node, 'body') and not isinstance(fi_.node, ast.Lambda)]
    for mod, fi in budget_fns:
        if not any(isinstance(x, (ast.AugAssign, ast.BinOp)) and isinstance(x.op, ast.Sub) for x in walk_no_nested(fi.node)):
            continue
        q = fq(fi)
        for s in q.stmts(lambda x: isinstance(x, ast.AugAssign) and isinstance(x.op, ast.Sub)):
            tgt = norm_src(s.target)
            if tgt not in ('limit', 'current_limit', 'self.limit', 'self.current_limit'):
                continue
            n += 1
            node = q.cfg.nodes[q.node_of(s)]
            nxt = [d for lab, d in node.succ if lab == 'n']
            ok = False
            desc = 'no clamp'
            if len(nxt) == 1:
                c = q.cfg.nodes[nxt[0]]
                if c.kind == 'cond' and norm_src(c.ast) in (f'{tgt} < 1', f'{tgt} <= 0', f'1 > {tgt}'):
                    ts = [d for lab, d in c.succ if lab == 'T']
                    if ts:
                        t = q.cfg.nodes[ts[0]]
                        if t.kind == 'stmt' and norm_src(t.ast) == f'{tgt} = 1':
                            ok, desc = True, f'if {tgt} < 1: {tgt} = 1'
                        elif t.kind == 'raise':
                            ok, desc = True, 'raising test'
            ctx.ob(rule, f'{fi.fq}/{norm_src(s)}', ok, repo.loc(mod, s), f'followed by `if {tgt} < 1: {tgt} = 1` (or a raise)', desc,
                   witness="fnmatch('a', '{1..100}', flags=BRACE, limit=3, exclude=['x','y','z']) returns instead of raising: "
                           'the budget reached 0 = unlimited')
        # expression form: x = <budget> - y must sit inside max(..., 1)
        from .common import enclosing_map
        par = enclosing_map(fi.node)
        for b in q.stmts(lambda x: isinstance(x, ast.BinOp) and isinstance(x.op, ast.Sub)):
            if norm_src(b.left) not in ('limit', 'current_limit', 'self.limit', 'self.current_limit'):
                continue
            p = par.get(id(b))
            if isinstance(p, ast.Compare) or (isinstance(p, ast.BinOp) and not isinstance(p.op, ast.Sub)):
                continue
            n += 1
            okm = isinstance(p, ast.Call) and norm_src(p.func) == 'max' and len(p.args) == 2 and \
                any(isinstance(a, ast.Constant) and isinstance(a.value, int) and a.value >= 1 for a in p.args)
            ctx.ob(rule, f'{fi.fq}/{norm_src(b)}', okm, repo.loc(mod, b), 'clamped: max(<budget> - n, 1)', norm_src(p)[:70] if p is not None else '?',
                   witness="fnmatch('a', '{1..100}', flags=BRACE, limit=3, exclude=['x','y','z']) must raise: a budget of 0 would mean unlimited")
    ctx.floor(rule, 'budget subtractions', n, 3)


def rule_budget_continuity(ctx: Ctx, rule: str) -> None:
    ctx.text(rule, 'the counter compared with the limit carries over from the inclusion pass to the exclusion pass: in _wcparse '
                   'by `limit -= len(negative)`; in Glob the counter must not restart per pass while self.limit stays whole')
    repo = ctx.repo
    for fn in ('translate', 'compile_pattern'):
        fi = repo.func(WP, fn)
        subs = [s for s in walk_no_nested(fi.node) if isinstance(s, ast.AugAssign) and norm_src(s) == 'limit -= len(negative)']
        starts = [s for s in walk_no_nested(fi.node) if isinstance(s, ast.Assign) and norm_src(s) == 'total = len(negative)']
        zero = [s for s in walk_no_nested(fi.node) if isinstance(s, ast.Assign) and norm_src(s) == 'total = 0']
        q = fq(fi)
        ok = (bool(subs) and all(q.guarded(s, 'exclude is not None', 'T') for s in subs)) or (len(starts) == 1 and not zero)
        ctx.ob(rule, f'{WP}:{fn}/exclusions-charged', ok, repo.loc(WP, fi.node),
               'exclusion patterns are charged: the running total starts at len(negative) (or the limit is reduced by it)',
               'total = len(negative)' if starts and not zero else ('limit -= len(negative)' if subs else 'exclusions are not counted'),
               witness="fnmatch('a', ['a','b'], limit=3, exclude=['x','y']) must raise (4 > 3)")
    gi = repo.func('glob', 'Glob.__init__')
    passes = [c for c in walk_no_nested(gi.node) if isinstance(c, ast.Call) and norm_src(c.func) == 'self._parse_patterns']
    ip = repo.func('glob', 'Glob._iter_patterns')
    local_total = [s for s in walk_no_nested(ip.node) if isinstance(s, ast.Assign) and norm_src(s) == 'total = 0']
    reduces = [s for m in repo.cls('glob', 'Glob').methods.values() for s in walk_no_nested(m.node)
               if isinstance(s, ast.AugAssign) and norm_src(s.target) == 'self.limit']
    ok = not (len(passes) > 1 and local_total and not reduces)
    attr_writers: dict[str, list[str]] = {}
    for m2 in repo.cls('glob', 'Glob').methods.values():
        for s2 in walk_no_nested(m2.node):
            if isinstance(s2, (ast.Assign, ast.AugAssign)) and norm_src(s2.targets[0] if isinstance(s2, ast.Assign) else s2.target) == 'self.total':
                attr_writers.setdefault(m2.name, []).append(norm_src(s2))
    if not local_total:
        ok = attr_writers == {'__init__': ['self.total = 0'], '_iter_patterns': ['self.total += 1']}
    ctx.ob(rule, 'glob:Glob._iter_patterns/total-restarts-per-pass', ok, repo.loc('glob', local_total[0] if local_total else ip.node),
           'one running total over both passes (or self.limit reduced between them)',
           (f'{len(passes)} passes, `total = 0` local to each, self.limit never reduced' if local_total else f'self.total writers: {attr_writers}') if not ok else 'continuous',
           note='F3', witness="glob(['a','b','c'], limit=3, exclude=['x','y','z']) does not raise although 6 > 3")


# ------------------------------------------------------------------------------------------------ R6
# entry point -> the calls through which its patterns reach the expansion (callee spelled as in the source)
EXPANSION_ROUTES = {
    ('fnmatch', 'fnmatch'): ('_wcparse.compile',), ('fnmatch', 'filter'): ('_wcparse.compile',), ('fnmatch', 'translate'): ('_wcparse.translate',),
    ('glob', 'translate'): ('_wcparse.translate',), ('glob', 'compile'): ('_wcparse.compile',),
    ('glob', 'globmatch'): ('_wcparse.compile',), ('glob', 'globfilter'): ('_wcparse.compile',),
    ('glob', 'glob'): ('iglob',), ('glob', 'iglob'): ('Glob',),
    ('glob', 'Glob.__init__'): ('self._parse_patterns',),
    ('pathlib', 'PurePath.match'): ('self.globmatch',), ('pathlib', 'PurePath.globmatch'): ('glob.globmatch',), ('pathlib', 'PurePath.full_match'): ('glob.globmatch',),
    ('pathlib', 'Path.glob'): ('glob.iglob',), ('pathlib', 'Path.rglob'): ('self.glob',),
    ('wcmatch', 'WcMatch.__init__'): ('self._compile',),
}


def rule_expansion_unavoidable(ctx: Ctx, rule: str) -> None:
    ctx.text(rule, 'the limit is enforced where the patterns are expanded, so every entry point must reach the expansion on every path to a '
                   'normal return: in the CFG of each entry point the exit is unreachable once the delegating calls are removed (a fast path '
                   'that answers without expanding the patterns also skips the check)')
    repo = ctx.repo
    n = 0
    for (mod, qn), routes in sorted(EXPANSION_ROUTES.items()):
        fi = repo.func(mod, qn)
        q = fq(fi)
        calls = q.nodes_of_calls(lambda s, routes=routes: s in routes)
        n += 1
        if not calls:
            ctx.ob(rule, f'{mod}:{qn}/reaches-expansion', False, repo.loc(mod, fi.node), f'delegates to {" / ".join(routes)}', 'no such call')
            continue
        free = q.cfg.exit.id in q.cfg.reachable_from(q.cfg.entry.id, blocked_nodes=calls, labels={'n', 'T', 'F'})
        how = ''
        if free:
            # name the branch that escapes: the first conditional whose one side reaches the exit without a delegating call
            for c in q.cfg.nodes:
                if c.kind == 'cond':
                    for lab, d in c.succ:
                        if lab in ('T', 'F') and d not in calls and q.cfg.exit.id in q.cfg.reachable_from(d, blocked_nodes=calls, labels={'n', 'T', 'F'}) and \
                                not (q.cfg.reachable_from(d, labels={'n', 'T', 'F'}) & calls) and \
                                c.id in q.cfg.reachable_from(q.cfg.entry.id, blocked_nodes=calls, labels={'n', 'T', 'F'}):
                            how = f'`{norm_src(c.ast)[:60]}` is {lab == "T"}'
                            break
                    if how:
                        break
        ctx.ob(rule, f'{mod}:{qn}/reaches-expansion', not free, repo.loc(mod, fi.node), f'no normal return without {" / ".join(routes)}(...)',
               'every path delegates' if not free else f'a path returns without expanding the patterns ({how or "unconditionally"})',
               witness='an over-limit pattern list must raise PatternLimitException whatever else the arguments are')
    ctx.floor(rule, 'entry points', n, 15)
