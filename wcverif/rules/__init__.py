"""Rule modules: one function per rule, registered per property in registry.py."""
