"""C07 (lists / exclusions / SPLIT / BRACE), C08 (translate == match), C09 (escape / is_magic)."""
from __future__ import annotations

import ast
import copy
from typing import Any

from .. import rx
from ..boolform import equivalent_tests
from ..model import AnalysisError, RegexConst, norm_src, walk_no_nested
from ..pathq import fq
from ..report import Ctx
from ..symeval import BV, Obj, Opaque, SymEval
from ..tables import compare_table
from .cglob import _include_exclude_shape

WP = '_wcparse'


# ================================================================================================ C07
def rule_routing(ctx: Ctx, rule: str) -> None:
    ctx.text(rule, 'in translate / compile_pattern an expanded pattern is routed to `negative` iff is_negative(expanded, flags), '
                   'stripped of exactly its first character, and to `positive` unchanged with the plain flags; each expansion is '
                   'handled once (seen set keyed by the expanded text)')
    repo = ctx.repo
    from . import pipeline
    pipeline.rule_pipeline_loop(ctx, rule, which={'routing', 'seen-set'}, text=False)


def rule_is_negative_table(ctx: Ctx, rule: str) -> None:
    ctx.text(rule, 'is_negative(p, flags) = NEGATE ∧ ((MINUSNEGATE ∧ p₀ = `-`) ∨ (¬MINUSNEGATE ∧ p₀ = `!` ∧ ¬(EXTMATCH ∧ p₁ = `(`))) -- '
                   'full decision table over the flag bits and the three character atoms')
    repo = ctx.repo
    neg, minus, rb = repo.const(WP, 'NEGATIVE_SYM'), repo.const(WP, 'MINUS_NEGATIVE_SYM'), repo.const(WP, 'ROUND_BRACKET')
    site = repo.loc(WP, repo.const_line(WP, 'NEGATIVE_SYM'))
    ctx.ob(rule, f'{WP}:NEGATIVE_SYM', neg == frozenset(('!', b'!')), site, "{'!', b'!'}", str(sorted(map(repr, neg))))
    ctx.ob(rule, f'{WP}:MINUS_NEGATIVE_SYM', minus == frozenset(('-', b'-')), site, "{'-', b'-'}", str(sorted(map(repr, minus))))
    ctx.ob(rule, f'{WP}:ROUND_BRACKET', rb == frozenset(('(', b'(')), site, "{'(', b'('}", str(sorted(map(repr, rb))))
    fi = repo.func(WP, 'is_negative')
    ev = SymEval(repo)

    def am(node: ast.AST, fr: Any) -> Any:
        if isinstance(node, ast.Compare) and len(node.ops) == 1 and isinstance(node.ops[0], (ast.In, ast.NotIn)):
            left = norm_src(node.left)
            if isinstance(node.left, ast.Name):  # a local holding the slice: name it by its value
                from ..symeval import _tag as _vt
                left = _vt(fr.eval(node.left))
            neg_ = isinstance(node.ops[0], ast.NotIn)
            pos = {'pattern[0:1]': 'first', 'pattern[:1]': 'first', 'pattern[1:2]': 'second'}.get(left)
            if pos is None:
                return None
            val = fr.eval(node.comparators[0])  # resolves names, conditional expressions, locals
            sym = {neg: '!', minus: '-', rb: '('}.get(val) if isinstance(val, frozenset) else None
            if sym is None:
                return None
            if (pos, sym) in (('first', '!'), ('first', '-'), ('second', '(')):
                return ('!' if neg_ else '') + f'{pos}={sym}'
        return None
    ev.atom_map = am
    paths = ev.tabulate(fi, {'pattern': Opaque('pattern'), 'flags': BV('flags')})

    def oracle(g: Any) -> Any:
        if not g('flags&NEGATE'):
            return False
        if g('flags&MINUSNEGATE'):
            return g('first=-')
        return g('first=!') and not (g('flags&EXTMATCH') and g('second=('))
    ok, why, rows = compare_table(paths, ev.bitnames, oracle, lambda p: p.ret, {'first=!', 'first=-', 'second=('}, where='is_negative')
    ctx.count('decision_table_rows', rows)
    ctx.ob(rule, f'{WP}:is_negative/table', ok, repo.loc(WP, fi.node), 'NEGATE ∧ ((M ∧ p₀=-) ∨ (¬M ∧ p₀=! ∧ ¬(E ∧ p₁=()))', f'{rows} rows agree' if ok else why,
           witness="fnmatch('x', '!(a)', flags=NEGATE|EXTMATCH) is True: `!(` is an extended group, not an exclusion")


def parse_patterns_tail(ctx: Ctx, rule: str, which: set[str]) -> None:
    """Glob._parse_patterns after its loop (loop skipped): the NEGATEALL default and the NODIR exclusion, on call events."""
    from .common import decided_bits, passes_through, tabulate_method
    from ..symeval import BV, Opaque, focus, _tag
    repo = ctx.repo
    pp = repo.func('glob', 'Glob._parse_patterns')
    GS = repo.const(WP, 'GLOBSTAR')
    ev, paths = tabulate_method(repo, 'glob', 'Glob._parse_patterns', {'flags': BV('sflags')}, [Opaque('patterns'), Opaque('force_negate')],
                                inline=False, loop_mode='skip')
    bad_d, bad_n, bad_u = [], [], []
    for p in paths:
        focus(p)
        d = p.decisions
        after = False
        apps_p, apps_n = [], []
        for e in p.events:
            if e[0] == 'loop':
                after = True
            elif after and e[0] == 'call' and e[1] == 'self.pattern.append':
                apps_p.append(e)
            elif after and e[0] == 'call' and e[1] == 'self.npatterns.append':
                apps_n.append(e)
        want = d.get('self.pattern') is False and d.get('self.npatterns') is True and d.get('self.negateall') is True
        undecided = [k for k in ('self.pattern', 'self.npatterns', 'self.negateall') if k not in d]
        if undecided and apps_p:
            bad_d.append(f'default appended without testing {undecided}')
        if len(apps_p) != (1 if want else 0):
            bad_d.append(f'pattern={d.get("self.pattern")} npatterns={d.get("self.npatterns")} negateall={d.get("self.negateall")}: {len(apps_p)} default(s)')
        elif apps_p:
            v = apps_p[0][2][0] if apps_p[0][2] else None
            splits = [e for e in p.calls_to('glob:_GlobSplit')]
            okv = isinstance(v, Opaque) and v.tag.startswith('glob:_GlobSplit(self.stars, ') and v.tag.endswith(').split()') and len(splits) == 1 and \
                len(splits[0][1]) == 2 and passes_through(splits[0][1][1], 'sflags', GS, decided_bits(p, 'sflags') & ~GS)
            if not okv:
                bad_d.append(f'default is {_tag(v)[:90]}')
        want_n = d.get('self.nodir') is True and d.get('force_negate') is False
        if len(apps_n) != (1 if want_n else 0) or (apps_n and apps_n[0][2] != [Opaque('self.re_no_dir')]):
            bad_n.append(f'nodir={d.get("self.nodir")} force_negate={d.get("force_negate")}: {[a[2] for a in apps_n]}')
        if apps_n and apps_p and p.events.index(apps_n[0]) < p.events.index(apps_p[0]):
            pass  # order is immaterial here: the NODIR pattern does not depend on the inclusion list
        # the automatic switch to nounique (a single inclusion pattern cannot produce duplicates)
        ND = repo.const('glob', 'NODOTDIR')

        def K_not(a: Any) -> Any:
            return None if a is None else (not a)

        def K_and(*xs: Any) -> Any:
            return False if any(x is False for x in xs) else (None if any(x is None for x in xs) else True)
        single = d.get('len(self.pattern) <= 1', K_not(d.get('len(self.pattern) > 1')))
        if single is None and 'len(self.pattern) < 2' in d:
            single = d['len(self.pattern) < 2']
        want_u = K_and(K_not(d.get('force_negate')), single, K_not(d.get(f'bit:sflags:{ND:x}')), K_not(d.get('self.nounique')),
                       K_not(K_and(d.get('self.pathlib'), d.get('self.scandotdir'))))
        st = [e for e in p.events if e[0] == 'store' and e[1] == 'self.nounique']
        if want_u is None or bool(st) != want_u or (st and st[-1][2] is not True):
            bad_u.append(f'force_negate={d.get("force_negate")} single={single} NODOTDIR={d.get(f"bit:sflags:{ND:x}")} nounique={d.get("self.nounique")} '
                         f'pathlib={d.get("self.pathlib")} scandotdir={d.get("self.scandotdir")}: nounique set={bool(st)}')
    if len(paths) < 8:
        raise AnalysisError(f'Glob._parse_patterns: tail table has only {len(paths)} rows')
    if 'negateall-default' in which:
        ctx.ob(rule, 'glob:Glob._parse_patterns/negateall-default', not bad_d, repo.loc('glob', pp.node),
               'not self.pattern and self.npatterns and self.negateall: pattern ← _GlobSplit(self.stars, self.flags | GLOBSTAR).split()',
               f'{len(paths)} rows agree' if not bad_d else sorted(set(bad_d))[0][:200], witness="glob('!a', flags=NEGATE|NEGATEALL) lists everything but a")
    if 'auto-nounique' in which:
        ctx.ob(rule, 'glob:Glob._parse_patterns/auto-nounique', not bad_u, repo.loc('glob', pp.node),
               'self.nounique = True iff not force_negate and len(self.pattern) <= 1 and not self.flags & NODOTDIR and not self.nounique and not (self.pathlib and self.scandotdir)',
               f'{len(paths)} rows agree' if not bad_u else sorted(set(bad_u))[0][:220],
               witness="glob(['a', '[a]']) must return `a` once: the shortcut may only apply to a single inclusion pattern")
    if 'nodir-pattern' in which:
        ctx.ob(rule, 'glob:Glob._parse_patterns/nodir-pattern', not bad_n, repo.loc('glob', pp.node),
               'self.nodir and not force_negate: self.npatterns.append(self.re_no_dir)', f'{len(paths)} rows agree' if not bad_n else sorted(set(bad_n))[0][:200],
               witness="glob('*', flags=NODIR) must not return directories; the exclusion pass must not add it twice")


def rule_negateall_default(ctx: Ctx, rule: str) -> None:
    ctx.text(rule, 'NEGATEALL default: when there are exclusions and no inclusion, `**` is appended iff NEGATEALL, with GLOBSTAR added iff '
                   'PATHNAME, in translate, compile_pattern and Glob._parse_patterns alike; Glob keeps NEGATEALL in self.negateall')
    repo = ctx.repo
    from . import pipeline
    pipeline.rule_pipeline_tail(ctx, rule, which={'negateall-default', 'returns-pair'}, text=False)
    parse_patterns_tail(ctx, rule, which={'negateall-default'})
    from . import ginit
    ginit.rule_walker_bits(ctx, rule, which={'negateall', 'walker-bits-stripped'})
    ginit.rule_derived_attrs(ctx, rule, which={'twins'})


def rule_evaluation_shape(ctx: Ctx, rule: str) -> None:
    from . import matchrules
    matchrules.rule_evaluation_shape(ctx, rule)
    matchrules.rule_match_excluded(ctx, rule, which={'table'})


def rule_expand_order(ctx: Ctx, rule: str) -> None:
    ctx.text(rule, 'expand nests expand_braces → split → expand_tilde in that order; each stage is guarded by its own flag '
                   '(BRACE, SPLIT, GLOBTILDE ∧ REALPATH)')
    repo = ctx.repo
    ex = repo.func(WP, 'expand')
    from ..symeval import SymEval, Opaque, _tag, focus
    pars = ex.params()
    if len(pars) != 3:
        raise AnalysisError('expand: (pattern, flags, limit) expected')
    ev = SymEval(repo, inline=False)
    paths = ev.tabulate(ex, {pars[0]: Opaque('pattern'), pars[1]: Opaque('flags'), pars[2]: Opaque('limit')}, None)
    b_ = f'{WP}:expand_braces(pattern, flags, limit)'
    s_ = f'{WP}:split(elem({b_}), flags)'
    want = f'{WP}:expand_tilde(elem({s_}), {WP}:is_unix_style(flags), flags)'
    got = set()
    for p in paths:
        focus(p)
        for y in p.of('yield'):
            got.add(_tag(y[1]))
    ok = got == {want}
    ctx.ob(rule, f'{WP}:expand/nesting', ok, repo.loc(WP, ex.node), 'for expanded in expand_braces(…): for s in split(expanded, flags): yield expand_tilde(s, is_unix_style(flags), flags)',
           'as expected' if ok else '; '.join(sorted(got))[:300], witness="fnmatch('a|b', '{a|b,c}', BRACE|SPLIT): braces expand before splitting")
    eb = repo.func(WP, 'expand_braces')
    from .common import api_table
    _ev2, rows = api_table(repo, WP, 'expand_braces')
    BR = repo.const(WP, 'BRACE')
    bad_g, bad_p = [], []
    for p in rows:
        focus(p)
        br = p.decisions.get(f'bit:flags:{BR:x}')
        one = p.decisions.get('isinstance(patterns, (str, bytes))')
        X = '[patterns]' if one else 'patterns'
        if one is None and any(e[1] == f'{WP}:iter_patterns' and [_tag(a) for a in e[2]] == ['patterns'] for e in p.of('call')):
            X, one = f'{WP}:iter_patterns(patterns)', 'by iter_patterns'  # the library's own "one pattern or a sequence" helper
        ys = [tuple(_tag(x) for x in y[1]) if isinstance(y[1], tuple) else _tag(y[1]) for y in p.of('yield')]
        if br is None or one is None:
            bad_g.append(f'BRACE={br} single={one}: not decided')
        elif br:
            if ys != [("'from'", f'bracex.iexpand(elem({X}), keep_escapes=True, limit=limit)')]:
                bad_g.append(f'BRACE set: yields {ys}')
        elif ys not in ([("'from'", X)], [f'elem({X})']):
            bad_p.append(f'BRACE clear: yields {ys}')
    ctx.ob(rule, f'{WP}:expand_braces/guard', not bad_g and len(rows) >= 2, repo.loc(WP, eb.node), 'bracex.iexpand(p, keep_escapes=True, limit=limit) for every pattern iff flags & BRACE',
           f'{len(rows)} rows agree' if not bad_g else bad_g[0][:200], witness=r"fnmatch('{a,b}', r'\{a,b\}', BRACE): escapes must survive expansion")
    ctx.ob(rule, f'{WP}:expand_braces/passthrough', not bad_p, repo.loc(WP, eb.node), 'without BRACE each pattern passes unchanged', 'as expected' if not bad_p else bad_p[0][:200])
    sp = repo.func(WP, 'split')
    q2 = fq(sp)
    yf = [y for y in walk_no_nested(sp.node) if isinstance(y, ast.YieldFrom)]
    yp = [y for y in walk_no_nested(sp.node) if isinstance(y, ast.Yield)]
    oks = len(yf) == 1 and norm_src(yf[0].value) == 'WcSplit(pattern, flags).split()' and q2.guarded(yf[0], 'flags & SPLIT', 'T') and \
        len(yp) == 1 and norm_src(yp[0].value) == 'pattern' and q2.guarded(yp[0], 'flags & SPLIT', 'F')
    ctx.ob(rule, f'{WP}:split/guard', oks, repo.loc(WP, sp.node), 'WcSplit(pattern, flags).split() iff flags & SPLIT, else the pattern itself', str(oks),
           witness="fnmatch('a|b', 'a|b') without SPLIT matches the literal name `a|b`")
    tp = repo.func(WP, 'tilde_pos')
    ifs = [n for n in tp.node.body if isinstance(n, ast.If)]
    okt = bool(ifs) and equivalent_tests(ifs[0].test, 'flags & GLOBTILDE and flags & REALPATH')
    ctx.ob(rule, f'{WP}:tilde_pos/guard', okt, repo.loc(WP, tp.node), 'flags & GLOBTILDE and flags & REALPATH', norm_src(ifs[0].test) if ifs else 'none',
           witness="globmatch('~', '~', GLOBTILDE) without REALPATH must not expand")
    # the pipe splitter: yields text between top-level `|`
    ws = repo.func(WP, 'WcSplit._split')
    q3 = fq(ws)
    ys3 = [y for y in walk_no_nested(ws.node) if isinstance(y, ast.Yield)]
    bar = [y for y in ys3 if q3.guarded(y, lambda s: s.replace('"', "'") == "c == '|'", 'T')]
    okp = len(bar) == 1 and len(ys3) == 2
    ctx.ob(rule, f'{WP}:WcSplit._split/pipe', okp, repo.loc(WP, ws.node), 'one yield per top-level `|` plus the tail', f'{len(bar)} of {len(ys3)}',
           witness="fnmatch('a', 'a|b', SPLIT)")
    skip = [n for n in walk_no_nested(ws.node) if isinstance(n, ast.If) and any(isinstance(s, ast.Continue) for s in n.body)]
    okk = bool(skip) and equivalent_tests(skip[0].test, 'self.extend and c in EXT_TYPES and self.parse_extend(c, i)')
    ctx.ob(rule, f'{WP}:WcSplit._split/skips-extglob', okk, repo.loc(WP, ws.node), 'if self.extend and c in EXT_TYPES and self.parse_extend(c, i): continue',
           norm_src(skip[0].test) if skip else 'none', witness="fnmatch('a', '@(a|b)', SPLIT|EXTMATCH): the `|` inside the group does not split")


def _is_posix_call(n: ast.AST) -> bool:
    if not isinstance(n, ast.Call):
        return False
    f = norm_src(n.func)
    if f == 'self._handle_posix':
        return True
    return f == 'i.match' and bool(n.args) and norm_src(n.args[0]).endswith('RE_POSIX')


def _char_test(t: ast.AST) -> set | None:
    if isinstance(t, ast.Compare) and len(t.ops) == 1 and isinstance(t.left, ast.Name) and t.left.id == 'c':
        c0 = t.comparators[0]
        if isinstance(t.ops[0], ast.Eq) and isinstance(c0, ast.Constant):
            return {c0.value}
        if isinstance(t.ops[0], ast.In) and isinstance(c0, (ast.Tuple, ast.Set, ast.List)):
            return {e.value for e in c0.elts if isinstance(e, ast.Constant)}
    return None


def scanner_description(fn_node: ast.AST) -> dict:
    """Prologue stages ([(chars, posix-aware)] per if/elif chain) and posix awareness of the main loop of a `_sequence`."""
    stages: list[list[tuple[frozenset, bool]]] = []
    started = False
    loop_posix = False
    for st in fn_node.body:
        if isinstance(st, ast.Expr) and isinstance(st.value, ast.Constant):
            continue
        if isinstance(st, ast.Assign) and norm_src(st.value) == 'next(i)':
            started = True
            continue
        if isinstance(st, ast.Assign):
            continue
        if isinstance(st, ast.If) and started and _char_test(st.test) is not None:
            cur: Any = st
            arms: list[tuple[frozenset, bool]] = []
            while isinstance(cur, ast.If):
                chars = _char_test(cur.test)
                if chars is None:
                    raise AnalysisError('bracket prologue: test not understood')
                advances = any(isinstance(s, ast.Assign) and norm_src(s.value) == 'next(i)' and norm_src(s.targets[0]) == 'c' for s in cur.body)
                posix = any(_is_posix_call(x) for s in cur.body for x in ast.walk(s))
                if advances:
                    arms.append((frozenset(chars), posix))
                cur = cur.orelse[0] if len(cur.orelse) == 1 and isinstance(cur.orelse[0], ast.If) else None
            stages.append(arms)
            continue
        # main loop
        for w in [x for x in ast.walk(st) if isinstance(x, ast.While)]:
            for n in ast.walk(w):
                if not isinstance(n, ast.If):
                    continue
                # `if c == '[': <posix handler>` or `if c == '[' and (x := <posix handler>)`
                t0 = n.test.values[0] if isinstance(n.test, ast.BoolOp) and isinstance(n.test.op, ast.And) else n.test
                if _char_test(t0) == {'['} and (any(_is_posix_call(x) for s in n.body for x in ast.walk(s)) or
                                                any(_is_posix_call(x) for x in ast.walk(n.test))):
                    loop_posix = True
        break
    return {'stages': stages, 'loop_posix': loop_posix}


def _posix_end(names: set[str], text: str, idx: int) -> int:
    for nm in names:
        tok = ':' + nm + ':]'
        if text.startswith(tok, idx):
            return idx + len(tok)
    return -1


def _extent(desc: dict, text: str, names: set[str]) -> int:
    """Index of the `]` that closes the bracket expression whose body is `text` (-1: unterminated)."""
    pos = 0
    for arms in desc['stages']:
        if pos >= len(text):
            return -1
        c = text[pos]
        for chars, posix in arms:
            if c in chars:
                pos += 1
                if posix and c == '[':
                    e = _posix_end(names, text, pos)
                    if e >= 0:
                        pos = e
                break
    while pos < len(text):
        c = text[pos]
        if c == ']':
            return pos
        pos += 1
        if c == '[' and desc['loop_posix']:
            e = _posix_end(names, text, pos)
            if e >= 0:
                pos = e
    return -1


def _show_desc(d: dict) -> str:
    return '; '.join('/'.join(''.join(sorted(ch)) + ('+posix' if px else '') for ch, px in arms) for arms in d['stages']) + \
        ('; loop skips POSIX classes' if d['loop_posix'] else '; loop ignores POSIX classes')


def rule_bracket_extents(ctx: Ctx, rule: str) -> None:
    ctx.text(rule, 'scanner agreement on bracket extents: the three _sequence scanners (WcParse, WcSplit, _GlobSplit) must agree on '
                   'where a bracket expression ends; from each the prologue (if/elif stages of skipped characters, POSIX awareness) and '
                   'the POSIX awareness of the main loop are extracted and the position of the closing `]` is computed for 21 probe '
                   'bodies (`]x]`, `!]x]`, `^]x]`, `-]`, `[:alpha:]x]`, ...)')
    repo = ctx.repo
    members = {'WcParse': repo.func(WP, 'WcParse._sequence'), 'WcSplit': repo.func(WP, 'WcSplit._sequence'),
               '_GlobSplit': repo.func('glob', '_GlobSplit._sequence')}
    from .c01 import _literal_alternatives
    rp = repo.const(WP, 'RE_POSIX')
    names = _literal_alternatives(rx.parse(rp.pattern, rp.flags).node)
    if not names:
        raise AnalysisError('RE_POSIX: class names not extractable')
    from . import seqrules
    where = {'WcParse': WP, 'WcSplit': WP, '_GlobSplit': 'glob'}
    reads = {k: seqrules.prologue_reads(repo, where[k], k) for k in members}
    loop_posix = {}
    for k in members:
        rows, scan, _every = seqrules.loop_table(repo, where[k], k)
        loop_posix[k] = any(seqrules._char(p, scan) == '[' and any(e[0] == 'call' and (e[1].endswith('._handle_posix') or e[1] == 'i.match') for e in p.events)
                            for p in rows)
    ref = reads['WcParse']
    if sum(1 for v in ref.values() if len(v) == 1) < 30:
        raise AnalysisError('WcParse._sequence: the prologue table does not determine what is consumed for most first-character pairs')

    def show(c1: str, c2: str, v: set) -> str:
        return f'`[{c1}{c2}`: ' + ' / '.join(f'{n} read, POSIX class tried after read {px}' if px else f'{n} read' for n, px in sorted(v, key=repr))
    for name in ('WcSplit', '_GlobSplit'):
        fi = members[name]
        diff = [k2 for k2 in sorted(ref) if reads[name][k2] != ref[k2]]
        if loop_posix[name] != loop_posix['WcParse']:
            diff.append(('loop', 'posix'))
        ctx.ob(rule, f'{fi.module}:{name}._sequence/closing-bracket-agreement', not diff, repo.loc(fi.module, fi.node),
               'before the scan loop the same characters are consumed as in WcParse._sequence for every pair of first characters out of ! ^ [ - ] x '
               '(so the scan for the closing `]` starts at the same place), and the loop skips POSIX classes iff the parser\'s loop does',
               'agrees on all 36 pairs' if not diff else ('the scan loops differ in POSIX awareness' if diff[0] == ('loop', 'posix') else
                                                          f'{show(*diff[0], reads[name][diff[0]])}; WcParse: {show(*diff[0], ref[diff[0]])}'), note='F12',
               witness="fnmatch.translate('[]|]', flags=SPLIT) and translate('[[:alpha:]|]', flags=SPLIT) yield two patterns although the `|` is inside a bracket expression")
    ctx.count('bracket_probes', len(ref))
    same = reads['WcSplit'] == reads['_GlobSplit'] and loop_posix['WcSplit'] == loop_posix['_GlobSplit']
    ctx.ob(rule, 'siblings:WcSplit._sequence==_GlobSplit._sequence', same, repo.loc('glob', members['_GlobSplit'].node),
           'identical consumption before the scan loop', 'identical' if same else 'the two splitters consume differently',
           witness='glob and globmatch would split the same pattern differently')
    # member-by-member comparison of the two splitting scanners, modulo the declared difference (path mode)
    for meth in ('parse_extend',):
        a = repo.func(WP, f'WcSplit.{meth}')
        b = repo.func('glob', f'_GlobSplit.{meth}')
        sa, sb = _scan_summary(repo, a), _scan_summary(repo, b)
        only_a, only_b = sorted(sa - sb, key=repr), sorted(sb - sa, key=repr)
        ctx.ob(rule, f'siblings:WcSplit.{meth}==_GlobSplit.{meth}', sa == sb and len(sa) >= 6, repo.loc('glob', b.node),
               'same scanner: per character class of the list body the same nested scanner is called with the same arguments, the same '
               'failure handling (decision tables of one loop iteration, scan character and class prefix normalised)',
               f'{len(sa)} rows equal' if sa == sb else f'only WcSplit: {only_a[:1]}; only _GlobSplit: {only_b[:1]}'[:400],
               witness="glob('@(a|b)/c', EXTGLOB) must split at the same `/` as globmatch")


def _scan_summary(repo: Any, fi: Any) -> set:
    """Rows (guards on the scan character, package calls in order, result) of one iteration of an extended-list skipping scanner."""
    from ..symeval import SymEval, Obj, Opaque, _tag, focus
    pars = [p for p in fi.params() if p != 'self']
    if len(pars) != 2:
        raise AnalysisError(f'{fi.qualname}: (c, i) expected')
    ev = SymEval(repo, inline=False, explore_handlers=True, loop_mode='once', max_paths=5000)
    paths = ev.tabulate(fi, {pars[0]: Opaque('c'), pars[1]: Opaque('i')}, Obj((fi.module, fi.cls), {}))
    pre = f'{fi.module}:{fi.cls}.'
    scan = {k[:-len(" == '\\\\'")] for p in paths for k in p.decisions if k.endswith(" == '\\\\'")}
    if not scan:
        # no backslash arm (that is a finding of the comparison, not an obstacle): the scan character is what is compared with `[` / `)`
        scan = {k[:-len(" == '['")] for p in paths for k in p.decisions if k.endswith(" == '['")} or \
               {k[:-len(" == ')'")] for p in paths for k in p.decisions if k.endswith(" == ')'") and not k.startswith('loop@')}
    if len(scan) != 1:
        raise AnalysisError(f'{fi.qualname}: the scan character is not unique: {sorted(scan)}')
    S = next(iter(scan))
    rows = set()
    for p in paths:
        focus(p)
        d = p.decisions
        if d.get(f"{S} == ')'") is True:
            continue  # the iteration that ends the list
        guards = []
        for k, v in d.items():
            if k.startswith('raises(') or k == f"{S} == ')'":
                continue
            if S in k or k == 'self.extend':
                guards.append((k.replace(S, 'C').replace(pre, ''), v))
        # the iteration proper: between the loop entry and the end of the iteration
        evs = list(p.events)
        hi = next((k for k, e in enumerate(evs) if e[0] == 'iterend'), None)
        inside = evs[:hi] if hi is not None else []     # (what precedes the loop is the same on every row)
        outside = evs[hi + 1:] if hi is not None else evs

        def show(seq: list) -> tuple:
            calls = []
            for e in seq:
                if e[0] == 'call' and e[1].startswith(pre):
                    calls.append(e[1][len(pre):] + '(' + ', '.join(_tag(a).replace(S, 'C') for a in e[2]) + ')')
                elif e[0] == 'except':
                    calls.append(f'except {e[3]}')
                elif e[0] == 'call' and e[1].endswith('.rewind'):
                    calls.append('rewind')
            return tuple(calls)
        if guards and inside:
            rows.add((tuple(sorted(guards)), show(inside)))
        # discipline of the outcome: failure = everything read is put back and False is returned
        out = show(outside)
        if p.ret is False:
            rows.add(('failure puts everything back', bool(out) and out[-1] == 'rewind'))
        elif p.ret is not True and not p.raised:
            rows.add(('returns', _tag(p.ret)))
    return rows


# ================================================================================================ C08
def _alpha(fn: ast.AST, subst: dict[str, str]) -> list[str]:
    """Normalised statement texts of a function with sibling-specific names replaced."""
    node = copy.deepcopy(fn)
    order: dict[str, str] = {}

    class R(ast.NodeTransformer):
        def visit_Name(self, n: ast.Name) -> ast.AST:
            if n.id in subst:
                return ast.copy_location(ast.Name(id=subst[n.id], ctx=n.ctx), n)
            return n

        def visit_Call(self, n: ast.Call) -> ast.AST:
            self.generic_visit(n)
            # WcParse(x, f).parse()  ->  COMPILE(x, f)
            if isinstance(n.func, ast.Attribute) and n.func.attr == 'parse' and isinstance(n.func.value, ast.Call) and \
                    norm_src(n.func.value.func) == 'WcParse':
                return ast.copy_location(ast.Call(func=ast.Name(id='COMPILE', ctx=ast.Load()), args=n.func.value.args, keywords=[]), n)
            if norm_src(n.func) == '_compile':
                return ast.copy_location(ast.Call(func=ast.Name(id='COMPILE', ctx=ast.Load()), args=n.args, keywords=[]), n)
            return n

        def visit_BinOp(self, n: ast.BinOp) -> ast.AST:
            self.generic_visit(n)
            if isinstance(n.op, ast.BitOr):
                # canonical order for commutative flag unions
                ops: list[ast.AST] = []

                def flat(x: ast.AST) -> None:
                    if isinstance(x, ast.BinOp) and isinstance(x.op, ast.BitOr):
                        flat(x.left)
                        flat(x.right)
                    else:
                        ops.append(x)
                flat(n)
                ops.sort(key=norm_src)
                cur = ops[0]
                for o in ops[1:]:
                    cur = ast.BinOp(left=cur, op=ast.BitOr(), right=o)
                return ast.copy_location(cur, n)
            return n

        def visit_Attribute(self, n: ast.Attribute) -> ast.AST:
            self.generic_visit(n)
            if n.attr == 'pattern' and isinstance(n.value, ast.Subscript) and norm_src(n.value) in ('negative[0]', 'positive[0]'):
                return n.value
            return n
    node = R().visit(node)
    out = []
    for st in node.body:
        if isinstance(st, ast.Expr) and isinstance(st.value, ast.Constant):
            continue
        out.append(norm_src(st))
    return out


def rule_translate_compile_siblings(ctx: Ctx, rule: str) -> None:
    ctx.text(rule, 'sibling summaries: translate and compile_pattern are the same loop (normalisation, budget arithmetic and raise '
                   'predicate, de-dupe, routing and forced bits, NEGATEALL default, NODIR tail) and differ only in '
                   'WcParse(p, f).parse() vs _compile(p, f) and in the one statement that adds _TRANSLATE and masks the flags')
    repo = ctx.repo
    from . import pipeline
    pipeline.rule_pipeline_siblings(ctx, rule)
    tr = repo.func(WP, 'translate')
    readers = []
    for m in repo.modules.values():
        for fi in m.functions.values():
            for n in walk_no_nested(fi.node):
                if isinstance(n, ast.Name) and n.id == '_TRANSLATE' and fi.fq not in (f'{WP}:translate', f'{WP}:WcParse.__init__'):
                    readers.append(fi.fq)
                if isinstance(n, ast.Attribute) and n.attr == '_TRANSLATE':
                    readers.append(fi.fq)
    ctx.ob(rule, f'{WP}:_TRANSLATE/readers', not readers, repo.loc(WP, repo.const_line(WP, '_TRANSLATE')), 'read only by translate (set) and WcParse.__init__', str(readers))


def rule_marker_handling(ctx: Ctx, rule: str) -> None:
    ctx.text(rule, 'marker handling: the (?#)→?: rewrite inside negated content and the final (?#) strip are both control-dependent on '
                   'self.capture; (?#) occurs in fragment constants only as the first thing inside a capturing parenthesis')
    from . import seqrules
    seqrules.rule_scan_loops(ctx, rule, which={'marker-not-spellable'})
    repo = ctx.repo
    ci = repo.func(WP, 'WcParse.clean_up_inverse')
    from .cextra import inverse_cleanup_table, _dec
    from ..symeval import Tok
    bad = []
    n = 0
    for p in inverse_cleanup_table(repo):
        for e in p.of('setitem'):
            n += 1
            cap = _dec(p, lambda k: k == 'self.capture')
            head = str(e[3].parts[0]) if isinstance(e[3], Tok) and e[3].parts else ''
            rewritten = head.count(".replace('(?#)', '?:')")
            if cap is None or rewritten != (1 if cap else 0) or head.count('.replace(') != rewritten:
                bad.append(f'capture={cap}: {head[:80]}')
    ctx.floor(rule, 'placeholder rewrites', n, 4)
    ctx.ob(rule, f'{WP}:WcParse.clean_up_inverse/marker-rewrite', not bad, repo.loc(WP, ci.node),
           "rest of the pattern has '(?#)' rewritten to '?:' exactly when self.capture", 'as expected' if not bad else bad[0],
           witness="translate('!(@(a))', EXTMATCH): groups inside a negation must not capture")
    pr = repo.func(WP, 'WcParse._parse')
    q = fq(pr)
    strips = [c for c in walk_no_nested(pr.node) if isinstance(c, ast.Call) and isinstance(c.func, ast.Attribute) and c.func.attr == 'replace' and
              c.args and isinstance(c.args[0], ast.Constant) and c.args[0].value == '(?#)']
    ok2 = len(strips) == 1 and q.guarded(strips[0], 'self.capture', 'T') and norm_src(strips[0].args[1]) == "''"
    ctx.ob(rule, f'{WP}:WcParse._parse/marker-strip', ok2, repo.loc(WP, pr.node), "if self.capture: pattern = pattern.replace('(?#)', '')", str(ok2))
    # who may touch the marker at all: the rest-of-pattern rewrite and the final strip; anything else removes captures that translate owes
    from .common import pinned_writers  # noqa: F401  (same idea: attribute the site to the pinned method that owns it)
    sites = {}
    for fi in repo.cls(WP, 'WcParse').methods.values():
        for c in walk_no_nested(fi.node):
            if isinstance(c, ast.Call) and isinstance(c.func, ast.Attribute) and c.func.attr in ('replace', 'sub', 'subn') and \
                    any(isinstance(a, ast.Constant) and isinstance(a.value, str) and '(?#)' in a.value for a in c.args):
                sites.setdefault(fi.name, []).append(norm_src(c.args[1]) if len(c.args) > 1 else '?')
    want_sites = {'clean_up_inverse': ["'?:'"], '_parse': ["''"]}
    ctx.ob(rule, f'{WP}:WcParse/marker-rewrite-sites', sites == want_sites, repo.loc(WP, repo.cls(WP, 'WcParse').node),
           "the marker is rewritten to '?:' only for the rest-of-pattern inside a closing `!(..)` (clean_up_inverse) and stripped only in _parse", str(sites),
           witness="fnmatch.translate('!(@(a)|b)c', EXTMATCH) must keep one capturing group per extended group, also for groups nested in `!(..)`")
    env = repo.mod(WP).env
    bad = [k for k, v in env.items() if isinstance(v, str) and '(?#)' in v and not (v.startswith('((?#)') and v.count('(?#)') == 1)]
    n = sum(1 for v in env.values() if isinstance(v, str) and '(?#)' in v)
    ctx.floor(rule, 'constants carrying the marker', n, 5)
    ctx.ob(rule, f'{WP}:marker-placement', not bad, repo.loc(WP, 1), '`(?#)` only directly after the opening of a capturing parenthesis', str(bad))


# ================================================================================================ C09
def _class_literals(pattern: str) -> set[str]:
    """Literal members of the first character class of the first alternative of a regex constant."""
    p = rx.parse(pattern)
    node = p.node
    while node[0] == 'cap':
        node = node[2]
    first = node
    if node[0] == 'alt':
        lits = [a for a in node[1] if a[0] == 'lit']
        first = lits[0] if lits else node[1][0]
    elif node[0] == 'seq':
        first = node[1][0]
    if first[0] != 'lit':
        raise AnalysisError('escape regex: first alternative is not a character class')
    return {chr(c) for lo, hi in first[1] for c in range(lo, hi + 1)}


def dispatch_chars(ctx: Ctx) -> dict[str, set[str]]:
    repo = ctx.repo
    out: dict[str, set[str]] = {}
    for qn in ('WcParse.root', 'WcParse.parse_extend', 'WcParse._handle_star', 'WcParse._sequence', 'WcSplit._split'):
        fi = repo.func(WP, qn)
        s: set[str] = set()
        for n in walk_no_nested(fi.node):
            if isinstance(n, ast.Compare) and len(n.ops) == 1 and isinstance(n.left, ast.Name) and n.left.id == 'c':
                c0 = n.comparators[0]
                if isinstance(n.ops[0], (ast.Eq, ast.NotEq)) and isinstance(c0, ast.Constant) and isinstance(c0.value, str) and len(c0.value) == 1:
                    s.add(c0.value)
                elif isinstance(n.ops[0], ast.In) and isinstance(c0, (ast.Tuple, ast.Set, ast.List)):
                    s |= {e.value for e in c0.elts if isinstance(e, ast.Constant) and isinstance(e.value, str) and len(e.value) == 1}
        out[qn] = s
    return out


def rule_escape_covers(ctx: Ctx, rule: str) -> None:
    ctx.text(rule, 'escape covers everything special: E = the character class of RE_MAGIC_ESCAPE plus the backslash (doubled before the '
                   'substitution); M = union of the MAGIC_* tables ⊆ E; every character the parser / splitter / expanders dispatch on is '
                   'in E, or is special only in front of a member of E (`+`, `@` before `(`; `,` inside braces; `^` inside brackets), '
                   'or is in the reasoned allow-list {`.`, `/`}; str and bytes variants are twins; RE_WIN_DRIVE_MAGIC covers braces, '
                   'pipe and a lone backslash')
    repo = ctx.repo
    rme = repo.const(WP, 'RE_MAGIC_ESCAPE')
    site = repo.loc(WP, repo.const_line(WP, 'RE_MAGIC_ESCAPE'))
    E = _class_literals(rme[0].pattern) | {'\\'}
    M: set[str] = set()
    for nm in ('MAGIC_DEF', 'MAGIC_SPLIT', 'MAGIC_NEGATE', 'MAGIC_MINUS_NEGATE', 'MAGIC_TILDE', 'MAGIC_EXTMATCH', 'MAGIC_BRACE'):
        M |= set(repo.const(WP, nm)[0])
    ctx.ob(rule, f'{WP}:RE_MAGIC_ESCAPE/covers-magic-tables', M <= E, site, f'M = {sorted(M)} ⊆ E', f'missing {sorted(M - E)}' if not M <= E else f'E = {sorted(E)}',
           witness="escape('~') under GLOBTILDE|REALPATH must not expand to the home directory")
    D = dispatch_chars(ctx)
    allD: set[str] = set().union(*D.values())
    allD |= set(repo.const(WP, 'EXT_TYPES')) | {c for c in repo.const(WP, 'NEGATIVE_SYM') if isinstance(c, str)} | \
        {c for c in repo.const(WP, 'MINUS_NEGATIVE_SYM') if isinstance(c, str)} | {repo.const(WP, 'TILDE_SYM')[0]} | {'{', '}', ','}
    ctx.floor(rule, 'dispatch characters', len(allD), 10)
    before_member = {'+': '(', '@': '(', ',': '{', '^': '['}
    allow = {'.': 'a literal dot keeps its meaning', '/': 'separators are meant to survive glob.escape'}
    for d in sorted(allD):
        if d in E:
            ok, why = True, 'escaped'
        elif d in before_member and before_member[d] in E:
            ok, why = True, f'special only with `{before_member[d]}`, which is escaped'
        elif d in allow:
            ok, why = True, allow[d]
        elif '[' in E and all(str(fn).endswith('_sequence') for fn, chars in D.items() if d in chars):
            ok, why = True, 'special only inside a bracket expression, and `[` is escaped'
        else:
            ok, why = False, 'dispatched on but neither escaped nor excused'
        ctx.ob(rule, f'{WP}:escape/dispatch-char[{d}]', ok, site, 'escaped by RE_MAGIC_ESCAPE (or harmless)', why,
               witness=f"fnmatch(s, escape(s)) for s containing `{d}` under every flag combination")
    # the backslash alternative: a lone backslash (not part of an escaped pair) is doubled
    es = repo.func(WP, 'escape')
    from .common import api_table
    from ..symeval import _tag as _vt, focus as _focus
    _ev3, rows = api_table(repo, WP, 'escape')
    labels = {}
    for nm in ('RE_MAGIC_ESCAPE', 'RE_WIN_DRIVE_MAGIC', 'RE_WIN_DRIVE'):
        for k, c in enumerate(repo.const(WP, nm)):
            labels[_vt(c)] = f'{nm}[{k}]'
    bad_r, bad_d = [], []
    n_m = 0
    for p in rows:
        _focus(p)
        isb = p.decisions.get('isinstance(pattern, bytes)')
        if isb is None:
            bad_r.append('the type of the pattern is not consulted')
            continue
        k = 1 if isb else 0
        t = _vt(p.ret)
        for full, lab in labels.items():
            t = t.replace(full, lab)
        bs, dbl, rp = (r"b'\\'", r"b'\\\\'", r"b'\\\\\\1'") if isb else (r"'\\'", r"'\\\\'", r"'\\\\\\1'")
        P = f'pattern.replace({bs}, {dbl})'
        M = f'RE_WIN_DRIVE[{k}].match({P})'
        plain = ()
        for tail0 in (f'RE_MAGIC_ESCAPE[{k}].sub({rp}, {P}[0:])', f'RE_MAGIC_ESCAPE[{k}].sub({rp}, {P})'):  # `P[0:]` is `P`
            plain += ('{' + tail0 + '}', "(b''+" + tail0 + ')', "{''}+{" + tail0 + '}', tail0)
        matched = [v for kk, v in p.decisions.items() if kk.startswith('RegexConst(') and '.match(' in kk]
        if matched == [True]:
            n_m += 1
            head = '{' + f'RE_WIN_DRIVE_MAGIC[{k}].sub({rp}, {M}.group(0))' + '}'
            tails = ['{' + f'RE_MAGIC_ESCAPE[{k}].sub({rp}, {P}[{L}:])' + '}' for L in (f'len({M}.group(0))', f'{M}.end(0)', f'{M}.end()')]
            if t not in [head + '+' + x for x in tails]:
                bad_d.append(f'bytes={isb}, drive prefix: returns {t[:160]}')
        elif t not in plain:
            bad_r.append(f'bytes={isb}: returns {t[:160]}')
    if n_m < 2:
        raise AnalysisError('escape: the drive-prefix rows are not reached in the table')
    ctx.ob(rule, f'{WP}:escape/backslash-doubled-first', not [b for b in bad_r + bad_d if 'pattern.replace' not in b or True] or not (bad_r or bad_d), repo.loc(WP, es.node),
           'every substitution and the drive match see the pattern with its backslashes doubled', 'as expected' if not (bad_r or bad_d) else (bad_r + bad_d)[0],
           witness=r"escape('a\\b') must match the name `a\b` literally")
    ctx.ob(rule, f'{WP}:escape/result', not bad_r and not bad_d, repo.loc(WP, es.node),
           'drive prefix (its splitting magic escaped) + RE_MAGIC_ESCAPE.sub(replace, rest of the doubled pattern), with the twin of the pattern type',
           f'{len(rows)} rows agree' if not (bad_r or bad_d) else (bad_r + bad_d)[0])
    dm = repo.const(WP, 'RE_WIN_DRIVE_MAGIC')
    DM = _class_literals(dm[0].pattern)
    need = set(repo.const(WP, 'MAGIC_BRACE')[0]) | set(repo.const(WP, 'MAGIC_SPLIT')[0])
    ctx.ob(rule, f'{WP}:RE_WIN_DRIVE_MAGIC/covers-splitting-magic', need <= DM, repo.loc(WP, repo.const_line(WP, 'RE_WIN_DRIVE_MAGIC')), f'{sorted(need)} ⊆ class',
           str(sorted(DM)), witness="glob.escape('//server/sh{a,b}re/x', unix=False) under BRACE")
    # both escape regexes share the lone-backslash alternative (compared as parsed regexes, whatever the spelling)
    ref_tail = rx.strip_caps(rx.parse(r'(?<!\\)(?:\\\\)*\\(?!\\)', 0).node)

    def has_tail(c: Any) -> bool:
        node = rx.strip_caps(rx.parse(c.pattern if isinstance(c.pattern, str) else c.pattern.decode('latin-1'), 0).node)
        alts = node[1] if node[0] == 'alt' else (node,)
        return ref_tail in alts
    okt = all(has_tail(c) for c in (rme[0], rme[1], dm[0], dm[1]))
    ctx.ob(rule, f'{WP}:escape/lone-backslash-alternative', okt, site, 'all four escape regexes have the alternative `(?<!\\)(?:\\\\)*\\(?!\\)` (a backslash that escapes nothing)', str(okt),
           witness=r"escape('a\\') must double the trailing lone backslash, and only that one")
    g = [n for n in walk_no_nested(es.node) if isinstance(n, ast.If) and 'pathname' in norm_src(n.test)]
    okg = bool(g) and equivalent_tests(g[0].test, "pathname and (unix is None and util.platform() == 'windows' or unix is False)")
    ctx.ob(rule, f'{WP}:escape/drive-guard', okg, repo.loc(WP, es.node), "pathname and ((unix is None and host is windows) or unix is False)", norm_src(g[0].test) if g else 'none',
           witness="fnmatch.escape('c:{a}') must escape the braces: names have no drive")


def rule_magic_tables(ctx: Ctx, rule: str) -> None:
    ctx.text(rule, '_get_magic_symbols adds MAGIC_BRACE iff BRACE, MAGIC_SPLIT iff SPLIT, MAGIC_TILDE iff GLOBTILDE, MAGIC_EXTMATCH iff '
                   'EXTMATCH, `-` iff NEGATE∧MINUSNEGATE, `!` iff NEGATE∧¬MINUSNEGATE (decision table); MAGIC_DEF contains the '
                   'unconditional dispatch characters of root other than `.` and `/`; the drive set is [¬unix]`\\` ∪ braces ∪ pipe')
    repo = ctx.repo
    fi = repo.func(WP, '_get_magic_symbols')
    ev = SymEval(repo)
    paths = ev.tabulate(fi, {'pattern': '', 'unix': Opaque('unix'), 'flags': BV('flags')})
    C = {k: frozenset(repo.const(WP, k)[0]) for k in ('MAGIC_DEF', 'MAGIC_BRACE', 'MAGIC_SPLIT', 'MAGIC_TILDE', 'MAGIC_EXTMATCH', 'MAGIC_NEGATE', 'MAGIC_MINUS_NEGATE')}

    def oracle(g: Any) -> Any:
        m = set(C['MAGIC_DEF'])
        d = set() if g('unix') else {'\\'}
        if g('flags&BRACE'):
            m |= C['MAGIC_BRACE']
            d |= C['MAGIC_BRACE']
        if g('flags&SPLIT'):
            m |= C['MAGIC_SPLIT']
            d |= C['MAGIC_SPLIT']
        if g('flags&GLOBTILDE'):
            m |= C['MAGIC_TILDE']
        if g('flags&EXTMATCH'):
            m |= C['MAGIC_EXTMATCH']
        if g('flags&NEGATE'):
            m |= C['MAGIC_MINUS_NEGATE'] if g('flags&MINUSNEGATE') else C['MAGIC_NEGATE']
        return (frozenset(m), frozenset(d))

    def proj(p: Any) -> Any:
        from ..symeval import concrete
        r = concrete(p.ret)
        if isinstance(r, tuple) and len(r) == 2 and all(isinstance(x, frozenset) for x in r):
            return r
        return repr(r)
    ok, why, rows = compare_table(paths, ev.bitnames, oracle, proj, {'unix'}, where='_get_magic_symbols')
    ctx.count('decision_table_rows', rows)
    ctx.ob(rule, f'{WP}:_get_magic_symbols/table', ok, repo.loc(WP, fi.node), 'DEF ∪ [BRACE]{} ∪ [SPLIT]| ∪ [GLOBTILDE]~ ∪ [EXTMATCH]() ∪ [NEGATE∧M]- ∪ [NEGATE∧¬M]!',
           f'{rows} rows agree' if ok else why[:200], witness="is_magic('@(a)', flags=EXTMATCH) must be True; is_magic('a|b') without SPLIT False")
    want = {'MAGIC_DEF': set('*?[]\\'), 'MAGIC_BRACE': set('{}'), 'MAGIC_SPLIT': {'|'}, 'MAGIC_TILDE': {'~'}, 'MAGIC_EXTMATCH': set('()'),
            'MAGIC_NEGATE': {'!'}, 'MAGIC_MINUS_NEGATE': {'-'}}
    for k, v in want.items():
        ctx.ob(rule, f'{WP}:{k}', set(C[k]) == v, repo.loc(WP, repo.const_line(WP, k)), str(sorted(v)), str(sorted(C[k])),
               witness=f'is_magic must report exactly the characters that are special under the flag of {k}')
    D = dispatch_chars(ctx)['WcParse.root']
    uncond = D - {'.', '/'}
    ctx.ob(rule, f'{WP}:MAGIC_DEF/covers-root-dispatch', uncond <= set(C['MAGIC_DEF']) | set('*?[\\'), repo.loc(WP, repo.const_line(WP, 'MAGIC_DEF')),
           f'unconditional dispatch characters of root {sorted(uncond)} ⊆ MAGIC_DEF', str(sorted(C['MAGIC_DEF'])),
           witness="is_magic('a?') must be True")
    # feature tests on the consumer side use the same flags
    for qn, attr, flag in (('WcParse.__init__', 'extend', 'EXTMATCH'), ('WcSplit.__init__', 'extend', 'EXTMATCH')):
        f2 = repo.func(WP, qn)
        d = [s for s in walk_no_nested(f2.node) if isinstance(s, ast.Assign) and norm_src(s.targets[0]) == f'self.{attr}']
        ctx.ob(rule, f'{WP}:{qn}/self.{attr}', len(d) == 1 and norm_src(d[0].value) == f'bool(flags & {flag})', repo.loc(WP, f2.node), f'bool(flags & {flag})',
               norm_src(d[0].value) if d else 'none')
    im = repo.func(WP, 'is_magic')
    c = [x for x in walk_no_nested(im.node) if isinstance(x, ast.Call) and norm_src(x.func) == '_get_magic_symbols']
    ctx.ob(rule, f'{WP}:is_magic/uses-table', len(c) == 1 and [norm_src(a) for a in c[0].args] == ['pattern', 'unix', 'flags'], repo.loc(WP, im.node),
           '_get_magic_symbols(pattern, unix, flags)', norm_src(c[0]) if c else 'none')


def rule_escape_entry_points(ctx: Ctx, rule: str) -> None:
    ctx.text(rule, 'fnmatch.escape calls _wcparse.escape(pattern, pathname=False); glob.escape forwards unix; is_magic in both modules '
                   'passes flags through that module\'s _flag_transform')
    repo = ctx.repo
    fe = repo.func('fnmatch', 'escape')
    r = [s for s in fe.node.body if isinstance(s, ast.Return)]
    ctx.ob(rule, 'fnmatch:escape', bool(r) and norm_src(r[0].value) == '_wcparse.escape(pattern, pathname=False)', repo.loc('fnmatch', fe.node),
           '_wcparse.escape(pattern, pathname=False)', norm_src(r[0].value) if r else 'none', witness="fnmatch.escape('c:{x}') on Windows")
    ge = repo.func('glob', 'escape')
    r = [s for s in ge.node.body if isinstance(s, ast.Return)]
    ctx.ob(rule, 'glob:escape', bool(r) and norm_src(r[0].value) == '_wcparse.escape(pattern, unix=unix)', repo.loc('glob', ge.node),
           '_wcparse.escape(pattern, unix=unix)', norm_src(r[0].value) if r else 'none', witness="glob.escape('//?/c:/a[b]', unix=False)")
    for mod in ('fnmatch', 'glob'):
        im = repo.func(mod, 'is_magic')
        src = [norm_src(s) for s in im.node.body if not (isinstance(s, ast.Expr) and isinstance(s.value, ast.Constant))]
        ok = src == ['flags = _flag_transform(flags)', 'return _wcparse.is_magic(pattern, flags)'] or \
            src == ['return _wcparse.is_magic(pattern, _flag_transform(flags))']
        ctx.ob(rule, f'{mod}:is_magic', ok, repo.loc(mod, im.node), '_wcparse.is_magic(pattern, _flag_transform(flags))', '; '.join(src),
               witness="glob.is_magic('c:/a', flags=FORCEWIN|FORCEUNIX) must cancel the platform bits first")
