"""C10: every string is an acceptable pattern -- exception-escape analysis, definite assignment, recovery pairing."""
from __future__ import annotations

import ast
from typing import Any

from .. import rx
from ..callgraph import callgraph, local_names
from ..cfg import cfg_of
from ..excflow import excflow
from ..model import AnalysisError, FuncInfo, norm_src, walk_no_nested
from ..pathq import fq
from ..report import Ctx
from ..symeval import BV, Obj, Opaque, SymEval, _tag
from ..tables import compare_table

WP = '_wcparse'

ENTRY_POINTS = [
    ('fnmatch', 'compile'), ('fnmatch', 'translate'), ('fnmatch', 'fnmatch'), ('fnmatch', 'filter'), ('fnmatch', 'escape'),
    ('fnmatch', 'is_magic'), ('fnmatch', 'WcMatcher.match'), ('fnmatch', 'WcMatcher.filter'),
    ('glob', 'Glob.__init__'), ('glob', 'Glob.glob'), ('glob', 'iglob'), ('glob', 'glob'), ('glob', 'compile'), ('glob', 'translate'),
    ('glob', 'globmatch'), ('glob', 'globfilter'), ('glob', 'escape'), ('glob', 'is_magic'), ('glob', 'WcMatcher.match'),
    ('glob', 'WcMatcher.filter'),
    ('pathlib', 'PurePath.match'), ('pathlib', 'PurePath.globmatch'), ('pathlib', 'PurePath.full_match'), ('pathlib', 'Path.glob'),
    ('pathlib', 'Path.rglob'),
    ('wcmatch', 'WcMatch.__init__'), ('wcmatch', 'WcMatch.match'), ('wcmatch', 'WcMatch.imatch'),
    ('_wcmatch', 'WcRegexp.match'), ('_wcmatch', 'WcRegexp.filter'),
    ('_wcparse', 'compile'), ('_wcparse', 'translate'), ('_wcparse', 'split'), ('_wcparse', 'expand'),
]
INTERNAL = {'StopIteration', 'PathNameException', 'DotException'}
CONTROL_SNIPPET = '''
def scan(i):
    c = next(i)
    while c != ']':
        c = next(i)
def parse(text):
    i = iter(text)
    for c in i:
        if c == '[':
            scan(i)
'''


def rule_internal_exceptions(ctx: Ctx, rule: str) -> None:
    ctx.text(rule, 'exception-escape fixpoint over the call graph: escapes(entry) of every public entry point contains no '
                   'StopIteration, PathNameException, DotException, and no RuntimeError produced by a StopIteration leaving a '
                   'generator body')
    repo = ctx.repo
    # positive control: a scanner without a handler must be reported
    import tempfile, os, shutil
    d = tempfile.mkdtemp(prefix='wcverif-ctl-')
    try:
        os.makedirs(os.path.join(d, 'wcmatch'))
        for m in repo.modules.values():
            shutil.copy(m.path, os.path.join(d, 'wcmatch', os.path.basename(m.path)))
        with open(os.path.join(d, 'wcmatch', 'util.py'), 'a', encoding='utf-8') as fh:
            fh.write('\n' + CONTROL_SNIPPET)
        from ..model import Repo
        from ..excflow import ExcFlow
        ctl = ExcFlow(Repo(d))
        if not any(e.exc == 'StopIteration' for e in ctl.escapes.get('util:parse', ())):
            raise AnalysisError('C10-R1 positive control (missing handler) not reported: the escape analysis is broken')
    finally:
        shutil.rmtree(d, ignore_errors=True)
    ef = excflow(repo)
    ctx.count('excflow_iterations', ef.iterations)
    ctx.count('excflow_functions', len(ef.funcs))
    ctx.count('raise_sites', ef.raise_sites // max(ef.iterations, 1))
    ctx.count('next_sites', ef.next_sites // max(ef.iterations, 1))
    cg = callgraph(repo)
    ctx.count('calls_resolved', cg.resolved)
    ctx.count('calls_total', cg.total)
    n = 0
    for mod, qn in ENTRY_POINTS:
        if not repo.has_func(mod, qn):
            raise AnalysisError(f'entry point {mod}:{qn} vanished')
        fi = repo.func(mod, qn)
        n += 1
        bad = [e for e in ef.escapes[fi.fq] if e.exc in INTERNAL or (e.exc == 'RuntimeError' and 'StopIteration' in e.origin)]
        ctx.ob(rule, f'{mod}:{qn}/no-internal-exception-escapes', not bad, repo.loc(mod, fi.node),
               'no StopIteration / PathNameException / DotException / generator RuntimeError can escape',
               'none' if not bad else '; '.join(sorted(b.short() for b in bad))[:400],
               witness="an unterminated `[`, an unclosed `@(`, a trailing backslash must degrade to literals, not raise")
    ctx.floor(rule, 'entry points', n, 30)
    # the parser internals must also be closed at the WcParse.parse / WcSplit.split / _GlobSplit.split boundary
    for mod, qn in ((WP, 'WcParse.parse'), (WP, 'WcSplit.split'), ('glob', '_GlobSplit.split'), (WP, 'WcParse.root')):
        fi = repo.func(mod, qn)
        bad = [e for e in ef.escapes[fi.fq] if e.exc in INTERNAL or (e.exc == 'RuntimeError' and 'StopIteration' in e.origin)]
        ctx.ob(rule, f'{mod}:{qn}/closed', not bad, repo.loc(mod, fi.node), 'control-flow exceptions are caught inside the parser',
               'none' if not bad else '; '.join(sorted(b.short() for b in bad))[:400],
               witness="fnmatch.translate('[a') / fnmatch('x', '\\\\') must not raise")


DOCUMENTED = {'PatternLimitException', 'SyntaxError', 'TypeError', 'NotImplementedError'}
VALUE_ERROR_SITES = {('_wcparse', 'WcParse.root'), ('glob', '_GlobSplit.split'), ('pathlib', 'PurePath._translate_flags')}
SUPPRESSED = {
    ('ValueError', 'posix:get_posix_property'): 'discharged by C01-R4: RE_POSIX names = table keys',
    ('ValueError', 'util:StringIter.rewind'): 'index bookkeeping invariant (`# pragma: no cover`); assumed',
    ('AttributeError', 'util:Immutable.__setattr__'): 'intended: immutability',
    ('KeyError', 'util:norm_pattern.norm'): 'documented lookup error of \\N{...}',
}


def rule_documented_errors(ctx: Ctx, rule: str) -> None:
    ctx.text(rule, 'documented errors only: every exception that can escape an entry point is PatternLimitException, SyntaxError, '
                   'TypeError, NotImplementedError, the lookup error of \\N{…}, or a ValueError from the two _NOABSOLUTE sites / the '
                   'pathlib platform sites; named suppressions are each discharged by another rule; decoding `chr(int(hex))` must '
                   'not be able to exceed the code-point range')
    repo = ctx.repo
    ef = excflow(repo)
    seen_sup: set = set()
    for mod, qn in ENTRY_POINTS:
        fi = repo.func(mod, qn)
        bad = []
        for e in ef.escapes[fi.fq]:
            if e.exc in INTERNAL or (e.exc == 'RuntimeError' and 'StopIteration' in e.origin):
                continue  # reported by R1
            origin_fn = ':'.join(e.origin.split(':')[:2])
            if e.exc in DOCUMENTED:
                continue
            if e.exc == 'ValueError' and tuple(origin_fn.split(':')) in VALUE_ERROR_SITES:
                continue
            if (e.exc, origin_fn) in SUPPRESSED:
                seen_sup.add((e.exc, origin_fn))
                continue
            bad.append(e)
        ctx.ob(rule, f'{mod}:{qn}/documented-errors-only', not bad, repo.loc(mod, fi.node), 'only documented exception classes escape',
               'ok' if not bad else '; '.join(sorted(b.short() for b in bad))[:400],
               witness='a new `raise KeyError` / IndexError path reachable from a public call')
    # raise-site census: every explicit raise in the package names a known class
    n = 0
    for m in repo.modules.values():
        for fi in m.functions.values():
            for r in walk_no_nested(fi.node):
                if isinstance(r, ast.Raise) and r.exc is not None:
                    n += 1
    ctx.floor(rule, 'explicit raise statements', n, 40)
    # the ValueError sites are exactly the documented ones
    for mod, qn in sorted(VALUE_ERROR_SITES):
        fi = repo.func(mod, qn)
        vs = [r for r in walk_no_nested(fi.node) if isinstance(r, ast.Raise) and r.exc is not None and norm_src(r.exc).startswith('ValueError')]
        ctx.ob(rule, f'{mod}:{qn}/ValueError-sites', len(vs) == (2 if qn.endswith('_translate_flags') else 1), repo.loc(mod, fi.node),
               'the documented ValueError raise(s)', f'{len(vs)}')
    # chr range (F13)
    from .c20 import decoder_roles
    roles = decoder_roles(ctx, 'RE_NORM')
    nm = repo.func('util', 'norm_pattern.norm')
    q = fq(nm)
    from .common import site_events
    from ..symeval import _tag as _vt, focus as _focus

    def decode_sites(fname: str) -> list:
        out = []
        for c0, hits in site_events(repo, 'util', 'norm_pattern.norm', lambda c: norm_src(c.func) == fname):
            tags = set()
            for p_, e_ in hits:
                _focus(p_)
                if e_[2]:
                    tags.add(_vt(e_[2][0]))
            if len(tags) == 1 and 'int(' in next(iter(tags)):
                out.append((c0, next(iter(tags))))
            elif tags:
                out.append((c0, ' | '.join(sorted(tags))))
        return out
    chrs = decode_sites('chr')
    ctx.floor(rule, 'chr(int(...)) decodes', len(chrs), 2)
    for c, src in chrs:
        if ', 16)' in src:
            widths = [rx.width(v)[1] for v in roles.get('numeric_forms', {}).values()]
            mx = max((16 ** w - 1) for w in widths if w) if widths else 0
            guarded = any('1114111' in t or '0x10ffff' in t.lower() or 'sys.maxunicode' in t for t, _p in q.guards(c))
            need = [k for k, lim in (('ValueError', 0x10FFFF), ('OverflowError', 0x7FFFFFFF)) if mx > lim]
            caught: set = set()
            for t in walk_no_nested(nm.node):
                if isinstance(t, ast.Try) and any(x is c for s in t.body for x in ast.walk(s)):
                    for h in t.handlers:
                        ht = norm_src(h.type) if h.type is not None else 'BaseException'
                        for k in ('ValueError', 'OverflowError'):
                            if k in ht or 'Exception' in ht.replace('PathNameException', '').replace('DotException', ''):
                                caught.add(k)
            in_try = all(k in caught for k in need)
            ok = mx <= 0x10FFFF or guarded or in_try
            ctx.ob(rule, 'util:norm_pattern.norm/chr-hex-range', ok, repo.loc('util', c), 'hex escapes cannot exceed U+10FFFF (digit count, guard, or handler)',
                   f'up to {max(widths or [0])} hex digits: max {mx:#x}; chr() can raise {need}, handlers cover {sorted(caught)}', note='F13',
                   witness=r"fnmatch('a', r'\U00110000', flags=RAWCHARS) raises ValueError; r'\UFFFFFFFF' raises OverflowError")
        else:
            ol = roles.get('octal_lang')
            w = rx.width(ol)[1] if ol is not None else 0
            mx = 8 ** (w or 0) - 1
            ctx.ob(rule, 'util:norm_pattern.norm/chr-octal-range', mx <= 0x10FFFF, repo.loc('util', c), 'octal escapes stay in range', f'max {mx:#x}')
    bts = decode_sites('bytes')
    for c, src in bts:
        if ', 8)' in src:
            ok = '&255' in src.replace(' ', '') or '%256' in src.replace(' ', '')
            ctx.ob(rule, 'util:norm_pattern.norm/bytes-octal-range', ok, repo.loc('util', c), 'octal byte value masked to 0..255 (\\777 would raise ValueError)', src,
                   witness=r"fnmatch(b'x', br'\777', flags=RAWCHARS) must not raise")
        else:
            broles = decoder_roles(ctx, 'RE_BNORM')
            widths = [rx.width(v)[1] for v in broles.get('numeric_forms', {}).values()]
            ctx.ob(rule, 'util:norm_pattern.norm/bytes-hex-range', max(widths or [9]) <= 2, repo.loc('util', c), 'at most 2 hex digits for bytes', str(widths))


# ------------------------------------------------------------------------------------------------ definite assignment
def _stores(n: ast.AST) -> set[str]:
    out = set()
    for x in [n, *walk_no_nested(n)]:
        if isinstance(x, ast.Name) and isinstance(x.ctx, ast.Store):
            out.add(x.id)
        if isinstance(x, (ast.ListComp, ast.SetComp, ast.DictComp, ast.GeneratorExp)):
            pass
    return out


def _comp_bound(n: ast.AST) -> set[str]:
    out = set()
    for x in [n, *walk_no_nested(n)]:
        if isinstance(x, (ast.ListComp, ast.SetComp, ast.DictComp, ast.GeneratorExp)):
            for g in x.generators:
                for t in ast.walk(g.target):
                    if isinstance(t, ast.Name):
                        out.add(t.id)
    return out


def possibly_unbound(fi: FuncInfo) -> list[tuple[str, ast.AST]]:
    """(variable, use node) pairs where a local may be read before any assignment on some CFG path."""
    if not isinstance(getattr(fi.node, 'body', None), list):
        return []
    g = cfg_of(fi.node)
    params = set(fi.params())
    locs = local_names(fi) - params
    declared_global = {nm for n in walk_no_nested(fi.node) if isinstance(n, (ast.Global, ast.Nonlocal)) for nm in n.names}
    locs -= declared_global
    if not locs:
        return []
    nodes = [n for n in g.nodes if n.id in g.reach]
    defs: dict[int, dict[str, set[str]]] = {}
    uses: dict[int, list[tuple[str, ast.AST]]] = {}
    for n in nodes:
        d: dict[str, set[str]] = {'*': set()}
        u: list[tuple[str, ast.AST]] = []
        a = n.ast
        if n.kind == 'for':
            d['T'] = {x.id for x in ast.walk(a.target) if isinstance(x, ast.Name)}
        elif n.kind == 'except':
            if a.name:
                d['*'] = {a.name}
        elif n.kind == 'with':
            for it in a.items:
                if it.optional_vars is not None:
                    d['*'] |= {x.id for x in ast.walk(it.optional_vars) if isinstance(x, ast.Name)}
                for x in ast.walk(it.context_expr):
                    if isinstance(x, ast.Name) and isinstance(x.ctx, ast.Load) and x.id in locs:
                        u.append((x.id, x))
        elif n.kind in ('stmt', 'cond', 'return', 'raise') and a is not None and not isinstance(a, ast.Try):
            if isinstance(a, (ast.FunctionDef, ast.AsyncFunctionDef, ast.ClassDef)):
                d['*'] = {a.name}
            else:
                comp = _comp_bound(a)
                d['*'] = _stores(a) - comp
                for x in [a, *walk_no_nested(a)]:
                    if isinstance(x, ast.Name) and isinstance(x.ctx, ast.Load) and x.id in locs and x.id not in comp:
                        u.append((x.id, x))
                if isinstance(a, ast.AugAssign) and isinstance(a.target, ast.Name) and a.target.id in locs:
                    u.append((a.target.id, a.target))
                if isinstance(a, (ast.Import, ast.ImportFrom)):
                    d['*'] |= {(al.asname or al.name).split('.')[0] for al in a.names}
        defs[n.id] = d
        uses[n.id] = u
    allv = set(locs)
    IN = {n.id: set(allv) for n in nodes}
    IN[g.entry.id] = set()
    changed = True
    while changed:
        changed = False
        for n in nodes:
            if n.id == g.entry.id:
                continue
            acc = None
            for lab, p in g.pred[n.id]:
                if p not in g.reach:
                    continue
                if lab == 'exc':
                    out = set(IN[p])
                else:
                    out = IN[p] | defs[p]['*'] | defs[p].get(lab, set())
                acc = out if acc is None else (acc & out)
            acc = acc if acc is not None else set()
            if acc != IN[n.id]:
                IN[n.id] = acc
                changed = True
    out = []
    for n in nodes:
        for v, node in uses[n.id]:
            if v not in IN[n.id]:
                out.append((v, node))
    return out


def rule_definite_assignment(ctx: Ctx, rule: str) -> None:
    ctx.text(rule, 'definite assignment: no local is read on a CFG path on which it is unassigned (UnboundLocalError is not a '
                   'documented error); the one report, `capture` in WcParse._handle_star, is discharged by the checked side '
                   'condition globstar ⇒ pathname and "MATCHBASE/_EXTMATCHBASE reach WcParse only together with PATHNAME"')
    repo = ctx.repo
    nfun = 0
    reports = []
    for m in repo.modules.values():
        if m.name == '__meta__':
            continue
        for fi in m.functions.values():
            nfun += 1
            for v, node in possibly_unbound(fi):
                reports.append((m.name, fi, v, node))
    ctx.count('functions_checked_for_definite_assignment', nfun)
    ctx.floor(rule, 'functions analysed', nfun, 140)
    by_fn: dict[tuple[str, str, str], list] = {}
    for mod, fi, v, node in reports:
        by_fn.setdefault((mod, fi.qualname, v), []).append(node)
    for (mod, qn, v), nodes in sorted(by_fn.items()):
        if (mod, qn, v) == (WP, 'WcParse._handle_star', 'capture'):
            ok, why = _discharge_capture(ctx)
            ctx.ob(rule, f'{mod}:{qn}/{v}-possibly-unbound', ok, repo.loc(mod, nodes[0]),
                   'reads of `capture` happen only when self.globstar, assignments whenever self.pathname, and globstar ⇒ pathname', why,
                   witness="a flag route that sets MATCHBASE without PATHNAME makes `*` raise UnboundLocalError")
        else:
            ctx.ob(rule, f'{mod}:{qn}/{v}-possibly-unbound', False, repo.loc(mod, nodes[0]), f'`{v}` assigned on every path before this read',
                   f'{len(nodes)} read(s) reachable without an assignment', witness='UnboundLocalError on a specific malformed pattern')
    if not any(k == (WP, 'WcParse._handle_star', 'capture') for k in by_fn):
        ctx.ob(rule, f'{WP}:WcParse._handle_star/capture-possibly-unbound', True, repo.loc(WP, repo.func(WP, 'WcParse._handle_star').node),
               'definitely assigned', 'no path reads `capture` unassigned')
    ctx.ob(rule, 'package/definite-assignment', True, 'wcmatch/', 'no other possibly-unbound local', f'{nfun} functions, {len(by_fn)} report(s)')


def _discharge_capture(ctx: Ctx) -> tuple[bool, str]:
    repo = ctx.repo
    hs = repo.func(WP, 'WcParse._handle_star')
    q = fq(hs)
    reads = [n for n in walk_no_nested(hs.node) if isinstance(n, ast.Name) and n.id == 'capture' and isinstance(n.ctx, ast.Load)]
    writes = [s for s in walk_no_nested(hs.node) if isinstance(s, ast.Assign) and norm_src(s.targets[0]) == 'capture']
    if not all(q.guarded(r, 'self.globstar', 'T') for r in reads):
        return False, 'a read of `capture` is not under self.globstar'
    first = [s for s in writes if norm_src(s.value) == 'self.globstar_capture']
    if not first or not all(q.guarded(s, 'self.pathname', 'T') for s in first) or \
            any(t for t, p in q.guards(first[0]) if t != 'self.pathname'):
        return False, '`capture = self.globstar_capture` is not assigned on every pathname path'
    # globstar => pathname in __init__
    from .common import wcparse_init_paths
    from .c02 import bit_attr_table
    ev = SymEval(repo)
    ok, why, _rows = bit_attr_table(ev, wcparse_init_paths(repo), 'globstar', lambda g: g('flags&PATHNAME') and (g('flags&GLOBSTARLONG') or g('flags&GLOBSTAR')))
    if not ok:
        return False, 'WcParse.__init__: globstar is no longer PATHNAME ∧ (GLOBSTARLONG ∨ GLOBSTAR): ' + why
    # other writers of self.globstar
    others = []
    for fi in repo.cls(WP, 'WcParse').methods.values():
        if fi.name == '__init__':
            continue
        for s in walk_no_nested(fi.node):
            if isinstance(s, ast.Assign) and norm_src(s.targets[0]) == 'self.globstar':
                qq = fq(fi)
                if fi.name == '_parse' and (norm_src(s.value) == 'globstar' or
                                             any(('self.matchbase' in t or 'self.extmatchbase' in t) for t, p in qq.guards(s) if p == 'T') or
                                             qq.guarded(s, lambda t: 'matchbase' in t, 'T')):
                    continue
                others.append(f'{fi.qualname}: {norm_src(s)}')
    if others:
        return False, f'self.globstar written elsewhere: {others}'
    # MATCHBASE only with PATHNAME
    mb = repo.const(WP, 'MATCHBASE')
    xb = repo.const(WP, '_EXTMATCHBASE')
    if repo.const('fnmatch', 'FLAG_MASK') & (mb | xb):
        return False, 'fnmatch.FLAG_MASK lets MATCHBASE through without PATHNAME'
    from .common import api_table
    _ev, pf = api_table(repo, 'wcmatch', 'WcMatch._parse_flags')
    if not pf or not all(isinstance(p.attrs.get('flags'), BV) and p.attrs['flags'].must_clear(mb) for p in pf):
        return False, 'WcMatch._parse_flags no longer strips MATCHBASE from the user flags'
    return True, 'discharged: reads under globstar; assigned under pathname; globstar ⇒ pathname; MATCHBASE only with PATHNAME'


# ------------------------------------------------------------------------------------------------ recovery pairing
def rule_recovery_pairing(ctx: Ctx, rule: str) -> None:
    ctx.text(rule, 'recovery pairing: every `except StopIteration` arm that resumes parsing after an unterminated construct restores '
                   'the iterator with i.rewind(i.index - <index saved before the try>); WcParse.parse_extend also restores inv_ext')
    repo = ctx.repo
    n = 0
    for mod, qn in ((WP, 'WcParse.root'), (WP, 'WcParse.parse_extend'), (WP, 'WcSplit._split'), (WP, 'WcSplit.parse_extend'),
                    ('glob', '_GlobSplit.split'), ('glob', '_GlobSplit.parse_extend'), (WP, 'WcParse._handle_dot')):
        fi = repo.func(mod, qn)
        for t in walk_no_nested(fi.node):
            if not isinstance(t, ast.Try):
                continue
            for h in t.handlers:
                if h.type is None or norm_src(h.type) != 'StopIteration':
                    continue
                # a handler that only passes is a "nothing consumed" recovery (e.g. trailing backslash inside a list)
                body = [s for s in h.body if not isinstance(s, ast.Pass)]
                scans = [c for s in t.body for c in ast.walk(s) if isinstance(c, ast.Call) and
                         norm_src(c.func) in ('self._sequence', 'self._references') or
                         (isinstance(c, ast.Call) and norm_src(c.func) == 'next')]
                consumes_multi = any(isinstance(c, ast.Call) and norm_src(c.func) == 'self._sequence' for s in t.body for c in ast.walk(s)) or \
                    any(isinstance(x, ast.While) for s in t.body for x in ast.walk(s))
                rew = [c for s in h.body for c in ast.walk(s) if isinstance(c, ast.Call) and norm_src(c.func) == 'i.rewind']
                if not consumes_multi and not rew:
                    continue
                n += 1
                ok = False
                why = 'no i.rewind in the handler'
                if rew:
                    a = norm_src(rew[0].args[0]) if rew[0].args else ''
                    ok = a.startswith('i.index - ') and a.split(' - ')[1].isidentifier()
                    var = a.split(' - ')[1] if ok else ''
                    if ok:
                        saves = [s for s in walk_no_nested(fi.node) if isinstance(s, ast.Assign) and norm_src(s.targets[0]) == var and
                                 norm_src(s.value) == 'i.index' and s.lineno <= t.lineno + 1]
                        ok = bool(saves)
                        why = f'rewind to `{var}` saved before the try' if ok else f'`{var}` is not an index saved before the try'
                    else:
                        why = f'rewind amount `{a}`'
                ctx.ob(rule, f'{mod}:{qn}/recover@{n}', ok, repo.loc(mod, h), 'i.rewind(i.index - <saved index>)', why,
                       witness="fnmatch('[a', '[a') must be True: an unterminated `[` is re-read as a literal")
    ctx.floor(rule, 'recovering handlers', n, 9)
    # the look-ahead of _handle_dot only peeks: whatever ends it -- a character that settles the question, an escape that cannot be
    # read, an escaped separator -- the iterator is put back to where the look-ahead began (decision table, handlers explored)
    from ..symeval import focus as _fc2
    hd = repo.func(WP, 'WcParse._handle_dot')
    pr = [p_ for p_ in hd.params() if p_ != 'self']
    ev3 = SymEval(repo, inline=False, explore_handlers=True, loop_mode='once', max_paths=20000)
    rows3 = ev3.tabulate(hd, {pr[0]: Opaque('i'), pr[1]: Opaque('current')}, Obj((WP, 'WcParse'), {}))
    bad3 = []
    n3 = 0
    for p_ in rows3:
        _fc2(p_)
        exc = [k for k, e in enumerate(p_.events) if e[0] == 'except']
        if not exc:
            continue
        n3 += 1
        back = [e for e in p_.events[exc[-1]:] if e[0] == 'call' and e[1].endswith('.rewind') and e[2] and _tag(e[2][0]).startswith('(i.index-')]
        goes_on = any(e[0] == 'iterend' and e[2] == 'next' for e in p_.events[exc[-1]:])  # the look-ahead simply reads on
        if not back and not p_.raised and not goes_on:
            bad3.append(f'after `except {p_.events[exc[-1]][3]}` the look-ahead ends without putting the iterator back')
    ctx.ob(rule, f'{WP}:WcParse._handle_dot/look-ahead-restored', n3 >= 3 and not bad3, repo.loc(WP, hd.node),
           'every exceptional end of the look-ahead reaches i.rewind(i.index - <start>)', f'{n3} rows agree' if n3 >= 3 and not bad3 else (sorted(set(bad3))[0] if bad3 else f'{n3} rows'),
           witness="glob.escape('.\\\\a', unix=False) must still match `.\\a` under FORCEWIN|NODOTDIR: the look-ahead must not swallow the escaped separator")
    pe = repo.func(WP, 'WcParse.parse_extend')
    q = fq(pe)
    rs = [s for s in walk_no_nested(pe.node) if isinstance(s, ast.Assign) and norm_src(s) == 'self.inv_ext = temp_inv_ext']
    sv = [s for s in walk_no_nested(pe.node) if isinstance(s, ast.Assign) and norm_src(s) == 'temp_inv_ext = self.inv_ext']
    ok = len(rs) == 1 and len(sv) == 1 and q.in_handler(rs[0], {'StopIteration'})
    ctx.ob(rule, f'{WP}:WcParse.parse_extend/inv_ext-restored', ok, repo.loc(WP, pe.node), 'inv_ext saved at entry and restored when the list is abandoned', str(ok),
           witness="fnmatch.translate('!(a', EXTMATCH) must compile")
    for attr in ('in_list', 'inv_nest'):
        rs2 = [n2 for n2 in walk_no_nested(pe.node) if isinstance(n2, ast.If) and norm_src(n2.test) == f'not temp_{attr}' and
               any(norm_src(s) == f'self.{attr} = False' for s in n2.body)]
        sv2 = [s for s in walk_no_nested(pe.node) if isinstance(s, ast.Assign) and norm_src(s) == f'temp_{attr} = self.{attr}']
        ctx.ob(rule, f'{WP}:WcParse.parse_extend/{attr}-restored', len(rs2) == 1 and len(sv2) == 1, repo.loc(WP, pe.node),
               f'{attr} saved and reset to False when the outermost list ends', f'restore blocks={len(rs2)} saves={len(sv2)}',
               witness="fnmatch('a/b', '@(a)/b') -- after the group `/` is a top-level separator again")


def rule_range_safety(ctx: Ctx, rule: str) -> None:
    ctx.text(rule, 'range safety: both arms of WcParse._sequence that complete a range go through _sequence_range_check, which drops '
                   'the pair iff v2 < v1; when something was dropped an empty class becomes the impossible class and an empty negated '
                   'class the universal class, for the str or bytes universe')
    repo = ctx.repo
    sq = repo.func(WP, 'WcParse._sequence')
    q = fq(sq)
    calls = q.calls(lambda s: s == 'self._sequence_range_check')
    ctx.floor(rule, 'range check call sites', len(calls), 2)
    for i, c in enumerate(calls, 1):
        ok = q.guarded(c, 'end_range', 'T') and q.guarded(c, 'i.index - 1 >= end_range', 'T')
        ctx.ob(rule, f'{WP}:WcParse._sequence/range-check@{i}', ok, repo.loc(WP, c), 'under `end_range and i.index - 1 >= end_range`', str(sorted(q.guards(c)))[:120],
               witness="fnmatch.translate('[z-a]') must compile: a reversed range is dropped")
    # any append of a range end that bypasses the check?
    rc = repo.func(WP, 'WcParse._sequence_range_check')
    ev2 = SymEval(repo, inline=False, watch_calls=True)
    paths = ev2.tabulate(rc, {'result': Opaque('result'), 'last': Opaque('last')}, Obj((WP, 'WcParse')))
    import re as _re
    bad = []
    n_rows = 0
    for p in paths:
        atoms = [(a, v) for a, v in p.decisions.items() if a.count('ord(') == 2]
        if len(atoms) != 1:
            bad.append(f'{len(atoms)} comparisons of the two end points on a path')
            continue
        a, v = atoms[0]
        m = _re.fullmatch(r'(ord\(.*\)) (<=|>=|<|>) (ord\(.*\))', a)
        if not m:
            bad.append(f'comparison not understood: {a[:80]}')
            continue
        L, op, R = m.group(1), m.group(2), m.group(3)
        # which side is the new end point (`last`), which the start of the range already emitted (`result[-2]`)
        if 'last' in L and 'result[-2]' in R:
            f = {'<': lambda v1, v2: v2 < v1, '<=': lambda v1, v2: v2 <= v1, '>': lambda v1, v2: v2 > v1, '>=': lambda v1, v2: v2 >= v1}[op]
        elif 'result[-2]' in L and 'last' in R:
            f = {'<': lambda v1, v2: v1 < v2, '<=': lambda v1, v2: v1 <= v2, '>': lambda v1, v2: v1 > v2, '>=': lambda v1, v2: v1 >= v2}[op]
        else:
            bad.append(f'the comparison is not between the end point and the start of the range: {a[:80]}')
            continue
        n_rows += 1
        pops = sum(1 for (_n, name, _a, _k) in p.calls if name.replace("'", '') == 'result.pop')
        dels = [(_a) for (_n, name, _a, _k) in p.calls if name.replace("'", '') == 'result.__delitem__']
        removed2 = pops == 2 or (pops == 0 and len(dels) == 1 and _tag(dels[0][0]).replace(' ', '') in ('-2:', '-2:None'))
        apps = [(_a) for (_n, name, _a, _k) in p.calls if name.replace("'", '') == 'result.append']
        for v1, v2 in ((1, 2), (2, 1), (1, 1)):
            if f(v1, v2) != v:
                continue  # this row is not taken for these end points
            want_drop = v2 < v1
            if want_drop and not (removed2 and not apps and p.ret is True):
                bad.append(f'reversed range ({v2} < {v1}): pops={pops} dels={len(dels)} appends={len(apps)} returns {p.ret}')
            if not want_drop and not (pops == 0 and not dels and len(apps) == 1 and _tag(apps[0][0]) == 'last' and p.ret is False):
                bad.append(f'proper range ({v1} <= {v2}): pops={pops} dels={len(dels)} appends={len(apps)} returns {p.ret}')
    ok = n_rows >= 2 and not bad
    ctx.ob(rule, f'{WP}:WcParse._sequence_range_check/table', ok, repo.loc(WP, rc.node), 'v2 < v1: the start and the `-` are removed, return True; else append(last), return False',
           f'{n_rows} rows agree' if ok else (sorted(set(bad))[0] if bad else f'{n_rows} rows'), witness="fnmatch('b', '[a-c]') True; '[c-a]' matches nothing and compiles; `<=` would drop the legal one-character range [a-a]")
    from . import seqrules
    seqrules.rule_sequence_epilogue(ctx, rule, which={'empty-class-replacements'})
    seqrules.rule_scan_loops(ctx, rule, which={'range-end-cleared-by-posix', 'range-end-cleared-by-check'})
    ar, ur = repo.const(WP, 'ASCII_RANGE'), repo.const(WP, 'UNICODE_RANGE')
    pa = rx.parse('[' + ar + ']')
    pu = rx.parse('[' + ur + ']')
    ctx.ob(rule, f'{WP}:ASCII_RANGE', pa.node == ('lit', ((0, 255),)), repo.loc(WP, repo.const_line(WP, 'ASCII_RANGE')), '0..255', rx.show(pa.node))
    ctx.ob(rule, f'{WP}:UNICODE_RANGE', pu.node == ('lit', ((0, rx.MAXCP),)), repo.loc(WP, repo.const_line(WP, 'UNICODE_RANGE')), '0..0x10FFFF', rx.show(pu.node))
