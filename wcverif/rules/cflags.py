"""C16 (pathlib views) and C17 (case / platform flags)."""
from __future__ import annotations

import ast
from typing import Any

from .. import rx
from ..boolform import equivalent_tests
from ..model import AnalysisError, norm_src, walk_no_nested
from ..pathq import fq
from ..report import Ctx
from ..symeval import BV, Obj, Opaque, SymEval, Tok, ALL
from ..tables import compare_table, pretty_assign, oracle_values
from .common import api_table, bind_call, decided_bits, is_result_of, passes_through, wcparse_variants

WP = '_wcparse'


def _kwargs(c: ast.Call) -> dict[str, str]:
    return {k.arg: norm_src(k.value) for k in c.keywords if k.arg}


# ================================================================================================ C16
# calls that are the vocabulary of the pathlib rules stay calls; helpers somebody extracts inside pathlib.py are followed
PATHLIB_VOCAB = {'glob:globmatch', 'glob:iglob', 'glob:glob', 'glob:globfilter', 'glob:translate', 'glob:compile', 'glob:escape', 'glob:is_magic',
                 'pathlib:PurePath._translate_path', 'pathlib:PurePath._translate_flags', 'pathlib:PurePath.globmatch', 'pathlib:PurePath.match',
                 'pathlib:PurePath.full_match', 'pathlib:Path.glob', 'pathlib:Path.rglob', 'pathlib:Path._translate_flags', 'pathlib:Path._translate_path'}


def rule_pathlib_forwarding(ctx: Ctx, rule: str) -> None:
    ctx.text(rule, 'composition and forwarding of the pathlib methods, read off their decision tables with call events (argument '
                   '*values*, so locals, keyword/positional spelling and statement layout are free): match = globmatch(flags | '
                   '_EXTMATCHBASE); rglob = glob(flags | _EXTMATCHBASE); globmatch and full_match are the same glob.globmatch call '
                   'on _translate_path() with _translate_flags(flags); Path.glob does nothing unless is_dir(), else calls '
                   'glob.iglob(root_dir=str(self)) with _translate_flags(flags | _NOABSOLUTE) | _PATHLIB (| SCANDOTDIR iff '
                   'requested) and yields self.joinpath(<each result>); patterns, limit and exclude are forwarded everywhere')
    repo = ctx.repo
    n = 0
    EMB = repo.const(WP, '_EXTMATCHBASE')
    PL, SD, NA = repo.const('glob', '_PATHLIB'), repo.const('glob', 'SCANDOTDIR'), repo.const(WP, '_NOABSOLUTE')

    def fwd_ok(b: dict, p: Any, flags_ok: Any) -> list[str]:
        bad = []
        for k in ('patterns', 'limit', 'exclude'):
            if b.get(k) != Opaque(k):
                bad.append(f'{k}={b.get(k)!r}')
        if not flags_ok(b.get('flags'), p):
            bad.append(f'flags={b.get("flags")!r}')
        return bad

    for qn, cls, callee, what in (('PurePath.match', 'PurePath', 'pathlib:PurePath.globmatch', 'self.globmatch'),
                                  ('Path.rglob', 'PosixPath', 'pathlib:Path.glob', 'self.glob')):
        fi = repo.func('pathlib', qn)
        ev, paths = api_table(repo, 'pathlib', qn, cls, inline=True, no_inline=PATHLIB_VOCAB)
        bad = []
        for p in paths:
            cs = p.calls_to(callee)
            if len(cs) != 1:
                bad.append(f'{len(cs)} calls of {what}')
                continue
            b = bind_call(repo, callee, cs[0][1], cs[0][2])
            bad += fwd_ok(b, p, lambda v, p_: passes_through(v, 'flags', EMB, decided_bits(p_, 'flags')))
            if qn.endswith('match'):
                if not is_result_of(p.ret, callee):
                    bad.append(f'returns {p.ret!r}')
            else:
                ys = p.of('yield')
                okf = len(ys) == 1 and ((isinstance(ys[0][1], tuple) and ys[0][1][0] == 'from' and is_result_of(ys[0][1][1], callee)) or
                                        (isinstance(ys[0][1], Opaque) and ys[0][1].tag.startswith(f'elem({callee}(')))
                if not okf:
                    bad.append(f'yields {[y[1] for y in ys]}')
        n += 1
        ctx.ob(rule, f'pathlib:{qn}/delegation', not bad and bool(paths), repo.loc('pathlib', fi.node),
               f'{what}(patterns, flags=flags | _EXTMATCHBASE, limit=limit, exclude=exclude), result handed back unchanged',
               'as expected' if not bad else '; '.join(bad[:3]),
               witness="PurePath('a/b/x.py').match('*.py') must be right-anchored; rglob('*.py') must recurse")
    sig = {}
    for qn in ('PurePath.globmatch', 'PurePath.full_match'):
        fi = repo.func('pathlib', qn)
        ev, paths = api_table(repo, 'pathlib', qn, 'PurePath', inline=True, no_inline=PATHLIB_VOCAB)
        bad = []
        for p in paths:
            cs = p.calls_to('glob:globmatch')
            if len(cs) != 1:
                bad.append(f'{len(cs)} calls of glob.globmatch')
                continue
            b = bind_call(repo, 'glob:globmatch', cs[0][1], cs[0][2])
            bad += fwd_ok(b, p, lambda v, p_: isinstance(v, Opaque) and v.tag == 'pathlib:PurePath._translate_flags(bv(flags,val=0x0,known=0x0))')
            if b.get('filename') != Opaque('pathlib:PurePath._translate_path()'):
                bad.append(f'filename={b.get("filename")!r}')
            if set(b) - {'filename', 'patterns', 'flags', 'limit', 'exclude'}:
                bad.append(f'extra arguments {sorted(set(b) - {"filename", "patterns", "flags", "limit", "exclude"})}')
            if not is_result_of(p.ret, 'glob:globmatch'):
                bad.append(f'returns {p.ret!r}')
        sig[qn] = sorted((str(sorted(p.decisions.items())), repr(p.ret)) for p in paths)
        n += 1
        ctx.ob(rule, f'pathlib:{qn}/delegation', not bad and bool(paths), repo.loc('pathlib', fi.node),
               'glob.globmatch(self._translate_path(), patterns, flags=self._translate_flags(flags), limit=limit, exclude=exclude)',
               'as expected' if not bad else '; '.join(bad[:3]),
               witness="PurePosixPath('a/b').globmatch('a/*') must equal glob.globmatch('a/b', 'a/*', flags=FORCEUNIX)")
    ctx.ob(rule, 'pathlib:PurePath.globmatch==full_match', sig['PurePath.globmatch'] == sig['PurePath.full_match'],
           repo.loc('pathlib', repo.func('pathlib', 'PurePath.full_match').node), 'identical decision tables and results',
           'identical' if sig['PurePath.globmatch'] == sig['PurePath.full_match'] else str(sig['PurePath.full_match'])[:100])
    # ---- Path.glob
    g = repo.func('pathlib', 'Path.glob')

    def tf_model(fr: Any, n_: Any, a: list, k: dict) -> Any:
        v = a[0] if a else k.get('flags')
        dec = 0
        for at in fr.ev.decisions:
            if at.startswith('bit:flags:'):
                dec |= int(at.rsplit(':', 1)[1], 16)
        if not passes_through(v, 'flags', NA, dec & ~NA):
            return Opaque('TF-of-something-else')
        return BV('tf', 0, 0)
    ev, paths = api_table(repo, 'pathlib', 'Path.glob', 'PosixPath', inline=True, no_inline=PATHLIB_VOCAB,
                          call_models={'pathlib:PurePath._translate_flags': tf_model, 'pathlib:Path._translate_flags': tf_model})
    bad_d, bad_y, bad_f = [], [], []
    for p in paths:
        isdir = p.decisions.get('self.is_dir()')
        cs = p.calls_to('glob:iglob')
        ys = p.of('yield')
        if isdir is not True:
            if cs or ys or isdir is None:
                bad_y.append(f'is_dir={isdir}: {len(cs)} iglob call(s), {len(ys)} yield(s)')
            continue
        if len(cs) != 1:
            bad_d.append(f'{len(cs)} iglob calls')
            continue
        b = bind_call(repo, 'glob:iglob', cs[0][1], cs[0][2])
        v = b.get('flags')
        sd = p.decisions.get(f'bit:flags:{SD:x}')
        bad_d += fwd_ok(b, p, lambda v_, p_: True)
        if b.get('root_dir') != Opaque('str(self)'):
            bad_d.append(f'root_dir={b.get("root_dir")!r}')
        if set(b) - {'patterns', 'flags', 'root_dir', 'limit', 'exclude'}:
            bad_d.append('extra arguments')
        if not isinstance(v, BV) or v.origin != 'tf':
            bad_f.append(f'flags = {v!r}')
        else:
            if not v.must_set(PL):
                bad_f.append('_PATHLIB not forced')
            if sd is True and not v.must_set(SD):
                bad_f.append('SCANDOTDIR requested but not re-added')
            if sd is not True and (v.known & SD) and (v.val & SD):
                bad_f.append('SCANDOTDIR forced although not requested')
            if v.known & ~(PL | SD):
                bad_f.append(f'other bits forced: {v.known & ~(PL | SD):#x}')
        res = 'glob:iglob('
        oky = len(ys) == 1 and isinstance(ys[0][1], Opaque) and ys[0][1].tag.startswith(f'self.joinpath(elem({res}') and \
            ys[0][1].tag.endswith('))') and len(ys[0][3]) == 1 and ys[0][3][0].startswith(f'for:{res}')
        if not oky:
            bad_y.append(f'yields {[y[1] for y in ys]}'[:160])
    n += 1
    ctx.ob(rule, 'pathlib:Path.glob/delegation', not bad_d and len(paths) >= 2, repo.loc('pathlib', g.node),
           'glob.iglob(patterns, flags=…, root_dir=str(self), limit=limit, exclude=exclude)', 'as expected' if not bad_d else '; '.join(bad_d[:3]),
           witness="Path('d').glob('*') must list d, not the cwd")
    ctx.ob(rule, 'pathlib:Path.glob/yield', not bad_y, repo.loc('pathlib', g.node),
           'nothing unless self.is_dir(); else yield self.joinpath(x) for each result x', 'as expected' if not bad_y else '; '.join(bad_y[:2]))
    ctx.ob(rule, 'pathlib:Path.glob/flags', not bad_f and len(paths) >= 3, repo.loc('pathlib', g.node),
           '_translate_flags(flags | _NOABSOLUTE) | _PATHLIB, plus SCANDOTDIR iff the caller set it',
           f'{len(paths)} paths agree' if not bad_f else '; '.join(sorted(set(bad_f))),
           witness="Path('.').glob('/etc/*') must raise ValueError; Path('.').glob(['a','./a']) must not list `a` twice")
    ctx.floor(rule, 'pathlib delegations', n, 5)


def rule_translate_flags(ctx: Ctx, rule: str) -> None:
    ctx.text(rule, 'platform table of PurePath._translate_flags: user FORCEWIN/FORCEUNIX are removed (pathlib.FLAG_MASK contains '
                   'neither), PATHNAME is forced, the class decides the platform bit, REALPATH adds the host platform first so that '
                   'REALPATH on a pure path of the foreign platform raises ValueError')
    repo = ctx.repo
    FW, FU, PN, RP = (repo.const(WP, x) for x in ('FORCEWIN', 'FORCEUNIX', 'PATHNAME', 'REALPATH'))
    mask = repo.const('pathlib', 'FLAG_MASK')
    ctx.ob(rule, 'pathlib:FLAG_MASK/no-platform-bits', mask & (FW | FU) == 0, repo.loc('pathlib', repo.const_line('pathlib', 'FLAG_MASK')),
           'FLAG_MASK ∩ {FORCEWIN, FORCEUNIX} = ∅', hex(mask & (FW | FU)), witness="PurePosixPath('a').globmatch('A', flags=FORCEWIN) must stay case-sensitive")
    tf = repo.func('pathlib', 'PurePath._translate_flags')
    ev = SymEval(repo, inline=False)

    def am(node: ast.AST, fr: Any) -> Any:
        s = norm_src(node)
        return {"os.name == 'nt'": 'nt', 'isinstance(self, PureWindowsPath)': 'win', 'isinstance(self, PurePosixPath)': 'posix'}.get(s)
    ev.atom_map = am
    paths = ev.tabulate(tf, {'flags': BV('flags')}, Obj(('pathlib', 'PurePath')))
    bad = []
    rows = 0
    for p in paths:
        d = pretty_assign(p, ev.bitnames)
        if d.get('win') and d.get('posix'):
            continue
        rows += 1
        rp = d.get('flags&REALPATH')
        plat = None
        if rp:
            plat = 'win' if d.get('nt') else 'unix'
        expect_raise = (d.get('win') and plat == 'unix') or (d.get('posix') and not d.get('win') and plat == 'win')
        if expect_raise:
            if p.raised != 'ValueError':
                bad.append(f'{d}: expected ValueError, got {p.raised or p.ret}')
            continue
        if p.raised:
            bad.append(f'{d}: unexpected {p.raised}')
            continue
        v = p.ret
        if not isinstance(v, BV):
            bad.append(f'{d}: result {v!r}')
            continue
        if not v.must_set(PN):
            bad.append(f'{d}: PATHNAME not forced')
        want_w = bool(d.get('win')) or plat == 'win'
        want_u = (bool(d.get('posix')) and not d.get('win')) or plat == 'unix'
        if bool(v.must_set(FW)) != want_w or (not want_w and not v.must_clear(FW)):
            bad.append(f'{d}: FORCEWIN wrong')
        if bool(v.must_set(FU)) != want_u or (not want_u and not v.must_clear(FU)):
            bad.append(f'{d}: FORCEUNIX wrong')
        if (v.passthrough() & ~mask) & ((1 << 40) - 1):
            bad.append(f'{d}: bits outside pathlib.FLAG_MASK pass through')
        if (v.passthrough() | v.known) & mask & ~(PN | RP) != mask & ~(PN | RP) and False:
            bad.append('mask')
    ctx.count('decision_table_rows', rows)
    ctx.ob(rule, 'pathlib:PurePath._translate_flags/table', not bad and rows >= 6, repo.loc('pathlib', tf.node),
           'PATHNAME forced; platform bit = class (or host under REALPATH); ValueError iff REALPATH host platform contradicts the class',
           f'{rows} rows agree' if not bad else '; '.join(bad[:3]),
           witness="PureWindowsPath('a').globmatch('A') is True on Linux; PureWindowsPath('a').globmatch('a', flags=REALPATH) raises on Linux")


def rule_noabsolute(ctx: Ctx, rule: str) -> None:
    ctx.text(rule, '_NOABSOLUTE reaches both WcParse.root and _GlobSplit.split, each raising ValueError iff the flag is set and a '
                   'root / drive was recognised')
    repo = ctx.repo
    rt = repo.func(WP, 'WcParse.root')
    q = fq(rt)
    rs = [r for r in q.stmts(lambda x: isinstance(x, ast.Raise)) if r.exc is not None and norm_src(r.exc).startswith('ValueError')]
    ok = len(rs) == 1 and {('self.no_abs', 'T'), ('root_specified', 'T')} <= q.guards(rs[0]) and \
        not [t for t, pol in q.guards(rs[0]) if t not in ('self.no_abs', 'root_specified')]
    ctx.ob(rule, f'{WP}:WcParse.root/absolute-rejected', ok, repo.loc(WP, rs[0] if rs else rt.node), 'if self.no_abs and root_specified: raise ValueError',
           str(sorted(q.guards(rs[0]))) if rs else 'no ValueError raise', witness="PurePath('x').match('/x') must raise ValueError")
    sp = repo.func('glob', '_GlobSplit.split')
    q2 = fq(sp)
    rs2 = [r for r in q2.stmts(lambda x: isinstance(x, ast.Raise)) if r.exc is not None and norm_src(r.exc).startswith('ValueError')]
    tests = [n for n in walk_no_nested(sp.node) if isinstance(n, ast.If) and any(r in n.body for r in rs2)]
    ok2 = len(rs2) == 1 and bool(tests) and equivalent_tests(tests[0].test, 'self.no_abs and parts and parts[0].is_drive')
    ctx.ob(rule, 'glob:_GlobSplit.split/absolute-rejected', ok2, repo.loc('glob', rs2[0] if rs2 else sp.node),
           'if self.no_abs and parts and parts[0].is_drive: raise ValueError', norm_src(tests[0].test) if tests else 'none',
           witness="Path('.').glob('/etc/*') must raise ValueError")
    rs_def = [s for s in walk_no_nested(rt.node) if isinstance(s, ast.Assign) and norm_src(s.targets[0]) == 'root_specified']
    vals = sorted({norm_src(s.value) for s in rs_def})
    ctx.ob(rule, f'{WP}:WcParse.root/root_specified-definitions', 'False' in vals and 'True' in vals, repo.loc(WP, rt.node), 'False initially, True when a root is seen', str(vals))


def rule_translate_path(ctx: Ctx, rule: str) -> None:
    ctx.text(rule, '_translate_path (decision table): returns str(self) + the flavour separator iff the object is a concrete Path, '
                   'non-empty and is_dir(); str(self) alone otherwise')
    repo = ctx.repo
    tp = repo.func('pathlib', 'PurePath._translate_path')
    ev, paths = api_table(repo, 'pathlib', 'PurePath._translate_path', 'PurePath')

    def proj(p: Any) -> Any:
        if p.raised:
            return ('raise', p.raised)
        r = p.ret
        parts = r.parts if isinstance(r, Tok) else (('{' + r.tag + '}',) if isinstance(r, Opaque) else (r,))
        return tuple('sep' if x in ('{self.parser.sep}', '{self._flavour.sep}') else x for x in parts)

    def oracle(g: Any) -> Any:
        if g('isinstance(self, Path)') and g('str(self)') and g('self.is_dir()'):
            return ('{str(self)}', 'sep')
        return ('{str(self)}',)
    ok, why, rows = compare_table(paths, ev.bitnames, oracle, proj, {'isinstance(self, Path)', 'str(self)', 'self.is_dir()', 'util.PY313'},
                                  where='_translate_path')
    ctx.count('decision_table_rows', rows)
    ctx.ob(rule, 'pathlib:PurePath._translate_path/table', ok, repo.loc('pathlib', tp.node),
           'str(self) + sep iff isinstance(self, Path) and str(self) and self.is_dir(); else str(self)', f'{rows} rows agree' if ok else why[:250],
           witness="Path('d').globmatch('d/') is True for a directory; PurePath('d').globmatch('d/') is False")
    sel = [p for p in paths if p.decisions.get('util.PY313') is not None]
    oks = all(('{self.parser.sep}' in (p.ret.parts if isinstance(p.ret, Tok) else ())) == p.decisions['util.PY313'] for p in sel)
    ctx.ob(rule, 'pathlib:PurePath._translate_path/flavour', oks, repo.loc('pathlib', tp.node),
           'self.parser.sep on 3.13+, self._flavour.sep before (or one of them unconditionally)', str(oks))


# ================================================================================================ C17
def rule_case_table(ctx: Ctx, rule: str) -> None:
    ctx.text(rule, 'case table (get_case ∘ is_case_sensitive): CASE ⇒ sensitive; else IGNORECASE ⇒ insensitive; else FORCEWIN ⇒ '
                   'insensitive; else FORCEUNIX ⇒ sensitive; else the file system')
    repo = ctx.repo
    ev = SymEval(repo, call_models={'util:is_case_sensitive': lambda fr, n, a, k: Opaque('fs')})
    gc = repo.func(WP, 'get_case')
    paths = ev.tabulate(gc, {'flags': BV('flags')})

    def proj(p: Any) -> Any:
        r = p.ret
        return ('fs',) if isinstance(r, Opaque) and r.tag == 'fs' else r

    def oracle(g: Any) -> Any:
        if g('flags&CASE'):
            return True
        if g('flags&IGNORECASE'):
            return False
        if g('flags&FORCEWIN'):
            return False
        if g('flags&FORCEUNIX'):
            return True
        return ('fs',)
    ok, why, rows = compare_table(paths, ev.bitnames, oracle, proj, None, where='get_case')
    ctx.count('decision_table_rows', rows)
    ctx.ob(rule, f'{WP}:get_case/table', ok, repo.loc(WP, gc.node), 'CASE ∨ (¬IGNORECASE ∧ ¬FORCEWIN ∧ (FORCEUNIX ∨ fs_sensitive))', f'{rows} rows agree' if ok else why,
           witness="fnmatch('A', 'a', flags=CASE|IGNORECASE) is False; fnmatch('A', 'a', flags=FORCEWIN) is True")
    ics = repo.func('util', 'is_case_sensitive')
    r = [s for s in ics.node.body if isinstance(s, ast.Return)]
    ctx.ob(rule, 'util:is_case_sensitive/returns-constant', bool(r) and norm_src(r[0].value) == 'CASE_FS', repo.loc('util', ics.node), 'return CASE_FS',
           norm_src(r[0].value) if r else 'none')


def rule_platform_table(ctx: Ctx, rule: str) -> None:
    ctx.text(rule, 'platform table (is_unix_style): unix iff ¬FORCEWIN ∧ (host ≠ windows ∨ (FORCEUNIX ∧ ¬REALPATH))')
    repo = ctx.repo
    ev = SymEval(repo, call_models={'util:platform': lambda fr, n, a, k: Opaque('platform')})
    fn = repo.func(WP, 'is_unix_style')
    paths = ev.tabulate(fn, {'flags': BV('flags')})

    def oracle(g: Any) -> Any:
        return (not g('flags&FORCEWIN')) and ((not g("platform == 'windows'")) or (g('flags&FORCEUNIX') and not g('flags&REALPATH')))
    ok, why, rows = compare_table(paths, ev.bitnames, oracle, lambda p: bool(p.ret) if isinstance(p.ret, bool) else p.ret, None, where='is_unix_style')
    ctx.count('decision_table_rows', rows)
    ctx.ob(rule, f'{WP}:is_unix_style/table', ok, repo.loc(WP, fn.node), '¬FORCEWIN ∧ (host≠windows ∨ (FORCEUNIX ∧ ¬REALPATH))', f'{rows} rows agree' if ok else why,
           witness="fnmatch.translate('a/b', flags=FORCEWIN) uses [\\\\/]; FORCEWIN|FORCEUNIX falls back to the host")
    pf = repo.func('util', 'platform')
    r = [s for s in pf.node.body if isinstance(s, ast.Return)]
    ctx.ob(rule, 'util:platform/returns-constant', bool(r) and norm_src(r[0].value) == '_PLATFORM', repo.loc('util', pf.node), 'return _PLATFORM', norm_src(r[0].value) if r else 'none')


def rule_cancellation(ctx: Ctx, rule: str) -> None:
    ctx.text(rule, 'FORCEWIN ^ FORCEUNIX cancellation on every entry path: both _flag_transform functions clear the two bits when '
                   'both are set (bit-vector tables) and mask the result; every public function of fnmatch that accepts flags hands '
                   'them to _wcparse only through fnmatch._flag_transform; glob._flag_transform additionally resolves REALPATH to the host')
    repo = ctx.repo
    FW, FU, RP, PN = (repo.const(WP, x) for x in ('FORCEWIN', 'FORCEUNIX', 'REALPATH', 'PATHNAME'))
    for mod in ('fnmatch', 'glob'):
        ft = repo.func(mod, '_flag_transform')
        ev = SymEval(repo, call_models={'util:platform': lambda fr, n, a, k: Opaque('platform')})
        paths = ev.tabulate(ft, {'flags': BV('flags')})
        mask = repo.const(mod, 'FLAG_MASK')
        bad = []
        for p in paths:
            d = pretty_assign(p, ev.bitnames)
            v = p.ret
            if not isinstance(v, BV):
                bad.append(f'{d}: returns {v!r}')
                continue
            w_in, u_in = d.get('flags&FORCEWIN'), d.get('flags&FORCEUNIX')

            def bit_state(bit: int, inp: Any) -> Any:
                if v.must_set(bit):
                    return True
                if v.must_clear(bit):
                    return False
                return inp  # passthrough: equals the input bit (None = undecided)
            w_out, u_out = bit_state(FW, w_in), bit_state(FU, u_in)
            for wi in ((w_in,) if w_in is not None else (False, True)):
                for ui in ((u_in,) if u_in is not None else (False, True)):
                    wo = wi if (w_out is None) else w_out
                    uo = ui if (u_out is None) else u_out
                    if wi and ui:
                        ew, eu = False, False
                    else:
                        ew, eu = wi, ui
                    if mod == 'glob' and d.get('flags&REALPATH'):
                        if d.get("platform == 'windows'"):
                            ew, eu = True, False
                        else:
                            ew = False
                    if mod == 'glob' and d.get('flags&REALPATH') is None and (wo, uo) != (ew, eu):
                        continue
                    if (wo, uo) != (ew, eu):
                        bad.append(f'{d}: FORCEWIN={wi},FORCEUNIX={ui} -> ({wo},{uo}), expected ({ew},{eu})')
            extra = mask | (PN if mod == 'glob' else 0)
            if (v.passthrough() & ~extra) & ((1 << 40) - 1):
                bad.append(f'{d}: bits outside {mod}.FLAG_MASK pass through')
        ctx.count('decision_table_rows', len(paths))
        ctx.ob(rule, f'{mod}:_flag_transform/table', not bad, repo.loc(mod, ft.node),
               'both platform bits cleared when both set; result masked' + ('; REALPATH pins the host platform' if mod == 'glob' else ''),
               f'{len(paths)} paths agree' if not bad else '; '.join(bad[:3]),
               witness="fnmatch('a\\\\b', 'a/b', flags=FORCEWIN|FORCEUNIX) on Linux must behave as plain Linux")
    # fnmatch entry points
    n = 0
    fm = repo.mod('fnmatch')
    for fi in fm.functions.values():
        if fi.qualname.startswith('<lambda') or fi.qualname == '_flag_transform' or 'flags' not in fi.params():
            continue
        for c in walk_no_nested(fi.node):
            if isinstance(c, ast.Call) and norm_src(c.func).startswith('_wcparse.'):
                callee = norm_src(c.func).split('.', 1)[1]
                if not repo.has_func(WP, callee) or 'flags' not in repo.func(WP, callee).params():
                    continue
                params = repo.func(WP, callee).params()
                idx = params.index('flags')
                arg = next((k.value for k in c.keywords if k.arg == 'flags'), c.args[idx] if idx < len(c.args) else None)
                n += 1
                from .c02 import _transformed
                ok = arg is not None and _transformed(fi, arg, set())
                ctx.ob(rule, f'fnmatch:{fi.qualname}/{callee}(flags=…)', ok, repo.loc('fnmatch', c), 'flags through _flag_transform', norm_src(arg) if arg is not None else 'default',
                       witness="fnmatch.filter(names, p, flags=FORCEWIN|FORCEUNIX) must cancel like fnmatch.fnmatch")
    ctx.floor(rule, 'fnmatch flag hand-overs', n, 5)


def rule_case_emission(ctx: Ctx, rule: str) -> None:
    ctx.text(rule, 'emission of case-insensitivity: escape_drive wraps the drive in (?i: iff its second argument is true and both '
                   'call sites pass the case-sensitive flag, so drive letters are case-insensitive in either mode')
    repo = ctx.repo
    ed = repo.func(WP, 'escape_drive')
    r = [s for s in ed.node.body if isinstance(s, ast.Return)]
    ok = False
    if r and isinstance(r[0].value, ast.IfExp):
        e = r[0].value
        a = norm_src(e.body).replace('"', "'")
        ok = norm_src(e.test) == 'case' and a == "f'(?i:{re.escape(drive)})'" and norm_src(e.orelse) == 're.escape(drive)'
    ctx.ob(rule, f'{WP}:escape_drive/shape', ok, repo.loc(WP, ed.node), "f'(?i:{re.escape(drive)})' if case else re.escape(drive)", norm_src(r[0].value) if r else 'none',
           witness="globmatch('c:/x', 'C:/x', FORCEWIN|CASE) is True: drive letters never compare case-sensitively")
    gw = repo.func(WP, '_get_win_drive')
    cs = [c for c in walk_no_nested(gw.node) if isinstance(c, ast.Call) and norm_src(c.func) == 'escape_drive']
    okc = len(cs) == 2 and all(len(c.args) == 2 and norm_src(c.args[1]) == 'case_sensitive' for c in cs)
    ctx.ob(rule, f'{WP}:_get_win_drive/escape_drive-calls', okc, repo.loc(WP, gw.node), 'escape_drive(…, case_sensitive) at both sites', '; '.join(norm_src(c)[:50] for c in cs))
    rt = repo.func(WP, 'WcParse.root')
    c2 = [c for c in walk_no_nested(rt.node) if isinstance(c, ast.Call) and norm_src(c.func) == '_get_win_drive']
    okr = len(c2) == 1 and [norm_src(a) for a in c2[0].args] == ['pattern', 'True', 'self.case_sensitive']
    ctx.ob(rule, f'{WP}:WcParse.root/_get_win_drive-call', okr, repo.loc(WP, rt.node), '_get_win_drive(pattern, True, self.case_sensitive)', norm_src(c2[0]) if c2 else 'none')


def rule_sep_parametric(ctx: Ctx, rule: str) -> None:
    ctx.text(rule, 'separator-parametric fragments: no path-mode fragment template contains a literal separator outside its {sep}/{} '
                   'slot (the declared platform twins excepted); the separator dictionary of WcParse.__init__ is re.escape("\\\\/") '
                   'for windows and re.escape("/") for unix; bslash_abort and win_drive_detect are true only on windows with pathname')
    repo = ctx.repo
    env = repo.mod(WP).env
    twins = {'_NO_ROOT', '_NO_WIN_ROOT', '_NO_NIX_DIR', '_NO_WIN_DIR'}
    n = 0
    for name, val in sorted(env.items()):
        if not (name.startswith('_') and name.isupper() and isinstance(val, str)) or name in twins:
            continue
        if '{' not in val:
            continue
        stripped = val.replace('{sep}', '').replace('{{', '').replace('}}', '').replace('{}', '')
        has = '/' in stripped or '\\\\' in stripped or '\\/' in stripped
        n += 1
        ctx.ob(rule, f'{WP}:{name}/no-literal-separator', not has, repo.loc(WP, repo.const_line(WP, name)), 'separators only through the {sep}/{} slot',
               val, witness="a literal `/` in a template makes FORCEWIN treat `\\` differently from `/`")
    ctx.floor(rule, 'slot templates', n, 15)
    v = wcparse_variants(repo)
    fn = repo.func(WP, 'WcParse.__init__')
    site = repo.loc(WP, fn.node)
    import re as _re
    ctx.ob(rule, f'{WP}:WcParse.__init__/bare_sep', v['unix']['bare_sep'] == _re.escape('/') and v['win']['bare_sep'] == _re.escape('\\/') and
           v['unix-name']['bare_sep'] == v['unix']['bare_sep'] and v['win-name']['bare_sep'] == v['win']['bare_sep'], site,
           "unix: re.escape('/'), windows: re.escape('\\\\/')", f"{v['unix']['bare_sep']!r} / {v['win']['bare_sep']!r}",
           witness="globmatch('a\\\\b', 'a/b', FORCEWIN) must be True")
    want = {'unix': (False, False), 'unix-name': (False, False), 'win': (True, True), 'win-name': (False, False)}
    got = {k: (v[k]['win_drive_detect'], v[k]['bslash_abort']) for k in want}
    ctx.ob(rule, f'{WP}:WcParse.__init__/windows-only-switches', got == want, site, 'win_drive_detect = bslash_abort = (windows ∧ pathname)', str(got),
           witness="fnmatch('a\\\\b', 'a\\\\\\\\b', FORCEWIN) (name mode): an escaped backslash is a literal, not a path separator")
    gs = repo.func('glob', '_GlobSplit.__init__')
    ev = SymEval(repo, call_models={'_wcparse:is_unix_style': lambda *a: Opaque('unix'), '_wcparse:is_negative': lambda *a: False,
                                    '_wcparse:_get_magic_symbols': lambda *a: Opaque('magic')})
    paths = ev.tabulate(gs, {'flags': BV('flags'), 'pattern': Opaque('pattern')}, Obj(('glob', '_GlobSplit')))
    okg = all((p.attrs.get('win_drive_detect'), p.attrs.get('bslash_abort'), p.attrs.get('sep')) ==
              ((False, False, '/') if p.decisions.get('unix') else (True, True, '\\')) for p in paths)
    ctx.ob(rule, 'glob:_GlobSplit.__init__/windows-switches', okg, repo.loc('glob', gs.node), "unix: (False, False, '/'); windows: (True, True, '\\\\')", str(okg))
