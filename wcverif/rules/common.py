"""Shared extraction helpers for the rule modules."""
from __future__ import annotations

import ast
from typing import Any, Callable

from ..model import AnalysisError, FuncInfo, Repo, norm_src, walk_no_nested
from ..report import Ctx
from ..symeval import BV, Frame, Obj, Opaque, Path, SymEval, Tok, atom_pretty

def cached(repo: Repo, key: str, build: Callable[[], Any]) -> Any:
    # caches live on the Repo object itself: ids of dead objects are reused by CPython, so id-keyed tables would leak
    # facts from one analysed tree into another (the self-test analyses many trees in one process)
    store = repo.__dict__.setdefault('_wc_cache', {})
    if key not in store:
        store[key] = build()
    return store[key]


def opaque_model(tag: str) -> Callable:
    return lambda fr, n, a, k: Opaque(tag)


def wcparse_init_paths(repo: Repo) -> list[Path]:
    """Decision table of WcParse.__init__ over the flag bits it branches on (+ atoms `unix`, `case_sensitive`)."""
    def build() -> list[Path]:
        ev = SymEval(repo, call_models={'_wcparse:get_case': opaque_model('case_sensitive'),
                                        '_wcparse:is_unix_style': opaque_model('unix')})
        fn = repo.func('_wcparse', 'WcParse.__init__')
        return ev.tabulate(fn, {'flags': BV('flags'), 'pattern': Opaque('pattern')}, Obj(('_wcparse', 'WcParse')))
    return cached(repo, 'wcparse_init', build)


FRAG_ATTRS = ('sep', 'bare_sep', 'path_eop', 'no_dir', 'seq_path', 'seq_path_dot', 'path_star', 'path_star_dot1',
              'path_star_dot2', 'path_gstar_dot1', 'path_gstar_dot2', 'need_char')


def wcparse_variants(repo: Repo) -> dict[str, dict[str, Any]]:
    """Fragment attributes of WcParse per (platform, pathname) variant, constant-folded from __init__.

    Keys: 'unix', 'win' (pathname on) and 'unix-name', 'win-name' (pathname off).
    """
    def build() -> dict[str, dict[str, Any]]:
        bn = SymEval(repo).bitnames
        out: dict[str, dict[str, Any]] = {}
        for p in wcparse_init_paths(repo):
            dec = {atom_pretty(k, bn): v for k, v in p.decisions.items()}
            if 'unix' not in dec or 'flags&PATHNAME' not in dec:
                raise AnalysisError('WcParse.__init__: platform / PATHNAME no longer decide the fragment attributes')
            name = ('unix' if dec['unix'] else 'win') + ('' if dec['flags&PATHNAME'] else '-name')
            attrs = {}
            for a in FRAG_ATTRS:
                if a not in p.attrs:
                    raise AnalysisError(f'WcParse.__init__ no longer defines self.{a}')
                v = p.attrs[a]
                if not isinstance(v, str):
                    raise AnalysisError(f'WcParse.__init__: self.{a} is not a foldable constant ({v!r})')
                attrs[a] = v
            for a in ('win_drive_detect', 'bslash_abort'):
                attrs[a] = p.attrs.get(a)
            if name in out and out[name] != attrs:
                raise AnalysisError(f'WcParse.__init__: fragment attributes of variant {name} depend on further flags')
            out[name] = attrs
        for need in ('unix', 'win', 'unix-name', 'win-name'):
            if need not in out:
                raise AnalysisError(f'WcParse.__init__: variant {need} not reachable')
        return out
    return cached(repo, 'wcparse_variants', build)


def fold_in(repo: Repo, fn: FuncInfo, expr: ast.AST, self_attrs: dict[str, Any] | None = None,
            locals_: dict[str, Any] | None = None) -> Any:
    """Constant-fold an expression of `fn` given attribute values of self."""
    ev = SymEval(repo, inline=False)
    ev.decisions = {}
    obj = Obj((fn.module, fn.cls) if fn.cls else None, dict(self_attrs or {}))
    fr = Frame(ev, fn, {}, obj)
    if locals_:
        fr.locals.update(locals_)
    return fr.eval(expr)


def site(repo: Repo, module: str, node: Any) -> str:
    return repo.loc(module, node)


def method_nodes(repo: Repo, module: str, cls: str) -> list[FuncInfo]:
    ci = repo.cls(module, cls)
    return list(ci.methods.values())


def find_calls(fn: FuncInfo, pred: Callable[[ast.Call], bool]) -> list[ast.Call]:
    out = [n for n in walk_no_nested(fn.node) if isinstance(n, ast.Call) and pred(n)]
    return sorted(out, key=lambda c: (c.lineno, c.col_offset))


def is_attr_call(call: ast.Call, attr: str) -> bool:
    return isinstance(call.func, ast.Attribute) and call.func.attr == attr


def self_attr(node: ast.AST, name: str | None = None) -> bool:
    return isinstance(node, ast.Attribute) and isinstance(node.value, ast.Name) and node.value.id == 'self' and \
        (name is None or node.attr == name)


def names_in(node: ast.AST) -> set[str]:
    return {n.id for n in ast.walk(node) if isinstance(n, ast.Name)}


def attrs_in(node: ast.AST) -> set[str]:
    return {n.attr for n in ast.walk(node) if isinstance(n, ast.Attribute)}


def enclosing_map(fn_node: ast.AST) -> dict[int, ast.AST]:
    """child node id -> parent node."""
    out: dict[int, ast.AST] = {}
    for p in ast.walk(fn_node):
        for c in ast.iter_child_nodes(p):
            out[id(c)] = p
    return out


def get_arg(call: ast.Call, pos: int | None, name: str | None) -> ast.AST | None:
    if name is not None:
        for k in call.keywords:
            if k.arg == name:
                return k.value
    if pos is not None and pos < len(call.args) and not any(isinstance(a, ast.Starred) for a in call.args[:pos + 1]):
        return call.args[pos]
    return None


def tabulate_method(repo: Repo, module: str, qual: str, attrs: dict[str, Any], pos_args: list[Any],
                    call_models: dict[str, Callable] | None = None, **kw: Any) -> tuple[SymEval, list[Path]]:
    """Decision table of a method with its non-self parameters bound *by position* (parameter names are free to change)."""
    fi = repo.func(module, qual)
    params = [p for p in fi.params() if p not in ('self', 'cls')]
    if len(params) < len(pos_args):
        raise AnalysisError(f'{module}:{qual}: has {len(params)} parameters, the rule binds {len(pos_args)}')
    ev = SymEval(repo, call_models=call_models or {}, **kw)
    cls = (module, fi.cls) if fi.cls else None
    paths = ev.tabulate(fi, dict(zip(params, pos_args)), Obj(cls, dict(attrs)) if cls else None)
    return ev, paths


def char_alias(paths: list[Path], value_tag: str, name: str = 'c') -> dict[str, str]:
    """Aliases `<value_tag> == <const>` -> `<name>=<const>` for the equality atoms the paths decided on one symbolic value."""
    out: dict[str, str] = {}
    pre = f'{value_tag} == '
    for p in paths:
        for a in p.decisions:
            if a.startswith(pre):
                out[a] = f'{name}={a[len(pre):]}'
    return out


def api_table(repo: Repo, module: str, qual: str, self_cls: str | None = None, bv_params: tuple[str, ...] = ('flags',),
              values: dict[str, Any] | None = None, attrs: dict[str, Any] | None = None, preset: dict[str, bool] | None = None,
              **kw: Any) -> tuple[SymEval, list[Path]]:
    """Decision table (with events) of a public function/method: parameters are bound by their API names, flag words as
    symbolic bit-vectors.  Locals, helper names and statement order inside the function are free."""
    fi = repo.func(module, qual)
    vals = dict(values or {})
    args = {}
    for p in fi.params():
        if p in ('self', 'cls'):
            continue
        args[p] = vals.get(p, BV(p) if p in bv_params else Opaque(p))
    kw.setdefault('inline', False)
    ev = SymEval(repo, **kw)
    obj = Obj((module, self_cls or fi.cls), dict(attrs or {})) if fi.cls else None
    return ev, ev.tabulate(fi, args, obj, preset=preset)


def as_bool(p: Path, v: Any) -> Any:
    """A boolean-valued result that was left symbolic, resolved by the path's own decision on it (else unchanged)."""
    if isinstance(v, Opaque) and v.tag in p.decisions:
        return p.decisions[v.tag]
    return v


def bind_call(repo: Repo, name: str, args: list, kwargs: dict) -> dict[str, Any]:
    """Arguments of a call event by the callee's parameter names (internal callees); positional leftovers as '#i'."""
    out = dict(kwargs)
    params: list[str] = []
    if ':' in name:
        mod, qual = name.split(':', 1)
        if repo.has_func(mod, qual):
            params = [p for p in repo.func(mod, qual).params() if p not in ('self', 'cls')]
        elif mod in repo.modules and qual in repo.modules[mod].classes and repo.has_func(mod, f'{qual}.__init__'):
            params = [p for p in repo.func(mod, f'{qual}.__init__').params() if p != 'self']
    for i, a in enumerate(args):
        out[params[i] if i < len(params) else f'#{i}'] = a
    return out


def is_result_of(v: Any, name: str) -> bool:
    return isinstance(v, Opaque) and v.tag.startswith(name + '(')


def passes_through(v: Any, origin: str, forced: int = 0, decided: int = 0) -> bool:
    """v is the caller's flag word `origin` with exactly the bits `forced` set and nothing else changed (bits the path
    branched on, `decided`, may be known)."""
    return isinstance(v, BV) and v.origin == origin and (v.known & ~decided) == forced and (v.val & ~decided) == forced


def decided_bits(p: Path, origin: str) -> int:
    out = 0
    for a in p.decisions:
        if a.startswith(f'bit:{origin}:'):
            out |= int(a.rsplit(':', 1)[1], 16)
    return out


def site_events(repo: Repo, module: str, qual: str, site_pred: Callable[[ast.Call], bool], values: dict[str, Any] | None = None,
                attrs: dict[str, Any] | None = None, self_cls: str | None = None, max_paths: int = 20000,
                keep_exits: bool = False, all_paths: bool = False, **kw: Any) -> list[tuple[ast.Call, list]]:
    """For every call site of interest in a function: the (path, call event) pairs of that site.

    Each site gets its own backward slice (the statements that feed its arguments and the tests that guard it; loops without
    the site are skipped, exits are dropped), so the table per site stays small however large the function is.  Argument
    values in the events are named by their provenance from the parameters / self attributes.
    """
    from ..slicer import slice_function
    fi = repo.func(module, qual)
    sites = sorted([c for c in walk_no_nested(fi.node) if isinstance(c, ast.Call) and site_pred(c)], key=lambda c: (c.lineno, c.col_offset))
    out = []
    for c0 in sites:
        sl = slice_function(fi, set(), keep_exits=keep_exits, keep_call=lambda c, c0=c0: c is c0, name=f'site@{c0.lineno}')

        def lm(st: ast.AST, c0: ast.Call = c0) -> str:
            return 'once' if any(x is c0 for x in ast.walk(st)) else 'skip'
        kw2 = dict(kw)
        kw2.setdefault('inline', False)
        ev = SymEval(repo, loop_mode=lm, max_paths=max_paths, **kw2)
        args = {}
        for p in fi.params():
            if p in ('self', 'cls'):
                continue
            args[p] = (values or {}).get(p, BV(p) if p == 'flags' else Opaque(p))
        obj = Obj((module, self_cls or fi.cls), dict(attrs or {})) if fi.cls else None
        paths = ev.tabulate(sl, args, obj)
        hits = [(p, e) for p in paths for e in p.of('call') if e[4] is c0]
        out.append((c0, hits, paths) if all_paths else (c0, hits))
    return out


def pinned_writers(repo: Repo, module: str, cls: str, attr: str) -> set[str]:
    """Names of the methods of a class that assign `self.<attr>`; a method that is not part of the pinned vocabulary (a helper
    extracted later) is replaced by the pinned methods that call it, transitively -- cutting a method into helpers does not
    change who writes the attribute."""
    from ..vocabulary import PINNED_FUNCTIONS
    ci = repo.cls(module, cls)
    direct: set[str] = set()
    for fi in ci.methods.values():
        for s in walk_no_nested(fi.node):
            tg: list = []
            if isinstance(s, ast.Assign):
                tg = s.targets
            elif isinstance(s, (ast.AugAssign, ast.AnnAssign)):
                tg = [s.target]
            for t in tg:
                for x in ast.walk(t):
                    if isinstance(x, ast.Attribute) and isinstance(x.value, ast.Name) and x.value.id == 'self' and x.attr == attr and \
                            isinstance(x.ctx, ast.Store):
                        direct.add(fi.name)
    callers: dict[str, set[str]] = {}
    for fi in ci.methods.values():
        for c in walk_no_nested(fi.node):
            if isinstance(c, ast.Call) and isinstance(c.func, ast.Attribute) and isinstance(c.func.value, ast.Name) and c.func.value.id == 'self':
                callers.setdefault(c.func.attr, set()).add(fi.name)
    out: set[str] = set()
    todo = list(direct)
    seen: set[str] = set()
    while todo:
        n = todo.pop()
        if n in seen:
            continue
        seen.add(n)
        if f'{module}:{cls}.{n}' in PINNED_FUNCTIONS or not callers.get(n):
            out.add(n)
        else:
            todo.extend(callers[n])
    return out
