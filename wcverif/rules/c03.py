"""C03: hidden names and the special directories (R2 guard tables, R3 START typestate, R4 forced DOTMATCH, R5 walker)."""
from __future__ import annotations

import ast
import copy
from typing import Any

from ..model import AnalysisError, FuncInfo, norm_src, walk_no_nested
from ..pathq import fq
from ..report import Ctx
from ..symeval import BV, Obj, Opaque, SymEval, Tok, tok
from ..tables import compare_table
from .c02 import _restrict_tables
from .common import enclosing_map

WP = '_wcparse'


def sub_function(fi: FuncInfo, body: list[ast.stmt], name: str) -> FuncInfo:
    """A synthetic function made of some statements of `fi` (same parameters), for decision-table extraction."""
    node = copy.copy(fi.node)
    node.body = list(body)
    return FuncInfo(fi.module, fi.qualname + '::' + name, node, fi.cls, fi.parent)


# ------------------------------------------------------------------------------------------------ R2
def rule_guard_tables(ctx: Ctx, rule: str) -> None:
    ctx.text(rule, 'guard selection tables: _restrict_sequence, the star/globstar selection at the top of _handle_star and '
                   'the star selection of the `!(...)` arm of parse_extend choose the dot-guarded fragment exactly when the '
                   'token stands at a segment start without DOTMATCH (DESIGN appendix B)')
    repo = ctx.repo
    _restrict_tables(ctx, rule)
    env = repo.mod(WP).env
    nodot, star = env.get('_NO_DOT'), env.get('_STAR')
    frag_attrs = {k: tok(k) for k in ('path_star', 'path_star_dot1', 'path_star_dot2', 'path_gstar_dot1', 'path_gstar_dot2',
                                      'need_char')}
    # --- _handle_star prologue
    fi = repo.func(WP, 'WcParse._handle_star')
    body = fi.node.body
    cut = next((i for i, st in enumerate(body) if isinstance(st, ast.If) and 'self.globstar' in norm_src(st.test)), None)
    if cut is None or cut == 0:
        raise AnalysisError('_handle_star: selection prologue not found')
    pro = sub_function(fi, [s for s in body[:cut] if not (isinstance(s, ast.Expr) and isinstance(s.value, ast.Constant))], 'selection')
    ev = SymEval(repo, inline=False)
    attrs = {'pathname': Opaque('P'), 'after_start': Opaque('S'), 'dot': Opaque('D'), 'globstar_capture': Opaque('cap'), **frag_attrs}
    paths = ev.tabulate(pro, {'i': Opaque('i'), 'current': Opaque('current')}, Obj((WP, 'WcParse'), attrs))

    def parts(v: Any) -> Any:
        return v.parts if isinstance(v, Tok) else ((v,) if v else ())

    def proj(p: Any) -> Any:
        return (parts(p.locals.get('star')), parts(p.locals.get('globstar')), parts(p.locals.get('value')))

    def oracle(g: Any) -> Any:
        if g('P'):
            if g('S') and not g('D'):
                r = (('path_star_dot2',), ('path_gstar_dot2',))
            elif g('S'):
                r = (('path_star_dot1',), ('path_gstar_dot1',))
            else:
                r = (('path_star',), ('path_gstar_dot1',))
        elif g('S') and not g('D'):
            r = ((nodot + star,), ())
        else:
            r = ((star,), ())
        return (r[0], r[1], r[0])
    ok, why, rows = compare_table(paths, ev.bitnames, oracle, proj, {'P', 'S', 'D'}, where='_handle_star selection')
    ctx.count('decision_table_rows', rows)
    ctx.ob(rule, f'{WP}:WcParse._handle_star/star-selection', ok, repo.loc(WP, fi.node),
           'P∧S∧¬D:(star_dot2,gstar_dot2) P∧S∧D:(star_dot1,gstar_dot1) P∧¬S:(path_star,gstar_dot1) ¬P∧S∧¬D:_NO_DOT+_STAR else _STAR',
           f'{rows} rows agree' if ok else why,
           witness="globmatch('.a', '*') must be False; globmatch('a/.b', 'a/**', GLOBSTAR) must be False")
    need = [n for n in walk_no_nested(fi.node) if isinstance(n, ast.If) and
            norm_src(n.test) in ('self.after_start and value != globstar', 'value != globstar and self.after_start')]
    okn = any(any(norm_src(s) == 'value = self.need_char + value' for s in n.body) for n in need)
    ctx.ob(rule, f'{WP}:WcParse._handle_star/need-char-at-start', okn, repo.loc(WP, fi.node),
           'if self.after_start and value != globstar: value = self.need_char + value', str(okn),
           witness="globmatch('a/', 'a/*') must be False: `*` never matches an empty segment")
    # --- parse_extend `!` arm
    pe = repo.func(WP, 'WcParse.parse_extend')
    arm = next((n for n in walk_no_nested(pe.node) if isinstance(n, ast.If) and norm_src(n.test) == "list_type == '!'"), None)
    if arm is None:
        raise AnalysisError('parse_extend: negation arm not found')
    attrs2 = {'pathname': Opaque('P'), 'dot': Opaque('D'), 'match_dot_dir': Opaque('M'), 'capture': False,
              'inv_ext': 0, **frag_attrs}
    ev2 = SymEval(repo, inline=False, watch_calls=True)

    def run_arm() -> list:
        node = copy.copy(pe.node)
        node.body = [ast.parse('temp_after_start = T_ATOM').body[0], ast.parse('extended = []').body[0]] + list(arm.body)
        f2 = FuncInfo(pe.module, pe.qualname + '::negation-star', node, pe.cls, pe.parent)
        return ev2.tabulate(f2, {'c': '!', 'i': Opaque('i'), 'current': Opaque('current'), 'reset_dot': False,
                                 'T_ATOM': Opaque('T')}, Obj((WP, 'WcParse'), attrs2))
    paths2 = run_arm()

    def proj2(p: Any) -> Any:
        for (_n, name, a, _k) in p.calls:
            if name.endswith('InvPlaceholder') and a:
                return parts(a[0])
        return None

    def oracle2(g: Any) -> Any:
        T_ = g('T')
        if g('P'):
            if not T_ or g('M'):
                s = ('path_star',)
            elif not g('D'):
                s = ('path_star_dot2',)
            else:
                s = ('path_star_dot1',)
        else:
            s = (star,) if (not T_ or g('D')) else (nodot + star,)
        return (('need_char',) + s) if T_ else s
    ok2, why2, rows2 = compare_table(paths2, ev2.bitnames, oracle2, proj2, {'P', 'D', 'M', 'T'}, alias={'T_ATOM': 'T'},
                                     where='parse_extend negation star')
    ctx.count('decision_table_rows', rows2)
    ctx.ob(rule, f'{WP}:WcParse.parse_extend/negation-star-selection', ok2, repo.loc(WP, arm),
           'P∧(¬T∨M):path_star  P∧T∧¬M∧¬D:star_dot2  P∧T∧¬M∧D:star_dot1  ¬P∧(¬T∨D):_STAR  ¬P∧T∧¬D:_NO_DOT+_STAR; need_char iff T',
           f'{rows2} rows agree' if ok2 else why2,
           witness="fnmatch('.a', '!(b)', EXTMATCH) must be False; globmatch('..', '!(a)', EXTGLOB|DOTGLOB) must be False")


# ------------------------------------------------------------------------------------------------ R3
def rule_start_typestate(ctx: Ctx, rule: str) -> None:
    ctx.text(rule, 'START typestate of the parser: the four transition methods implement the documented transitions; the '
                   'dispatch loops of root and parse_extend call update_dir_state() after every token except a deferred '
                   'dot; parse_extend saves the state, restores it on failure, re-arms START after `|` when the group '
                   'began at START; (b) a group that can match empty must not consume START; (c) a START guard must not '
                   'be emitted inside a repeating group body')
    from . import seqrules
    seqrules.rule_star_epilogue(ctx, rule)
    repo = ctx.repo
    ev = SymEval(repo, inline=True)
    trans = {
        'set_after_start': lambda ds, a: (False, True),
        'set_start_dir': lambda ds, a: (True, False),
        'reset_dir_track': lambda ds, a: (False, False),
        'update_dir_state': lambda ds, a: (False, True) if (ds and not a) else ((False, False) if (not ds and a) else (ds, a)),
    }
    for name, f in trans.items():
        fi = repo.func(WP, f'WcParse.{name}')
        paths = ev.tabulate(fi, {}, Obj((WP, 'WcParse'), {'dir_start': Opaque('ds'), 'after_start': Opaque('as')}))

        def proj(p: Any) -> Any:
            def val(x: Any, atom: str) -> Any:
                if isinstance(x, Opaque):
                    return ('in', atom)
                return x
            return (val(p.attrs.get('dir_start'), 'ds'), val(p.attrs.get('after_start'), 'as'))

        def oracle(g: Any, f: Any = f, name: str = name) -> Any:
            if name != 'update_dir_state':
                return f(None, None)
            ds, a = g('ds'), g('as')
            r = f(ds, a)
            if r == (ds, a):
                return (('in', 'ds'), ('in', 'as'))
            return r
        ok, why, rows = compare_table(paths, ev.bitnames, oracle, proj, {'ds', 'as'}, where=name)
        ctx.count('decision_table_rows', rows)
        ctx.ob(rule, f'{WP}:WcParse.{name}/transition', ok, repo.loc(WP, fi.node),
               {'set_after_start': '(F,T)', 'set_start_dir': '(T,F)', 'reset_dir_track': '(F,F)',
                'update_dir_state': '(T,F)->(F,T); (F,T)->(F,F); else unchanged'}[name],
               f'{rows} rows agree' if ok else why,
               witness="globmatch('a/.b', 'a/*') must be False: after a separator the next token is a segment start")
    # dispatch loops
    for qn, loopkind in (('WcParse.root', ast.For), ('WcParse.parse_extend', ast.While)):
        fi = repo.func(WP, qn)
        q = fq(fi)
        loops = [n for n in walk_no_nested(fi.node) if isinstance(n, loopkind) and
                 any(isinstance(x, ast.Call) and norm_src(x.func) == 'self.update_dir_state' for s in n.body for x in ast.walk(s))]
        if len(loops) != 1:
            raise AnalysisError(f'{qn}: expected one dispatch loop calling update_dir_state, found {len(loops)}')
        loop = loops[0]
        last = loop.body[-1]
        ok_last = isinstance(last, ast.Expr) and norm_src(last.value) == 'self.update_dir_state()'
        conts = [c for s in loop.body for c in [s, *walk_no_nested(s)] if isinstance(c, ast.Continue)]
        bad = [c for c in conts if not q.in_handler(c, {'DotException'})]
        ctx.ob(rule, f'{WP}:{qn}/update_dir_state-every-token', ok_last and not bad, repo.loc(WP, loop),
               'update_dir_state() is the last statement of the dispatch loop; only a deferred dot (DotException) skips it',
               f'last={norm_src(last)[:40]}, other continues={len(bad)}',
               witness="globmatch('.b', 'a.b'[1:]) / `?` right after a literal must not be treated as segment start")
    rt = repo.func(WP, 'WcParse.root')
    q = fq(rt)
    sas = q.nodes_of_calls(lambda s: s == 'self.set_after_start')
    fors = [n.id for n in q.cfg.nodes if n.kind == 'for']
    ok0 = bool(sas) and all(any(q.cfg.dominates(d, f) for d in sas) for f in fors)
    ctx.ob(rule, f'{WP}:WcParse.root/starts-at-START', ok0, repo.loc(WP, rt.node), 'set_after_start() dominates the token loop',
           str(ok0), witness="fnmatch('.a', '*') must be False: the first token of a pattern is a segment start")
    # parse_extend save / restore / re-arm
    pe = repo.func(WP, 'WcParse.parse_extend')
    qpe = fq(pe)
    src = [norm_src(s) for s in walk_no_nested(pe.node) if isinstance(s, ast.stmt)]
    saved = 'temp_dir_start = self.dir_start' in src and 'temp_after_start = self.after_start' in src
    restores = [s for s in walk_no_nested(pe.node) if isinstance(s, ast.Assign) and norm_src(s) in
                ('self.dir_start = temp_dir_start', 'self.after_start = temp_after_start')]
    restored = len(restores) == 2 and all(qpe.guarded(s, 'success', 'F') for s in restores)
    ctx.ob(rule, f'{WP}:WcParse.parse_extend/state-saved-and-restored-on-failure', saved and restored, repo.loc(WP, pe.node),
           'dir_start/after_start saved at entry and restored when the list did not parse', f'saved={saved} restored={restored}',
           witness="fnmatch('.a', '@(', EXTMATCH): a failed `@(` must leave the `@` token at segment start")
    bars = [n for n in walk_no_nested(pe.node) if isinstance(n, ast.If) and norm_src(n.test) == 'temp_after_start' and
            any(norm_src(s) == 'self.set_start_dir()' for s in n.body)]
    okb = any(qpe.guarded(b, lambda s: s.replace('"', "'") == "c == '|'", 'T') for b in bars)
    ctx.ob(rule, f'{WP}:WcParse.parse_extend/alternative-re-arms-START', okb, repo.loc(WP, pe.node),
           "after `|`: if temp_after_start: self.set_start_dir()", str(okb),
           witness="fnmatch('.b', '@(a|*)', EXTMATCH) must be False: each alternative starts the segment again")
    # (b) nullable groups must not consume START
    resets = [c for c in qpe.calls(lambda s: s in ('self.reset_dir_track', 'self.set_after_start', 'self.set_start_dir'))
              if qpe.guarded(c, 'success', 'T')]
    ctx.floor(rule, 'state changes on the success exit of parse_extend', len(resets) + len([1 for _ in restores]), 1)
    uncond = [c for c in resets if not any('list_type' in t or 'nullable' in t or 'empty' in t for t, _p in qpe.guards(c))]
    ctx.ob(rule, f'{WP}:WcParse.parse_extend/nullable-group-keeps-START', not uncond, repo.loc(WP, uncond[0] if uncond else pe.node),
           'START is left after a group only when the group cannot match the empty string (`?(`, `*(`, empty alternative)',
           'reset_dir_track() on every successful group' if uncond else 'guarded by the list type',
           note='F10', witness="globmatch('.a', '?(x)*', EXTGLOB) is True; glob('?(x)*', EXTGLOB) returns `.` and `..`")
    # (c) START guard inside repeating bodies
    hoist = [n for n in walk_no_nested(pe.node) if isinstance(n, ast.If) and 'list_type' in norm_src(n.test) and
             ("'*'" in norm_src(n.test) or "'+'" in norm_src(n.test)) and
             any(isinstance(x, ast.Call) and norm_src(x.func) in ('self.reset_dir_track', 'self._restrict_sequence')
                 for s in n.body for x in ast.walk(s)) and
             n.lineno < min((w.lineno for w in walk_no_nested(pe.node) if isinstance(w, ast.While)), default=0)]
    ctx.ob(rule, f'{WP}:WcParse.parse_extend/repeating-group-guard-hoisted', bool(hoist), repo.loc(WP, pe.node),
           'for `*(`/`+(` the START guard is emitted once in front of the group, the body is parsed in MID state',
           'body of a repeating group is parsed in START state' if not hoist else 'hoisted', note='F11',
           witness="fnmatch('a.b', '+(?)', EXTMATCH) is False")
    # (a) what may follow START: the dot arm of parse_extend leaves START only after a written dot
    dots = [n for n in walk_no_nested(pe.node) if isinstance(n, ast.If) and norm_src(n.test) == 'self.after_start' and
            any(norm_src(s) == 'self.reset_dir_track()' for s in n.body)]
    okd = any(qpe.guarded(d, lambda s: s.replace('"', "'") == "c == '.'", 'T') for d in dots)
    ctx.ob(rule, f'{WP}:WcParse.parse_extend/written-dot-leaves-START', okd, repo.loc(WP, pe.node),
           "in the `.` arm: if self.after_start: ... self.reset_dir_track()", str(okd),
           witness="fnmatch('.a', '@(.*)', EXTMATCH) must be True: a written dot consumes the leading dot")
    mdd = [s for s in walk_no_nested(pe.node) if isinstance(s, ast.Assign) and norm_src(s.targets[0]) == 'self.match_dot_dir']
    vals = sorted({norm_src(s.value) for s in mdd})
    ctx.ob(rule, f'{WP}:WcParse.parse_extend/match_dot_dir-definition',
           vals == ['False', 'self.dot and (not self.nodotdir)'], repo.loc(WP, pe.node),
           'match_dot_dir = False at the outermost group, = dot ∧ ¬nodotdir after a written leading dot', str(vals),
           witness="globmatch('..', '!(.)', EXTGLOB|DOTGLOB|NODOTDIR) must stay False")

    # (d) inside a list a dot is handled while the parser still knows whether it is at the start of a segment: the dot handler is
    # called before the state is advanced (decision table of one list character, events in order)
    from .common import cached
    from ..symeval import focus as _fc, _tag as _vt

    def pe_rows() -> list:
        ev_ = SymEval(repo, inline=False, loop_mode='once', max_paths=100000)
        pr_ = [x for x in pe.params() if x != 'self']
        return ev_.tabulate(pe, {x: Opaque(x) for x in pr_}, Obj((WP, 'WcParse'), {}))
    rows_ = cached(repo, 'c03:parse_extend_rows', pe_rows)
    bad_o = []
    n_o = 0
    for p_ in rows_:
        _fc(p_)
        if not any(k.endswith(" == '.'") and v for k, v in p_.decisions.items()):
            continue
        names = [e[1].split('.')[-1] for e in p_.events if e[0] == 'call' and e[1].startswith(f'{WP}:WcParse.')]
        if '_handle_dot' not in names:
            continue
        n_o += 1
        k_ = names.index('_handle_dot')
        if any(x in ('reset_dir_track', 'set_after_start', 'set_start_dir', 'update_dir_state') for x in names[:k_]):
            bad_o.append(f'the segment state is advanced ({[x for x in names[:k_] if x != "_handle_dot"][0]}) before the dot is handled')
    ctx.ob(rule, f'{WP}:WcParse.parse_extend/dot-handled-in-entry-state', n_o >= 4 and not bad_o, repo.loc(WP, pe.node),
           'for a `.` inside a list _handle_dot(i, extended) is the first state-dependent call of the iteration', f'{n_o} rows agree' if n_o >= 4 and not bad_o else (bad_o[0] if bad_o else f'{n_o} rows'),
           witness="glob('@(.*)', flags=EXTGLOB) must not return `.` and `..` (NODOTDIR is the default of glob)")


# ------------------------------------------------------------------------------------------------ R4
def exclusion_compile_sites(ctx: Ctx) -> list[tuple[str, str, ast.Call, Any, str]]:
    """(module, function, call node, abstract flags argument, description) for every exclusion compile/translate."""
    repo = ctx.repo
    out = []
    incl: dict[int, Any] = {}
    ctx.__dict__['_inclusion_sites'] = incl
    for fn_name in ('translate', 'compile_pattern'):
        fi = repo.func(WP, fn_name)
        ev = SymEval(repo, watch_calls=True, inline_only={'_wcparse:no_negate_flags'}, max_paths=20000)
        # the part up to and including the expansion loop (the tail only adds defaults; it is tabulated by the C07/C02 rules)
        body = fi.node.body
        cut = next((i for i, st in enumerate(body) if any(isinstance(x, ast.For) for x in ast.walk(st))), None)
        if cut is None:
            raise AnalysisError(f'{fn_name}: expansion loop not found')
        paths = ev.tabulate(sub_function(fi, body[:cut + 1], 'through-loop'),
                            {'flags': BV('flags'), 'patterns': Opaque('patterns'), 'limit': Opaque('limit'), 'exclude': Opaque('exclude')})
        seen: dict[int, Any] = {}
        for p in paths:
            for (node, name, a, k) in p.calls:
                if name not in (f'{WP}:translate', f'{WP}:compile_pattern', f'{WP}:WcParse', f'{WP}:_compile'):
                    continue
                first = a[0] if a else None
                ftag = repr(first)
                is_excl = ('exclude' in ftag and name.endswith(fn_name)) or '[1:' in ftag
                if not is_excl:
                    if 'elem(' in ftag and 'expand' in ftag:
                        fl2 = k.get('flags', a[1] if len(a) > 1 else None)
                        incl.setdefault(id(node), (node, name, fn_name, []))[3].append(fl2)
                    continue
                fl = k.get('flags', a[1] if len(a) > 1 else None)
                seen.setdefault(id(node), (node, name, []))[2].append(fl)
        for node, name, fls in seen.values():
            out.append((WP, fn_name, node, fls, f'{name.split(":")[1]}({norm_src(node.args[0]) if node.args else ""})'))
    return out


def rule_exclusion_dotmatch(ctx: Ctx, rule: str) -> None:
    ctx.text(rule, 'every call that compiles or translates an exclusion pattern has DOTMATCH and _NO_GLOBSTAR_CAPTURE in the '
                   'must-set of its flag argument (bit-vector flag flow over translate, compile_pattern, Glob.__init__)')
    repo = ctx.repo
    D = repo.const(WP, 'DOTMATCH')
    NC = repo.const(WP, '_NO_GLOBSTAR_CAPTURE')
    sites = exclusion_compile_sites(ctx)
    for mod, fn, node, fls, desc in sites:
        ok = bool(fls) and all(isinstance(f, BV) and f.must_set(D | NC) for f in fls)
        miss = []
        for f in fls:
            if isinstance(f, BV):
                if not f.must_set(D):
                    miss.append('DOTMATCH')
                if not f.must_set(NC):
                    miss.append('_NO_GLOBSTAR_CAPTURE')
            else:
                miss.append(f'unanalysable {f!r}')
        ctx.ob(rule, f'{mod}:{fn}/{desc}', ok, repo.loc(mod, node), 'flags ⊇ DOTMATCH | _NO_GLOBSTAR_CAPTURE on every path',
               'both forced' if ok else f'not forced: {sorted(set(miss))}',
               witness="fnmatch('.x', '*', flags=NEGATE|DOTMATCH... ) -- exclude='*' must also exclude dot files: "
                       "filter(['.a','b'], '*', flags=D, exclude='*') == []")
    ctx.floor(rule, 'exclusion compile sites in _wcparse', len(sites), 4)
    # ... and only those: inclusion patterns keep the caller's DOTMATCH and keep their `**` capture groups
    incl = ctx.__dict__.get('_inclusion_sites', {})
    for node, name, fn_name, fls in incl.values():
        forced = [f for f in fls if isinstance(f, BV) and (f.must_set(D) or f.must_set(NC))]
        ctx.ob(rule, f'{WP}:{fn_name}/{name.split(":")[1]}(expanded)/not-forced', not forced and bool(fls), repo.loc(WP, node),
               'inclusion patterns are compiled with the plain flags (no forced DOTMATCH / _NO_GLOBSTAR_CAPTURE)',
               'plain' if not forced else 'DOTMATCH or _NO_GLOBSTAR_CAPTURE forced on inclusion patterns',
               witness="globmatch('link/a.txt', '**/*.txt', G, REALPATH, exclude='x') must stay False: the `**` capture is what finds the symlink")
    ctx.floor(rule, 'inclusion compile sites in _wcparse', len(incl), 2)
    # Glob
    from . import ginit
    ginit.rule_derived_attrs(ctx, rule, which={'negate_flags'})
    pp = repo.func('glob', 'Glob._parse_patterns')
    q = fq(pp)
    calls = q.calls(lambda s: s == '_wcparse._compile')
    ctx.floor(rule, 'exclusion compile sites in glob', len(calls), 1)
    for i, c in enumerate(calls, 1):
        fl = c.args[1] if len(c.args) > 1 else None
        ok = fl is not None and norm_src(fl) == 'self.negate_flags' and q.guarded(c, 'is_neg', 'T')
        ctx.ob(rule, f'glob:Glob._parse_patterns/_compile@{i}', ok, repo.loc('glob', c),
               '_compile(p, self.negate_flags) under is_neg', norm_src(c))


# ------------------------------------------------------------------------------------------------ R5
def rule_walker_hidden(ctx: Ctx, rule: str) -> None:
    ctx.text(rule, 'glob walker: _is_hidden = ¬dot ∧ name starts with `.`; in _glob_dir the no-matcher yield and the '
                   'recursive descent are control-dependent on ¬hidden; `.`/`..` are yielded only when a matcher accepted '
                   'them and never descended into; Glob.__init__ sets NODOTDIR unless SCANDOTDIR')
    repo = ctx.repo
    ih = repo.func('glob', 'Glob._is_hidden')
    ev = SymEval(repo, inline=False)
    paths = ev.tabulate(ih, {'name': Opaque('name')}, Obj(('glob', 'Glob'), {'dot': Opaque('dot'), 'specials': ('.', '..')}))
    atoms = {a for p in paths for a in p.decisions}
    dotatom = [a for a in atoms if 'name[0:1]' in a or 'name[:1]' in a]
    ok = len(paths) >= 2 and len(dotatom) == 1 and all(
        (p.ret is True) == ((p.decisions.get('dot') is False) and p.decisions.get(dotatom[0], False) is True) for p in paths) and \
        ("'.'" in dotatom[0] if dotatom else False)
    ctx.ob(rule, 'glob:Glob._is_hidden/table', ok, repo.loc('glob', ih.node), "not self.dot and name[0:1] == '.'",
           f'{len(paths)} rows, atoms {sorted(atoms)}', witness="glob('*') must not return `.hidden`")
    from .cglob import glob_dir_table
    gd = repo.func('glob', 'Glob._glob_dir')
    bad, n = glob_dir_table(repo)
    site = repo.loc('glob', gd.node)
    ctx.floor(rule, 'entry rows in the _glob_dir table', n, 20)
    ctx.ob(rule, 'glob:Glob._glob_dir/descent', not bad['descent'], site,
           'descent only under deep ∧ ¬hidden ∧ is_dir ∧ follow and never for `.`/`..`', f'{n} rows agree' if not bad['descent'] else bad['descent'][0],
           witness="glob('**', GLOBSTAR) must not list .git/ contents; must never recurse into `..`")
    ctx.ob(rule, 'glob:Glob._glob_dir/special-yield', not bad['special-yield'], site,
           '`.`/`..` yielded only when a matcher exists and accepted the name; never descended into', 'agree' if not bad['special-yield'] else bad['special-yield'][0],
           witness="glob('*') with SCANDOTDIR off must not return `.`; `**` must never yield `..`")
    ctx.ob(rule, 'glob:Glob._glob_dir/entry-yield', not bad['entry-yield'] and not bad['iter-call'], site,
           'yield (path, is_dir) iff (no matcher ∧ ¬hidden) or the matcher accepted the name', 'agree' if not (bad['entry-yield'] or bad['iter-call']) else (bad['entry-yield'] + bad['iter-call'])[0],
           witness="glob('**', GLOBSTAR) must not return hidden files")
    # NODOTDIR default
    from . import ginit
    ginit.rule_walker_bits(ctx, rule, which={'NODOTDIR-default', 'scandotdir'})
