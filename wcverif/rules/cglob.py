"""Rules about the glob walker and the REALPATH matcher: C04, C05, C06, C12, C13."""
from __future__ import annotations

import ast
from typing import Any

from ..boolform import equivalent_tests
from ..model import AnalysisError, ModRef, norm_src, walk_no_nested
from ..pathq import fq
from ..report import Ctx
from ..symeval import BV, Obj, Opaque, SymEval, Tok
from ..tables import compare_table
from .common import cached, enclosing_map, wcparse_init_paths

WP = '_wcparse'


# ================================================================================================ C13
def rule_seen_key(ctx: Ctx, rule: str) -> None:
    ctx.text(rule, 'seen-set key agreement: in Glob._is_unique the expression tested with `not in self.seen` and the expression '
                   'passed to self.seen.add are the same normalisation of the path (generic fold rule: what is looked up folded '
                   'must be stored folded)')
    repo = ctx.repo
    fi = repo.func('glob', 'Glob._is_unique')
    from ..symeval import focus, _tag
    pars = [p for p in fi.params() if p != 'self']
    if len(pars) != 1:
        raise AnalysisError('Glob._is_unique: (path) expected')
    ev = SymEval(repo, inline=False)
    paths = ev.tabulate(fi, {pars[0]: Opaque('path')}, Obj(('glob', 'Glob'), {}))
    bad_k, bad_a, bad_f, bad_n = [], [], [], []
    n = 0
    for p in paths:
        focus(p)
        d = p.decisions
        adds = [e for e in p.of('call') if e[1] == 'self.seen.add']
        mem = [(k, v) for k, v in d.items() if k.endswith(' in self.seen')]
        nu = d.get('self.nounique')
        if nu is None:
            bad_n.append('self.nounique is not consulted')
            continue
        if nu:
            if p.ret is not True or adds or mem:
                bad_n.append(f'nounique: returns {_tag(p.ret)}, {len(adds)} add(s), {len(mem)} lookup(s)')
            continue
        n += 1
        cs = d.get('self.case_sensitive')
        K = 'path' if cs else 'path.lower()'
        if cs is None or len(mem) != 1 or mem[0][0] != f'{K} in self.seen':
            bad_f.append(f'case_sensitive={cs}: looks up {[k for k, _v in mem]}')
            continue
        seen = mem[0][1]
        if seen:
            if adds or p.ret is not False:
                bad_a.append(f'already seen: {len(adds)} add(s), returns {_tag(p.ret)}')
        else:
            if len(adds) != 1 or p.ret is not True:
                bad_a.append(f'new: {len(adds)} add(s), returns {_tag(p.ret)}')
            elif [_tag(x) for x in adds[0][2]] != [K]:
                bad_k.append(f'looks up {K} but stores {[_tag(x) for x in adds[0][2]]}')
    if n < 4:
        raise AnalysisError(f'Glob._is_unique: only {n} rows consult the seen set')
    site = repo.loc('glob', fi.node)
    ctx.ob(rule, 'glob:Glob._is_unique/lookup-key==stored-key', not bad_k, site, 'the key that is looked up is the key that is stored', 'as expected' if not bad_k else bad_k[0],
           witness="on a case-sensitive file system glob(['*b','A*'], flags=IGNORECASE) returns 'Ab' twice")
    ctx.ob(rule, 'glob:Glob._is_unique/add-only-when-new', not bad_a, site, 'seen: False, nothing stored; new: stored once, True', 'as expected' if not bad_a else sorted(set(bad_a))[0])
    ctx.ob(rule, 'glob:Glob._is_unique/folds-under-case-rule', not bad_f, site,
           'key = path.lower() iff not self.case_sensitive', 'as expected' if not bad_f else sorted(set(bad_f))[0], witness="glob(['a','A'], flags=IGNORECASE) on a case-insensitive FS")
    ctx.ob(rule, 'glob:Glob._is_unique/nounique-shortcut', not bad_n, site, 'if self.nounique: return True (nothing looked up or stored)', 'as expected' if not bad_n else bad_n[0])


def rule_yield_filtered(ctx: Ctx, rule: str) -> None:
    ctx.text(rule, 'in Glob.glob every yield is `yield from self._format_path(match, is_dir, dir_only)` dominated by the false '
                   'edge of self._is_excluded(match, is_dir) for the same match; _format_path yields only under _is_unique, keyed '
                   'by the pathlib-normalised path iff self.pathlib; _is_excluded is an any() over npatterns')
    repo = ctx.repo
    from .common import api_table, tabulate_method
    from ..symeval import focus, _tag
    VOC = {'glob:Glob.' + n for n in ('_glob', '_is_excluded', '_format_path', '_get_starting_paths', '_lexists', '_prepend_base', '_glob_dir', '_iter',
                                       '_is_unique', '_pathlib_norm', '_match_excluded')}
    g = repo.func('glob', 'Glob.glob')
    _ev, paths = api_table(repo, 'glob', 'Glob.glob', inline=True, no_inline=VOC, max_paths=50000)
    bad = []
    n_y = 0
    for p in paths:
        focus(p)
        fmts = {(_tag(e[2][0]), _tag(e[2][1]), _tag(e[2][2])) if len(e[2]) == 3 else None: e for e in p.of('call') if e[1] == 'glob:Glob._format_path'}
        for y in p.of('yield'):
            n_y += 1
            v = y[1]
            if not (isinstance(v, tuple) and v[0] == 'from' and _tag(v[1]).startswith('glob:Glob._format_path(')):
                bad.append(f'yields {_tag(v)[:80]} (not through _format_path)')
                continue
            hit = [k for k in fmts if k is not None and _tag(v[1]) == f'glob:Glob._format_path({k[0]}, {k[1]}, {k[2]})']
            if len(hit) != 1:
                bad.append('yield not tied to one _format_path call')
                continue
            m_, d_, x_ = hit[0]
            if p.decisions.get(f'glob:Glob._is_excluded({m_}, {d_})') is not False:
                bad.append(f'{m_[:50]} is yielded without asking _is_excluded for it')
            if x_ not in ('elem(self.pattern)[-1].dir_only', 'False') or (x_ == 'False' and p.decisions.get('elem(self.pattern)') is not False):
                bad.append(f'dir_only argument is {x_[:50]}')
    if n_y < 4:
        raise AnalysisError(f'Glob.glob: only {n_y} yields in the table')
    ctx.ob(rule, 'glob:Glob.glob/yields-filtered', not bad, repo.loc('glob', g.node),
           'everything yielded is _format_path(match, is_dir, <dir_only of the last part>) for a match that _is_excluded(match, is_dir) rejected',
           f'{n_y} yields agree' if not bad else sorted(set(bad))[0][:200], witness="glob('**', flags=GLOBSTAR|NEGATE, exclude='*.py') must not return any .py file")
    # a pattern that starts with a literal segment: what comes back from _get_starting_paths is a candidate, not a fact --
    # it is searched below only if it is a directory, and returned as it is only if it exists
    bad_s = []
    n_s = 0
    for p in paths:
        focus(p)
        sp = [e for e in p.of('call') if e[1] == 'glob:Glob._get_starting_paths']
        if not sp:
            continue
        res = 'glob:Glob._get_starting_paths(' + ', '.join(_tag(a) for a in sp[0][2]) + ')'
        S, D = f'elem({res})[0]', f'elem({res})[1]'
        for e in p.of('call'):
            if e[1] == 'glob:Glob._glob' and e[2] and _tag(e[2][0]) == S:
                n_s += 1
                if p.decisions.get(D) is not True:
                    bad_s.append('the literal start is searched below without having been found to be a directory')
            if e[1] == 'glob:Glob._format_path' and e[2] and _tag(e[2][0]) == S:
                n_s += 1
                if p.decisions.get(f'glob:Glob._lexists({S})') is not True:
                    bad_s.append('the literal start is returned without an existence test')
    # the parts after the first one may be none at all: the next part is taken from that remainder only after it was found non-empty
    bad_r = []
    n_r = 0
    for p in paths:
        focus(p)
        for e in p.of('call'):
            if not (e[1].endswith('.pop') and e[2] == [0]):
                continue
            recv = e[1][:-4]
            while recv.endswith('[:]') or recv.endswith("'"):  # a copy of the remainder / the remainder after an earlier pop
                recv = recv[:-3] if recv.endswith('[:]') else recv[:-1]
            if recv.endswith('[1:]'):
                n_r += 1
                if p.decisions.get(recv) is not True and p.decisions.get(e[1][:-4]) is not True:
                    bad_r.append(f'{e[1][:60]}(0) without the remainder having been found non-empty')
    ctx.ob(rule, 'glob:Glob.glob/remainder-tested-before-pop', not bad_r, repo.loc('glob', g.node),
           'a remainder `pattern[1:]` (possibly empty) is popped only after it was found non-empty', f'{n_r} pops agree' if not bad_r else bad_r[0],
           witness="glob('d/') -- a literal directory with nothing after it -- must not raise IndexError (pop from empty list)")
    ctx.ob(rule, 'glob:Glob.glob/literal-start-is-real', n_s >= 3 and not bad_s, repo.loc('glob', g.node),
           'a literal first segment is descended into only if it is a directory and returned only if it exists (lexists relative to the root)',
           f'{n_s} uses agree' if n_s >= 3 and not bad_s else (sorted(set(bad_s))[0] if bad_s else f'{n_s} uses'),
           witness="with a regular file f.txt: glob('f.txt/**', GLOBSTAR) returns ['f.txt/']; glob('./', root_dir='/nonexistent') returns ['./']")
    fp = repo.func('glob', 'Glob._format_path')
    _ev, fps = tabulate_method(repo, 'glob', 'Glob._format_path', {}, [Opaque('path'), Opaque('is_dir'), Opaque('dir_only')], inline=True, no_inline=VOC)
    bad2 = []
    for p in fps:
        focus(p)
        d = p.decisions
        joined = d.get('dir_only') is True or (d.get('self.mark') is True and d.get('is_dir') is True)
        out = 'os.path.join(path, self.empty)' if joined else 'path'
        key = f'glob:Glob._pathlib_norm({out})' if d.get('self.pathlib') else out
        u = d.get(f'glob:Glob._is_unique({key})')
        ys2 = [_tag(y[1]) for y in p.of('yield')]
        if d.get('self.pathlib') is None or u is None or ys2 != ([out] if u else []):
            bad2.append(f'pathlib={d.get("self.pathlib")} unique({key[:40]})={u}: yields {ys2}')
    ctx.ob(rule, 'glob:Glob._format_path/yield-under-unique', not bad2 and len(fps) >= 8, repo.loc('glob', fp.node),
           'the (marked) path is yielded iff _is_unique(<pathlib-normalised path if self.pathlib else the path>)', f'{len(fps)} rows agree' if not bad2 else bad2[0][:200],
           witness="Path('.').glob(['a', './a']) must not list `a` twice")
    ie = repo.func('glob', 'Glob._is_excluded')
    r = [s for s in ie.node.body if isinstance(s, ast.Return)]
    ok3 = bool(r) and equivalent_tests(r[0].value, 'self.npatterns and self._match_excluded(path, is_dir)', fn=ie.node)
    ctx.ob(rule, 'glob:Glob._is_excluded/shape', ok3, repo.loc('glob', ie.node), 'bool(self.npatterns and self._match_excluded(path, is_dir))',
           norm_src(r[0].value) if r else 'none')
    me = repo.func('glob', 'Glob._match_excluded')
    _include_exclude_shape(ctx, rule, 'glob', me, 'self.npatterns', expect_set=True)


def _include_exclude_shape(ctx: Ctx, rule: str, mod: str, fi: Any, source: str, expect_set: bool) -> None:
    """A loop over `source` may only move `matched` in one direction (def-use rule on constants assigned in the loop)."""
    repo = ctx.repo
    for loop in [n for n in walk_no_nested(fi.node) if isinstance(n, ast.For) and norm_src(n.iter) == source]:
        consts = {norm_src(s.value) for s in ast.walk(loop) if isinstance(s, ast.Assign) and
                  any(isinstance(t, ast.Name) and t.id == 'matched' for t in s.targets)}
        want = {'True'} if expect_set else {'False'}
        ctx.ob(rule, f'{mod}:{fi.qualname}/loop[{source}]', consts == want, repo.loc(mod, loop),
               f'only `matched = {"True" if expect_set else "False"}` inside the loop over {source}', str(sorted(consts)),
               witness="a name matches iff some inclusion pattern and no exclusion pattern matches")


def rule_dedupe_predicate(ctx: Ctx, rule: str) -> None:
    ctx.text(rule, 'in Glob._iter_patterns duplicate expansions are dropped iff ¬nounique ∨ is_neg, with a per-pass seen set keyed '
                   'by the expanded text; the automatic nounique shortcut of _parse_patterns applies only under '
                   '¬force_negate ∧ |patterns| ≤ 1 ∧ ¬NODOTDIR ∧ ¬nounique ∧ ¬(pathlib ∧ scandotdir)')
    repo = ctx.repo
    ip = repo.func('glob', 'Glob._iter_patterns')
    from ..symeval import focus, _tag
    pars = [p for p in ip.params() if p != 'self']
    if len(pars) != 2:
        raise AnalysisError('Glob._iter_patterns: (patterns, force_negate) expected')
    # one expansion of one pattern; the limit arithmetic is switched off (limit = 0), it is C11's subject
    ev = SymEval(repo, inline=False, loop_mode='once', max_paths=5000)
    paths = ev.tabulate(ip, {pars[0]: Opaque('patterns'), pars[1]: Opaque('force_negate')}, Obj(('glob', 'Glob'), {'limit': 0}))
    bad_g, bad_b, bad_n, bad_s = [], [], [], []
    n_rows = 0
    for p in paths:
        focus(p)
        d = p.decisions
        ex = [e for e in p.of('call') if e[1] == '_wcparse:expand']
        if not ex or 'force_negate' not in d:
            continue
        n_rows += 1
        # the expansion being looked at: an element of expand(..) -- directly, or through enumerate(.., 1)
        X = '_wcparse:expand(' + ', '.join(_tag(x) for x in ex[0][2]) + ')'
        E = f'elem({X})'
        if any(f'elem(enumerate({X}, 1))[1]' in k for k in d) or any(f'elem(enumerate({X}, 1))[1]' in _tag(y[1]) for y in p.of('yield')):
            E = f'elem(enumerate({X}, 1))[1]'
        fn = d['force_negate']
        negs = [v for k, v in d.items() if k == f'_wcparse:is_negative({E}, self.flags)']
        if not fn and len(negs) != 1:
            bad_n.append(f'force_negate=False: negation decided by {[k for k in d if "is_negative" in k]}')
            continue
        if fn and negs:
            bad_n.append('force_negate=True still consults is_negative')  # harmless, but `or` short-circuits in the specification
        isn = bool(fn) or negs[0]
        nu = d.get('self.nounique')
        mem = [v for k, v in d.items() if k.startswith(f'{E} in set#')]
        adds = [e for e in p.of('call') if e[1].startswith('set#') and e[1].endswith('.add')]
        ys = p.of('yield')
        if nu is None and not isn:
            bad_g.append('an inclusion pattern is de-duplicated without consulting self.nounique')
            continue
        applies = (nu is False) or isn
        if applies:
            if len(mem) != 1:
                bad_g.append(f'nounique={nu} negative={isn}: the seen set is not consulted')
                continue
            if mem[0] and (ys or adds):
                bad_b.append(f'a pattern already seen is yielded / added again')
            if not mem[0] and (len(ys) != 1 or len(adds) != 1 or [_tag(x) for x in adds[0][2]] != [E]):
                bad_b.append(f'a new pattern: {len(ys)} yield(s), added {[[_tag(x) for x in a[2]] for a in adds]}')
        else:
            if mem or adds:
                bad_g.append(f'nounique={nu} negative={isn}: de-duplicated although duplicates are to be kept')
            if len(ys) != 1:
                bad_b.append(f'nounique inclusion: {len(ys)} yields')
        for y in ys:
            v = y[1]
            want_txt = f'{E}[1:]' if (isn and not fn) else E
            if not (isinstance(v, tuple) and len(v) == 2 and bool(v[0]) == isn and not isinstance(v[0], (Opaque, Tok)) or
                    (isinstance(v, tuple) and len(v) == 2 and isinstance(v[0], Opaque) and fn and v[0].tag == 'force_negate')) or _tag(v[1]) != want_txt:
                bad_s.append(f'force_negate={fn} negative={isn}: yields ({_tag(v[0]) if isinstance(v, tuple) else v}, {_tag(v[1])[-24:] if isinstance(v, tuple) and len(v) > 1 else ""})')
    if n_rows < 8:
        raise AnalysisError(f'Glob._iter_patterns: only {n_rows} expansion rows in the table')
    site = repo.loc('glob', ip.node)
    ctx.ob(rule, 'glob:Glob._iter_patterns/dedupe-guard', not bad_g, site, 'the seen set is consulted iff not self.nounique or is_neg',
           f'{n_rows} rows agree' if not bad_g else sorted(set(bad_g))[0], witness="glob(['a','a'], flags=NOUNIQUE) returns `a` twice; exclusions are de-duplicated anyway")
    ctx.ob(rule, 'glob:Glob._iter_patterns/dedupe-body', not bad_b, site, 'seen: skipped; new: added to the seen set and yielded once', 'as expected' if not bad_b else sorted(set(bad_b))[0])
    ctx.ob(rule, 'glob:Glob._iter_patterns/is_neg', not [b for b in bad_n if 'still consults' not in b], site, 'force_negate or is_negative(expanded, self.flags)',
           'as expected' if not bad_n else sorted(set(bad_n))[0], witness="exclude=['!x'] must exclude a file literally named `!x`")
    ctx.ob(rule, 'glob:Glob._iter_patterns/strip-negation-symbol', not bad_s, site,
           'yield is_neg, expanded[1:] if is_neg and not force_negate else expanded', 'as expected' if not bad_s else sorted(set(bad_s))[0],
           witness="glob(['*', '!a'], flags=NEGATE) must exclude `a`, not `!a`")
    pp = repo.func('glob', 'Glob._parse_patterns')
    from .clists import parse_patterns_tail
    parse_patterns_tail(ctx, rule, which={'auto-nounique'})
    from .common import pinned_writers
    writers = pinned_writers(repo, 'glob', 'Glob', 'nounique')
    ctx.ob(rule, 'glob:Glob/nounique-writers', writers == {'__init__', '_parse_patterns'}, repo.loc('glob', pp.node), "{'__init__', '_parse_patterns'}", str(sorted(writers)))


def rule_exclusion_slash(ctx: Ctx, rule: str) -> None:
    ctx.text(rule, 'same directory-slash convention before exclusion on both sides: Glob._match_excluded appends the separator when '
                   'is_dir; _Match._match_real appends it when the file system says directory')
    repo = ctx.repo
    from . import matchrules
    matchrules.rule_match_excluded(ctx, rule, which={'dir-slash'})
    matchrules.rule_dir_slash_real(ctx, rule)


# ================================================================================================ C12
def rule_iglob_glob(ctx: Ctx, rule: str) -> None:
    ctx.text(rule, 'glob = list(iglob(…)) and iglob = yield from Glob(…).glob(), each forwarding every parameter by the same name')
    repo = ctx.repo
    for caller, callee, wrap in (('glob', 'iglob', 'list'), ('iglob', 'Glob', None)):
        fi = repo.func('glob', caller)
        params = fi.params()
        calls = [c for c in walk_no_nested(fi.node) if isinstance(c, ast.Call) and norm_src(c.func) == callee]
        ok = len(calls) == 1
        fw = {}
        if ok:
            c = calls[0]
            fw = {k.arg: norm_src(k.value) for k in c.keywords if k.arg}
            pos = [norm_src(a) for a in c.args]
            ok = pos == [params[0]] and all(fw.get(p) == p for p in params[1:]) and len(fw) == len(params) - 1
        ctx.ob(rule, f'glob:{caller}/forwards-all-to-{callee}', ok, repo.loc('glob', fi.node), f'{callee}({params[0]}, ' + ', '.join(f'{p}={p}' for p in params[1:]) + ')',
               norm_src(calls[0])[:120] if calls else 'no call', witness="glob('*', root_dir=d) and list(iglob('*', root_dir=d)) must agree")
        body = [s for s in fi.node.body if not (isinstance(s, ast.Expr) and isinstance(s.value, ast.Constant))]
        if wrap:
            okb = len(body) == 1 and isinstance(body[0], ast.Return) and isinstance(body[0].value, ast.Call) and norm_src(body[0].value.func) == wrap
        else:
            okb = len(body) == 1 and isinstance(body[0], ast.Expr) and isinstance(body[0].value, ast.YieldFrom) and \
                norm_src(body[0].value.value).endswith('.glob()')
        ctx.ob(rule, f'glob:{caller}/body', okb, repo.loc('glob', fi.node), 'single delegation', norm_src(body[0])[:80] if body else 'empty')


def rule_trailing_separator(ctx: Ctx, rule: str) -> None:
    ctx.text(rule, '_format_path appends the separator iff dir_only ∨ (mark ∧ is_dir); dir_only in Glob.glob is the dir_only field '
                   'of the last part; MARK is kept in self.mark and stripped from the matcher flags')
    repo = ctx.repo
    fp = repo.func('glob', 'Glob._format_path')
    ev = SymEval(repo, inline=False, call_models={'os.path.join': lambda fr, n, a, k: ('join',) + tuple(map(repr, a))})
    paths = ev.tabulate(fp, {'path': Opaque('path'), 'is_dir': Opaque('is_dir'), 'dir_only': Opaque('dir_only')},
                        Obj(('glob', 'Glob'), {'mark': Opaque('mark'), 'empty': Opaque('empty'), 'pathlib': False}))

    def proj(p: Any) -> Any:
        v = p.locals.get('path')
        return v if isinstance(v, tuple) else ('plain',)

    def oracle(g: Any) -> Any:
        return ('join', '<path>', '<empty>') if (g('dir_only') or (g('mark') and g('is_dir'))) else ('plain',)
    known = {'dir_only', 'mark', 'is_dir'}
    paths = [p for p in paths]
    ok, why, rows = compare_table(paths, ev.bitnames, oracle, proj, None, alias=None, where='_format_path')
    ctx.count('decision_table_rows', rows)
    ctx.ob(rule, 'glob:Glob._format_path/table', ok, repo.loc('glob', fp.node), 'os.path.join(path, empty) iff dir_only ∨ (mark ∧ is_dir)',
           f'{rows} rows agree' if ok else why, witness="glob('d/') returns 'd/'; glob('*', flags=MARK) marks directories only")
    g = repo.func('glob', 'Glob.glob')
    d = [s for s in walk_no_nested(g.node) if isinstance(s, ast.Assign) and norm_src(s.targets[0]) == 'dir_only']
    okd = len(d) == 1 and norm_src(d[0].value) == 'pattern[-1].dir_only if pattern else False'
    ctx.ob(rule, 'glob:Glob.glob/dir_only', okd, repo.loc('glob', g.node), 'dir_only = pattern[-1].dir_only if pattern else False',
           norm_src(d[0].value) if d else 'none')
    from . import ginit
    ginit.rule_walker_bits(ctx, rule, which={'mark', 'walker-bits-stripped'})


def rule_nodir_glob(ctx: Ctx, rule: str) -> None:
    ctx.text(rule, 're_no_dir is appended to npatterns iff nodir, only in the inclusion pass; NODIR is stripped from the walker flags')
    repo = ctx.repo
    from .clists import parse_patterns_tail
    parse_patterns_tail(ctx, rule, which={'nodir-pattern'})
    from . import ginit
    ginit.rule_walker_bits(ctx, rule, which={'nodir', 'walker-bits-stripped'})


FS_CALLS = {'os.scandir', 'os.open', 'os.lstat', 'os.stat', 'os.path.lexists', 'os.path.isdir', 'os.path.islink',
            'os.path.exists', 'os.listdir', 'os.path.isfile'}


def rule_root_relative_fs(ctx: Ctx, rule: str) -> None:
    ctx.text(rule, 'every file-system call in glob.py / _wcmatch.py receives a path that is joined onto the root '
                   '(os.path.join(self.root_dir | root, …), _prepend_base), or is used under a test that the pattern / name is '
                   'absolute; never a bare relative value (taint rule: source = relative path values, sanitiser = the join)')
    repo = ctx.repo
    n = 0
    for mod, cls in (('glob', 'Glob'), ('_wcmatch', '_Match')):
        for fi in repo.cls(mod, cls).methods.values():
            q = fq(fi)
            for c in walk_no_nested(fi.node):
                if not (isinstance(c, ast.Call) and norm_src(c.func) in FS_CALLS and c.args):
                    continue
                n += 1
                a = c.args[0]
                ok, how = _rooted(fi, q, a, c, set())
                ctx.ob(rule, f'{mod}:{fi.qualname}/{norm_src(c.func)}({norm_src(a)[:40]})@{n}', ok, repo.loc(mod, c),
                       'argument joined onto the root, or guarded by an absolute-path test', how,
                       witness="glob('*', root_dir='sub') / globmatch('f', '*', REALPATH, root_dir='sub') must look in sub/, not in the cwd")
    ctx.floor(rule, 'file-system call sites', n, 11)
    # how directories are opened relative to a descriptor: like scandir(path) would -- read-only, as a directory, links followed
    wm = repo.mod('_wcmatch')
    dfl = [s for s in wm.tree.body if isinstance(s, ast.Assign) and any(isinstance(t, ast.Name) and t.id == 'DIR_FLAGS' for t in s.targets)]
    names = sorted({x.attr if isinstance(x, ast.Attribute) else x.value for s in dfl for x in ast.walk(s.value)
                    if (isinstance(x, ast.Attribute) and x.attr.startswith('O_')) or (isinstance(x, ast.Constant) and isinstance(x.value, str) and x.value.startswith('O_'))})
    ctx.ob(rule, '_wcmatch:DIR_FLAGS', len(dfl) == 1 and names == ['O_DIRECTORY', 'O_RDONLY'], repo.loc('_wcmatch', dfl[0] if dfl else 1),
           'os.O_RDONLY | O_DIRECTORY (where available), nothing else', str(names),
           witness="glob('link/*', dir_fd=fd) must list a symlinked directory exactly as glob('link/*', root_dir=..) does: O_NOFOLLOW would refuse it")
    from . import ginit
    ginit.rule_derived_attrs(ctx, rule, which={'root_dir'})
    pb = repo.func('glob', 'Glob._prepend_base')
    ev = SymEval(repo, inline=False, call_models={'os.path.join': lambda fr, n, a, k: ('join',) + tuple(map(repr, a))})
    paths = ev.tabulate(pb, {'path': Opaque('path')}, Obj(('glob', 'Glob'), {'is_abs_pattern': Opaque('abs'), 'root_dir': Opaque('root')}))
    ok = all((p.ret == ('join', '<root>', '<path>')) == (p.decisions.get('abs') is False) for p in paths) and len(paths) == 2
    ctx.ob(rule, 'glob:Glob._prepend_base/table', ok, repo.loc('glob', pb.node), 'path if is_abs_pattern else os.path.join(self.root_dir, path)',
           str([(p.decisions, p.ret) for p in paths])[:120])


def _rooted(fi: Any, q: Any, a: ast.AST, site: ast.AST, seen: set[str]) -> tuple[bool, str]:
    s = norm_src(a)
    if isinstance(a, ast.Call) and norm_src(a.func) == 'os.path.join' and a.args and \
            norm_src(a.args[0]) in ('self.root_dir', 'root', 'base'):
        if norm_src(a.args[0]) == 'base':
            return _rooted(fi, q, a.args[0], site, seen)
        return True, f'joined onto {norm_src(a.args[0])}'
    if isinstance(a, ast.Call) and norm_src(a.func) == 'self._prepend_base':
        return True, '_prepend_base'
    if isinstance(a, ast.IfExp):
        r1, h1 = _rooted(fi, q, a.body, site, seen)
        r2, h2 = _rooted(fi, q, a.orelse, site, seen)
        return r1 and r2, f'{h1} / {h2}'
    if s in ('self.root_dir',):
        return True, 'the root itself'
    g = q.guards(site)
    if ('is_abs', 'T') in g or ('self.is_abs_pattern', 'T') in g:
        return True, 'under an absolute-path test'
    from ..boolform import inline_locals
    for t, pol in g:
        if pol != 'T':
            continue
        try:
            e = inline_locals(fi.node, ast.parse(t, mode='eval').body)
        except SyntaxError:
            continue
        r = norm_src(inline_locals(fi.node, e) if isinstance(e, ast.Name) else e)
        # the mount / drive pattern of the platform matched the name: `<RE_MOUNT twin>.match(name) is not None`
        if ('.match(' in r and r.endswith(' is not None') and ('MOUNT' in r or 're_mount' in r)):
            mt = norm_src(inline_locals(fi.node, ast.Name(id='re_mount', ctx=ast.Load()))) if 're_mount' in r else r
            if 'MOUNT' in mt:
                return True, 'under an absolute-path test'
    if isinstance(a, ast.Name) and a.id not in seen:
        defs = [d for d in walk_no_nested(fi.node) if isinstance(d, ast.Assign) and
                any(isinstance(t, ast.Name) and t.id == a.id for t in d.targets)]
        # tuple targets: `fd = scandir = os.open(...)`
        if defs:
            res = []
            for d in defs:
                if isinstance(d.value, ast.Constant) and d.value.value is None:
                    continue  # placeholder, replaced under `if x is None`
                if isinstance(d.value, ast.Call) and norm_src(d.value.func) == 'os.path.join' and d.value.args and \
                        norm_src(d.value.args[0]) == a.id:
                    continue  # inductive step: extends an already rooted value
                if isinstance(d.value, ast.Call) and norm_src(d.value.func) == 'os.open' and d.value.args and \
                        norm_src(d.value.args[0]) == a.id:
                    continue  # inductive step: a descriptor opened on an already rooted value
                gd = q.guards(d)
                if ('self.is_abs_pattern', 'T') in gd or ('is_abs', 'T') in gd:
                    res.append((True, 'assigned under an absolute-path test'))
                elif isinstance(d.value, ast.Call) and norm_src(d.value.func) == 'os.open':
                    res.append(_rooted(fi, q, d.value.args[0], d, seen | {a.id}))
                    if any(k.arg == 'dir_fd' for k in d.value.keywords):
                        res[-1] = (res[-1][0], res[-1][1] + ' (with dir_fd)')
                else:
                    res.append(_rooted(fi, q, d.value, d, seen | {a.id}))
            return bool(res) and all(r for r, _h in res), '; '.join(h for _r, h in res)
    return False, f'`{s}` is not rooted'


def rule_abs_pattern_def(ctx: Ctx, rule: str) -> None:
    ctx.text(rule, 'is_abs_pattern is the is_drive field of the first part and is assigned, per pattern, before any use in '
                   '_prepend_base / _iter within Glob.glob')
    repo = ctx.repo
    g = repo.func('glob', 'Glob.glob')
    q = fq(g)
    defs = [s for s in walk_no_nested(g.node) if isinstance(s, ast.Assign) and norm_src(s.targets[0]) == 'self.is_abs_pattern']
    okd = len(defs) == 1 and norm_src(defs[0].value) == 'pattern[0].is_drive if pattern else False'
    ctx.ob(rule, 'glob:Glob.glob/is_abs_pattern-definition', okd, repo.loc('glob', g.node), 'pattern[0].is_drive if pattern else False',
           norm_src(defs[0].value) if defs else 'none', witness="glob('/etc/*') must not be joined onto root_dir")
    users = q.calls(lambda s: s in ('self._lexists', 'self._prepend_base', 'self._get_starting_paths', 'self._glob'))
    dn = q.node_of(defs[0]) if defs else -1
    oku = bool(defs) and all(q.cfg.dominates(dn, q.node_of(u)) for u in users)
    ctx.ob(rule, 'glob:Glob.glob/is_abs_pattern-before-use', oku, repo.loc('glob', g.node), 'definition dominates every walker call of the iteration',
           f'{len(users)} uses', witness='an absolute pattern following a relative one in a list must switch the mode')
    from .common import pinned_writers
    writers = pinned_writers(repo, 'glob', 'Glob', 'is_abs_pattern')
    ctx.ob(rule, 'glob:Glob/is_abs_pattern-writers', writers == {'glob'}, repo.loc('glob', g.node), "{'glob'}", str(sorted(writers)))


# ================================================================================================ C04
PLATFORM_TWINS = [('_wcparse', 'RE_NO_DIR', 'RE_WIN_NO_DIR'), ('_wcparse', '_NO_NIX_DIR', '_NO_WIN_DIR'),
                  ('_wcparse', 'RE_TILDE', 'RE_WIN_TILDE'), ('_wcparse', 'RE_ANCHOR', 'RE_WIN_ANCHOR'),
                  ('_wcparse', '_NO_ROOT', '_NO_WIN_ROOT'), ('_wcmatch', 'RE_MOUNT', 'RE_WIN_MOUNT'),
                  ('_wcmatch', 'RE_SPLIT', 'RE_WIN_SPLIT'), ('_wcmatch', 'RE_STRIP', 'RE_WIN_STRIP'),
                  ('glob', '_RE_PATHLIB_DOT_NORM', '_RE_WIN_PATHLIB_DOT_NORM')]
PLATFORM_ATOMS = ('is_unix', 'forcewin', 'is_win', 'win_drive_detect', 'self.unix', 'self.win_drive_detect', "util.platform() == 'windows'",
                  'unix')


def _mentions_platform(txt: str) -> bool:
    return any(a in txt for a in PLATFORM_ATOMS)


def rule_platform_twins(ctx: Ctx, rule: str) -> None:
    ctx.text(rule, 'constants that exist in a unix and a windows variant are referenced only in an expression or branch that '
                   'selects between the two variants on a platform atom (is_unix, forcewin, is_win, win_drive_detect, self.unix); '
                   'a use of one variant that is neither control- nor data-dependent on such an atom is a violation')
    repo = ctx.repo
    n_sites = 0
    for mod, nix, win in PLATFORM_TWINS:
        if not repo.has_const(mod, nix) or not repo.has_const(mod, win):
            raise AnalysisError(f'platform twin pair {mod}.{nix}/{win} vanished')
        for m in repo.modules.values():
            for fi in m.functions.values():
                refs = []
                for node in walk_no_nested(fi.node):
                    nm = None
                    if isinstance(node, ast.Name) and node.id in (nix, win) and m.name == mod:
                        nm = node.id
                    elif isinstance(node, ast.Attribute) and node.attr in (nix, win) and isinstance(node.value, ast.Name):
                        r = m.env.get(node.value.id)
                        if isinstance(r, ModRef) and r.internal and r.name == mod:
                            nm = node.attr
                    if nm:
                        refs.append((node, nm))
                if not refs:
                    continue
                q = fq(fi)
                par = enclosing_map(fi.node)
                for node, nm in refs:
                    n_sites += 1
                    # (a) inside a conditional expression whose test is a platform atom and whose other arm is the twin
                    cur: Any = node
                    ok, how = False, ''
                    while id(cur) in par:
                        p = par[id(cur)]
                        if isinstance(p, ast.IfExp) and _mentions_platform(norm_src(p.test)):
                            other = p.orelse if any(x is node for x in ast.walk(p.body)) else p.body
                            twin = win if nm == nix else nix
                            if twin in norm_src(other):
                                ok, how = True, f'selected by `{norm_src(p.test)}`'
                                break
                        cur = p
                    if not ok:
                        g = q.guards(node)
                        pg = [f'{t}:{pol}' for t, pol in g if _mentions_platform(t)]
                        if pg:
                            ok, how = True, f'under {pg[0]}'
                    arm = '+'.join(sorted(f'{t}={pol}' for t, pol in q.guards(node) if 'isinstance' in t))
                    ctx.ob(rule, f'{fi.fq}/{nm}' + (f'[{arm}]' if arm else ''), ok, repo.loc(m.name, node), 'selected against its twin on a platform atom',
                           how or 'used unconditionally',
                           witness="on Linux glob('*', flags=NODIR) drops the regular file named `a\\`; pathlib results with a `\\.` segment are mangled")
    ctx.floor(rule, 'references to platform twins', n_sites, 20)


def rule_follow_rule(ctx: Ctx, rule: str) -> None:
    ctx.text(rule, 'same follow rule on both sides: Glob.follow_links and the `follow` argument built by _wcparse.compile are the '
                   'same function FOLLOW ∧ ¬GLOBSTARLONG; exclusion patterns are applied with follow forced true')
    repo = ctx.repo
    from .common import api_table, bind_call, passes_through, decided_bits
    from ..symeval import focus, _tag
    cp = repo.func(WP, 'compile')
    RP, PN, FO, GSL = (repo.const(WP, k) for k in ('REALPATH', 'PATHNAME', 'FOLLOW', 'GLOBSTARLONG'))
    ev, paths = api_table(repo, WP, 'compile')
    bad = []
    for p in paths:
        focus(p)
        cps = p.calls_to(f'{WP}:compile_pattern')
        ws = p.calls_to('_wcmatch:WcRegexp')
        if len(cps) != 1 or len(ws) != 1:
            bad.append(f'{len(cps)} compile_pattern / {len(ws)} WcRegexp calls')
            continue
        cb = bind_call(repo, f'{WP}:compile_pattern', cps[0][1], cps[0][2])
        if not passes_through(cb.get('flags'), 'flags', 0, decided_bits(p, 'flags')):
            bad.append(f'compile_pattern flags {_tag(cb.get("flags"))}')
        res = f'{WP}:compile_pattern(' + ', '.join([_tag(a) for a in cps[0][1]] + [f'{k}={_tag(v)}' for k, v in cps[0][2].items()]) + ')'
        wb = bind_call(repo, '_wcmatch:WcRegexp', ws[0][1], ws[0][2])
        if _tag(wb.get('include')) != f'tuple({res}[0])' or _tag(wb.get('exclude')) != f'tuple({res}[1])':
            bad.append(f'include/exclude = {_tag(wb.get("include"))[:60]} / {_tag(wb.get("exclude"))[:60]}')

        def bitval(v: Any, b: int) -> Any:
            if isinstance(v, Opaque) and v.tag == f'bit:flags:{b:x}':
                return 'lazy'
            d = p.decisions.get(f'bit:flags:{b:x}')
            return 'ok' if isinstance(v, bool) and d is not None and v is d else f'{v!r} (bit decided {d})'
        for k, b in (('real', RP), ('path', PN)):
            r = bitval(wb.get(k), b)
            if r not in ('lazy', 'ok'):
                bad.append(f'{k} = {r}')
        fo, gl = p.decisions.get(f'bit:flags:{FO:x}'), p.decisions.get(f'bit:flags:{GSL:x}')
        fv = wb.get('follow')
        exp = False if (fo is False or gl is True) else (True if (fo is True and gl is False) else None)
        if exp is None or fv is not exp:
            bad.append(f'FOLLOW={fo} GLOBSTARLONG={gl}: follow = {fv!r}')
        if not (isinstance(p.ret, Opaque) and p.ret.tag.startswith('_wcmatch:WcRegexp(')):
            bad.append(f'returns {p.ret!r}')
    ctx.ob(rule, f'{WP}:compile/WcRegexp-arguments', not bad and len(paths) >= 3, repo.loc(WP, cp.node),
           'WcRegexp(tuple(positive), tuple(negative), REALPATH, PATHNAME, FOLLOW ∧ ¬GLOBSTARLONG) from compile_pattern(patterns, flags, limit, exclude)',
           f'{len(paths)} rows agree' if not bad else sorted(set(bad))[0][:200], witness="globmatch('link/x', '**', G|L|GL, REALPATH) must agree with glob('**', G|L|GL)")
    from . import ginit
    ginit.rule_derived_attrs(ctx, rule, which={'follow_links', 'globstarlong'})
    from . import matchrules
    matchrules.rule_application_mode(ctx, rule, which={'follow-rule', 'application'})


def rule_negate_flags_normalised(ctx: Ctx, rule: str) -> None:
    ctx.text(rule, 'no_negate_flags is applied iff an `exclude` argument is given, in translate, compile_pattern and Glob.__init__ '
                   'alike; it clears NEGATE and NEGATEALL and nothing else')
    repo = ctx.repo
    ev = SymEval(repo)
    nn = repo.func(WP, 'no_negate_flags')
    paths = ev.tabulate(nn, {'flags': BV('flags')})
    both = repo.const(WP, 'NEGATE') | repo.const(WP, 'NEGATEALL')
    ok = all(isinstance(p.ret, BV) and p.ret.must_clear(both) and p.ret.known == both for p in paths)
    ctx.ob(rule, f'{WP}:no_negate_flags/table', ok, repo.loc(WP, nn.node), 'clears NEGATE and NEGATEALL, every other bit passes through',
           f'{len(paths)} paths', witness="fnmatch('!a', '!a', flags=NEGATE, exclude='b') must treat `!a` as a literal inclusion pattern")
    for mod, qn, test in ((WP, 'translate', 'exclude is not None'), (WP, 'compile_pattern', 'exclude is not None'),
                          ('glob', 'Glob.__init__', 'epats is not None')):
        fi = repo.func(mod, qn)
        q = fq(fi)
        calls = q.calls(lambda s: s.endswith('no_negate_flags'))
        gds = q.guards(calls[0]) if calls else set()
        extra = [t for t, pol in gds if t != test and not t.startswith('isinstance(')]
        ok = len(calls) == 1 and (test, 'T') in gds and not extra and \
            isinstance(enclosing_map(fi.node).get(id(calls[0])), ast.Assign) and \
            norm_src(enclosing_map(fi.node)[id(calls[0])].targets[0]) == 'flags'
        ctx.ob(rule, f'{mod}:{qn}/no_negate_flags', ok, repo.loc(mod, calls[0] if calls else fi.node), f'if {test}: flags = no_negate_flags(flags)',
               f'{len(calls)} call(s)' + (f'; additional conditions {extra}' if calls and extra else ''),
               witness="glob('!x', flags=NEGATE, exclude='y') must look for a file named `!x`")
        if calls and qn != 'Glob.__init__':
            # the call must precede the first use of flags by the expansion loop
            loops = [n.id for n in q.cfg.nodes if n.kind == 'for']
            okd = all(not q.cfg.dominates(l, q.node_of(calls[0])) for l in loops)
            ctx.ob(rule, f'{mod}:{qn}/no_negate_flags-before-loop', okd, repo.loc(mod, calls[0]), 'before the expansion loop', str(okd))


def rule_globstar_capture(ctx: Ctx, rule: str) -> None:
    ctx.text(rule, 'capture-group budget under REALPATH: globstar_capture = realpath ∧ ¬translate ∧ ¬_NO_GLOBSTAR_CAPTURE and '
                   'capture = translate (decision tables); the only bare capturing parenthesis is f"({globstar})" under '
                   '`if capture`, and capture is cleared on the `***` path')
    repo = ctx.repo
    from .c02 import bit_attr_table
    ev = SymEval(repo)
    paths = wcparse_init_paths(repo)
    fn = repo.func(WP, 'WcParse.__init__')
    P, R, T, NC = 'flags&PATHNAME', 'flags&REALPATH', 'flags&_TRANSLATE', 'flags&_NO_GLOBSTAR_CAPTURE'
    for name, oracle, wit in (('globstar_capture', lambda g: g(R) and g(P) and not g(T) and not g(NC),
                               "_fs_match reads every group as a `**` capture; translate must not add groups for `**`"),
                              ('capture', lambda g: g(T), 'extglob capture groups exist only in translate output'),
                              ('translate', lambda g: g(T), '')):
        ok, why, rows = bit_attr_table(ev, paths, name, oracle)
        ctx.count('decision_table_rows', rows)
        ctx.ob(rule, f'{WP}:WcParse.__init__/self.{name}', ok, repo.loc(WP, fn.node), 'documented predicate', f'{rows} rows agree' if ok else why, witness=wit)
    hs = repo.func(WP, 'WcParse._handle_star')
    from .seqrules import star_table
    import re as _re
    paths = star_table(repo)
    from ..symeval import focus, _tag
    bad_w, bad_u = [], []
    n_wrapped = n_plain = 0
    for p in paths:
        focus(p)
        d = p.decisions
        vals = [e[2][0] for e in p.of('call') if e[1].endswith('.append') and e[2]]
        gsc = d.get('self.globstar_capture')
        stars = sum(1 for k, v in d.items() if v and _re.fullmatch(r"next\(i\)(#\d+)? == '\*'", k))
        triple = stars >= 2 and d.get('self.globstarlong') is True
        for v in vals:
            t = _tag(v)
            if 'gstar' not in t:
                continue
            wrapped = isinstance(v, Tok) and v.parts and v.parts[0] == '(' and v.parts[-1] == ')'
            if wrapped:
                n_wrapped += 1
                if gsc is not True or triple:
                    bad_w.append(f'globstar_capture={gsc} triple-star={triple}: appends {t[:60]}')
            else:
                n_plain += 1
                if gsc is True and not triple and stars >= 1:
                    bad_u.append(f'globstar_capture=True, `**`: appends {t[:60]} without the capturing parenthesis')
    if n_wrapped + n_plain < 8:
        raise AnalysisError(f'_handle_star: table has {n_wrapped} capturing / {n_plain} plain globstar emissions')
    ctx.ob(rule, f'{WP}:WcParse._handle_star/globstar-capture-under-if-capture', not bad_w, repo.loc(WP, hs.node),
           'the globstar fragment is wrapped in a capturing parenthesis only when self.globstar_capture holds', f'{n_wrapped} capturing rows agree' if not bad_w else bad_w[0])
    ctx.ob(rule, f'{WP}:WcParse._handle_star/capture-definitions', not bad_u and not any('triple-star=True' in b for b in bad_w), repo.loc(WP, hs.node),
           'with globstar_capture every `**` is captured; `***` never is', f'{n_plain} plain rows agree' if not bad_u else bad_u[0],
           witness="globmatch('link/x', '***/x', GL, REALPATH) must follow the link: `***` leaves no capture")
    # every other construction of a string that opens a bare capturing parenthesis in WcParse
    others = []

    def opens_capture(e: ast.AST) -> bool:
        first = None
        if isinstance(e, ast.JoinedStr) and e.values:
            first = e.values[0]
        elif isinstance(e, ast.BinOp) and isinstance(e.op, ast.Add):
            x = e
            while isinstance(x, ast.BinOp) and isinstance(x.op, ast.Add):
                x = x.left
            first = x
        elif isinstance(e, ast.Call) and isinstance(e.func, ast.Attribute) and e.func.attr == 'format':
            first = e.func.value
        return isinstance(first, ast.Constant) and isinstance(first.value, str) and first.value.startswith('(') and not first.value.startswith('(?')
    for fi in repo.cls(WP, 'WcParse').methods.values():
        if fi is hs:
            continue  # decided on the table above
        par = {}
        for j in walk_no_nested(fi.node):
            for ch in ast.iter_child_nodes(j):
                par[id(ch)] = j
        for j in walk_no_nested(fi.node):
            if opens_capture(j) and not (isinstance(par.get(id(j)), ast.BinOp) and isinstance(par[id(j)].op, ast.Add) and par[id(j)].left is j):
                others.append(f'{fi.qualname}: {norm_src(j)[:40]}')
    ctx.ob(rule, f'{WP}:WcParse/no-other-bare-capture', not others, repo.loc(WP, hs.node), 'no other expression builds a string that opens a bare capturing parenthesis', str(others))


def rule_no_root_first(ctx: Ctx, rule: str) -> None:
    ctx.text(rule, 'a relative pattern never matches an absolute path: in WcParse.root, when realpath ∧ ¬root_specified, the '
                   "platform's _NO_ROOT / _NO_WIN_ROOT assertion is appended before the token loop")
    repo = ctx.repo
    rt = repo.func(WP, 'WcParse.root')
    q = fq(rt)
    apps = [c for c in q.calls(lambda s: s == 'current.append') if c.args and isinstance(c.args[0], ast.IfExp) and '_NO_ROOT' in norm_src(c.args[0])]
    ok = len(apps) == 1
    if ok:
        e = apps[0].args[0]
        sel = (norm_src(e.test), norm_src(e.body), norm_src(e.orelse))
        ok = sel in (('self.win_drive_detect', '_NO_WIN_ROOT', '_NO_ROOT'), ('not self.win_drive_detect', '_NO_ROOT', '_NO_WIN_ROOT'))
        g = q.guards(apps[0])
        ok = ok and ('root_specified', 'F') in g and ('self.realpath', 'T') in g
        fors = [n.id for n in q.cfg.nodes if n.kind == 'for']
        ok = ok and all(not q.cfg.dominates(f, q.node_of(apps[0])) for f in fors)
    ctx.ob(rule, f'{WP}:WcParse.root/no-root-assertion', ok, repo.loc(WP, apps[0] if apps else rt.node),
           'if not root_specified and self.realpath: current.append(_NO_WIN_ROOT if self.win_drive_detect else _NO_ROOT), before the loop',
           norm_src(apps[0])[:100] if apps else 'missing', witness="globmatch('/etc/passwd', '**', G, REALPATH) must be False")


def rule_existence_gate(ctx: Ctx, rule: str) -> None:
    ctx.text(rule, 'existence gate: in _Match.match the call of _match_real is dominated by the true edge of `exists`, whose '
                   'reaching definitions are only lexists / lstat outcomes on the root-joined (or absolute) name')
    repo = ctx.repo
    mm = repo.func('_wcmatch', '_Match.match')
    from ..symeval import focus, _tag
    pars = [p for p in mm.params() if p != 'self']
    if len(pars) != 2:
        raise AnalysisError('_Match.match: (root_dir, dir_fd) expected')
    rows = []
    for pt in (0, 1):
        ev = SymEval(repo, inline=False, explore_handlers=True, max_paths=5000)
        rows += ev.tabulate(mm, {pars[0]: Opaque('root_dir'), pars[1]: Opaque('dir_fd')}, Obj(('_wcmatch', '_Match'), {'real': True, 'ptype': pt}))
    MR = '_wcmatch:_Match._match_real'
    bad_g, bad_d, bad_l, bad_r = [], [], [], []
    n = 0
    for p in rows:
        focus(p)
        if p.raised:
            continue
        n += 1
        d = p.decisions
        ab = [v for k, v in d.items() if k.startswith('RegexConst(') and k.endswith('.match(self.filename) is not None')]
        lex = [e for e in p.of('call') if e[1] == 'os.path.lexists']
        lst = [e for e in p.of('call') if e[1] == 'os.lstat']
        called = [e for e in p.of('call') if e[1] == MR]
        E = None
        if lex:
            arg = _tag(lex[0][2][0]) if lex[0][2] else ''
            E = d.get(f'os.path.lexists({arg})')
            if len(ab) != 1:
                bad_d.append('the name is not tested for being absolute before the existence test')
            elif ab[0] and arg != 'self.filename':
                bad_d.append(f'absolute name: lexists({arg[:60]})')
            elif not ab[0] and not (arg.startswith('os.path.join(') and arg.endswith(', self.filename)')):
                bad_d.append(f'relative name: lexists({arg[:60]})')
            if len(lex) != 1 or lst:
                bad_d.append(f'{len(lex)} lexists / {len(lst)} lstat calls on one path')
        elif lst:
            at = p.events.index(lst[0])
            failed = any(e[0] == 'except' for e in p.events[at:])
            E = not failed
            arg = _tag(lst[0][2][0]) if lst[0][2] else ''
            if not (arg.startswith('os.path.join(') and arg.endswith(', self.filename)')) or {k: _tag(v) for k, v in lst[0][3].items()} != {'dir_fd': 'dir_fd'}:
                bad_l.append(f'os.lstat({arg[:60]}, {({k: _tag(v) for k, v in lst[0][3].items()})})')
            if d.get('dir_fd is not None') is not True:
                bad_l.append('lstat relative to a descriptor although none is given')
        if E is None and any(e[0] == 'except' for e in p.events) and d.get('dir_fd is not None') is True:
            E = False  # the lstat failed (the handler was entered before anything else happened)
        if E is None:
            bad_g.append('a path through the REALPATH branch that does not establish existence')
            continue
        if bool(called) != bool(E):
            bad_g.append(f'exists={E}: _match_real called {len(called)} time(s)')
        if called:
            a_ = called[0][2]
            if len(a_) != 3 or _tag(a_[0]) not in ('{}', 'dict()') or _tag(p.ret) != f'{MR}(' + ', '.join(_tag(x) for x in a_) + ')':
                bad_r.append(f'_match_real({[_tag(x)[:30] for x in a_]}) -> returns {_tag(p.ret)[:60]}')
        elif p.ret is not False:
            bad_r.append(f'not on disk: returns {_tag(p.ret)[:60]}')
    if n < 12:
        raise AnalysisError(f'_Match.match: only {n} rows through the REALPATH branch')
    site = repo.loc('_wcmatch', mm.node)
    ctx.ob(rule, '_wcmatch:_Match.match/match_real-under-exists', not bad_g, site, 'self._match_real(...) is called iff the name exists on disk (lexists / lstat did not fail)',
           f'{n} rows agree' if not bad_g else sorted(set(bad_g))[0], witness="globmatch('nope', '*', REALPATH) must be False")
    ctx.ob(rule, '_wcmatch:_Match.match/exists-definitions', not bad_d, site, 'absolute name: lexists(name); relative, no descriptor: lexists(join(root, name))',
           'as expected' if not bad_d else sorted(set(bad_d))[0], witness='`exists = True` unconditionally lets REALPATH match names that are not on disk')
    ctx.ob(rule, '_wcmatch:_Match.match/exists-true-after-lstat', not bad_l, site, 'with a descriptor: os.lstat(join(root, name), dir_fd=dir_fd) succeeded', 'as expected' if not bad_l else sorted(set(bad_l))[0])
    ctx.ob(rule, '_wcmatch:_Match.match/real-branch-returns', not bad_r, site, 'the REALPATH branch returns _match_real(<fresh cache>, root, dir_fd) or False',
           'as expected' if not bad_r else sorted(set(bad_r))[0])


# ================================================================================================ C05
def rule_case_fold_agreement(ctx: Ctx, rule: str) -> None:
    ctx.text(rule, 'case-fold agreement of literal segments (decision tables): Glob._match_literal compares a.lower() with b exactly when '
                   'not self.case_sensitive and a with b otherwise; _get_matcher hands _match_literal the literal folded under the same '
                   'condition, returns None for None and the pattern\'s fullmatch otherwise; case_sensitive = get_case(self.flags)')
    from .common import tabulate_method
    from ..symeval import BoundMethod
    repo = ctx.repo
    ml = repo.func('glob', 'Glob._match_literal')
    ev, paths = tabulate_method(repo, 'glob', 'Glob._match_literal', {}, [Opaque('a'), Opaque('b')], inline=False)
    bad = []
    for p in paths:
        cs = p.decisions.get('self.case_sensitive')
        cmp_atoms = {k: v for k, v in p.decisions.items() if k != 'self.case_sensitive'}
        want = 'a == b' if cs else 'a.lower() == b'
        alt = 'b == a' if cs else 'b == a.lower()'
        if cs is None or len(cmp_atoms) != 1 or (want not in cmp_atoms and alt not in cmp_atoms) or p.ret is not list(cmp_atoms.values())[0]:
            bad.append(f'case_sensitive={cs}: decides {sorted(cmp_atoms)} returns {p.ret!r}')
    ctx.ob(rule, 'glob:Glob._match_literal/shape', not bad and len(paths) == 4, repo.loc('glob', ml.node), 'a.lower() == b if not self.case_sensitive else a == b',
           f'{len(paths)} rows agree' if not bad else bad[0], witness="glob('README', flags=IGNORECASE) must find readme")
    gm = repo.func('glob', 'Glob._get_matcher')
    ev, paths = tabulate_method(repo, 'glob', 'Glob._get_matcher', {}, [Opaque('target')], inline=False)
    bad2, bad3 = [], []
    n_lit = 0
    for p in paths:
        parts = p.calls_to('functools.partial')
        if p.decisions.get('target is not None') is False:
            if p.ret is not None or parts:
                bad3.append(f'None target: returns {p.ret!r}')
            continue
        lit = [v for k, v in p.decisions.items() if k.startswith('isinstance(target, ')]
        if len(lit) != 1:
            bad3.append(f'type test {lit}')
            continue
        if not lit[0]:
            if p.ret != Opaque('target.fullmatch') or parts:
                bad3.append(f'pattern target: returns {p.ret!r}')
            continue
        n_lit += 1
        cs = p.decisions.get('self.case_sensitive')
        if len(parts) != 1 or cs is None:
            bad2.append(f'case_sensitive={cs}: {len(parts)} partial(s)')
            continue
        _n, a_, k_, _c = parts[0]
        fn_ok = len(a_) == 1 and isinstance(a_[0], BoundMethod) and a_[0].fn.fq == 'glob:Glob._match_literal'
        b_par = [x for x in ml.params() if x != 'self'][1]
        want = Opaque('target') if cs else Opaque('target.lower()')
        if not fn_ok or set(k_) != {b_par} or k_[b_par] != want:
            bad2.append(f'case_sensitive={cs}: partial({a_}, {k_})')
    ctx.ob(rule, 'glob:Glob._get_matcher/prefold', not bad2 and n_lit == 2, repo.loc('glob', gm.node),
           'partial(self._match_literal, b=target.lower() iff not self.case_sensitive else target)', 'as expected' if not bad2 else bad2[0][:200],
           witness="glob('ReadMe', flags=IGNORECASE): the stored literal must be folded like the candidate")
    ctx.ob(rule, 'glob:Glob._get_matcher/other-targets', not bad3, repo.loc('glob', gm.node), 'None -> None; compiled pattern -> its fullmatch',
           'as expected' if not bad3 else bad3[0][:200])
    from . import ginit
    ginit.rule_derived_attrs(ctx, rule, which={'case_sensitive'})


def store_rows(repo: Any) -> list:
    """Decision table of _GlobSplit.store(value, l, dir_only) with its effects; each row reduced to the part it stores."""
    from .common import cached, tabulate_method
    from ..symeval import focus, _tag

    def build() -> list:
        _ev, paths = tabulate_method(repo, 'glob', '_GlobSplit.store', {'flags': BV('sflags')}, [Opaque('value'), Opaque('l'), Opaque('dir_only')],
                                     inline=False)
        out = []
        for p in paths:
            focus(p)
            parts = p.calls_to('glob:_GlobPart')
            comp = p.calls_to('_wcparse:_compile')
            puts = [e for e in p.events if (e[0] == 'call' and e[1].replace("'", '') in ('l.append',)) or (e[0] == 'setitem' and _tag(e[1]).rstrip("'") == 'l')]
            out.append((p, parts, comp, puts))
        return out
    return cached(repo, 'cglob:store_rows', build)


def rule_magic_classification(ctx: Ctx, rule: str) -> None:
    ctx.text(rule, "_GlobSplit.is_magic uses the symbol table returned by _get_magic_symbols with the split object's own flags "
                   '(minus NEGATE); a part is compiled iff it is magic, with the same flags')
    from . import seqrules
    seqrules.rule_split_points(ctx, rule)
    repo = ctx.repo
    gi = repo.func('glob', '_GlobSplit.__init__')
    ms = [s for s in walk_no_nested(gi.node) if isinstance(s, (ast.Assign, ast.AnnAssign)) and
          norm_src(s.targets[0] if isinstance(s, ast.Assign) else s.target) == 'self.magic_symbols']
    ok = len(ms) == 1 and norm_src(ms[0].value) == '_wcparse._get_magic_symbols(pattern, self.unix, self.flags)[0]'
    ctx.ob(rule, 'glob:_GlobSplit.__init__/magic_symbols', ok, repo.loc('glob', gi.node), '_get_magic_symbols(pattern, self.unix, self.flags)[0]',
           norm_src(ms[0].value) if ms else 'none', witness="glob('@(a)', flags=EXTGLOB): the segment must be compiled, not looked up literally")
    from .common import tabulate_method, passes_through, decided_bits
    from ..symeval import focus, _tag
    st = repo.func('glob', '_GlobSplit.store')
    bad_c, bad_m = [], []
    n = 0
    for p, parts, comp, puts in store_rows(repo):
        focus(p)
        if not parts:
            continue
        n += 1
        magic = p.decisions.get('glob:_GlobSplit.is_magic(value)')
        if magic is None:
            bad_m.append('a part is stored without asking is_magic(value)')
            continue
        if len(comp) != (1 if magic else 0):
            bad_c.append(f'magic={magic}: {len(comp)} compile(s)')
        elif comp:
            a_ = comp[0][1]
            if len(a_) != 2 or a_[0] != Opaque('value') or not passes_through(a_[1], 'sflags', 0, decided_bits(p, 'sflags')):
                bad_c.append(f'_compile({[_tag(x) for x in a_]})')
        f0 = parts[0][1][0] if parts[0][1] else None
        want = f'_wcparse:_compile(value, {_tag(comp[0][1][1])})' if magic and comp and len(comp[0][1]) == 2 else 'value'
        if _tag(f0) != want:
            bad_c.append(f'magic={magic}: pattern field {_tag(f0)[:60]}')
    ctx.ob(rule, 'glob:_GlobSplit.store/compile-iff-magic', not bad_c and n >= 8, repo.loc('glob', st.node),
           'pattern field = _wcparse._compile(value, self.flags) iff is_magic(value), else the text itself', f'{n} rows agree' if not bad_c else sorted(set(bad_c))[0])
    ctx.ob(rule, 'glob:_GlobSplit.store/magic-definition', not bad_m and n >= 8, repo.loc('glob', st.node), 'magic = self.is_magic(value)',
           'as expected' if not bad_m else bad_m[0])
    im = repo.func('glob', '_GlobSplit.is_magic')
    _ev, ips = tabulate_method(repo, 'glob', '_GlobSplit.is_magic', {}, [Opaque('name')], inline=False)
    atom = 'any(comp(elem(self.magic_symbols) in name for self.magic_symbols))'
    ok3 = len(ips) == 2 and all(list(p.decisions) == [atom] and p.ret is p.decisions[atom] for p in ips) or \
        (len(ips) == 1 and ips[0].ret == Opaque(atom))
    ctx.ob(rule, 'glob:_GlobSplit.is_magic/shape', ok3, repo.loc('glob', im.node), 'any(c in name for c in self.magic_symbols)',
           str([(p.decisions, p.ret) for p in ips])[:160] if not ok3 else 'as expected')


def rule_specials_and_start(ctx: Ctx, rule: str) -> None:
    ctx.text(rule, 'Glob._iter and Glob._get_starting_paths as decision tables with yield / call events: `.` and `..` come only from the '
                   'two fake entries (for each of self.specials: yield it as a hidden non-link directory) and only after os.scandir '
                   'succeeded; a scanned entry is yielded as (name, is_dir, hidden, is_link) exactly when not dir_only or it is a '
                   'directory, with is_link = is_symlink() for directories and False otherwise; literal first segments that are `.` / '
                   '`..` or absolute bypass the case-discovering scan; the scan keeps a name iff it is not a fake entry and the matcher '
                   '(if any) accepts it')
    from .common import tabulate_method
    from ..symeval import focus, _tag
    repo = ctx.repo
    it = repo.func('glob', 'Glob._iter')
    site = repo.loc('glob', it.node)
    _ev, paths = tabulate_method(repo, 'glob', 'Glob._iter', {}, [Opaque('curdir'), Opaque('dir_only'), Opaque('deep')], inline=False, max_paths=20000)
    bad_f, bad_w, bad_y, bad_l, bad_t = [], [], [], [], []
    n_fd = 0
    n_fake = n_real = 0
    for p in paths:
        focus(p)
        scans = [i for i, e in enumerate(p.events) if e[0] == 'call' and e[1] == 'os.scandir']
        ys = [(i, e) for i, e in enumerate(p.events) if e[0] == 'yield']
        fakes = [(i, e) for i, e in ys if isinstance(e[1], tuple) and len(e[1]) == 4 and e[1][0] == Opaque('elem(self.specials)')]
        reals = [(i, e) for i, e in ys if (i, e) not in fakes]
        if p.raised or not scans:
            if ys:
                bad_w.append('entries yielded although the directory was not opened')
            continue
        if len(fakes) != 1 or fakes[0][1][1][1:] != (True, True, False) or not any(c.startswith('for:self.specials') for c in fakes[0][1][3]):
            bad_f.append(f'{len(fakes)} fake-entry yields: {[ _tag(e[1])[:60] for _i, e in fakes]}')
        else:
            n_fake += 1
            if fakes[0][0] < scans[0]:
                bad_w.append('fake entries yielded before os.scandir')
        ent = [k for k in p.decisions if k.endswith('.is_dir()') and k.startswith('elem(os.scandir(')]
        isdir = p.decisions.get(ent[0]) if ent else None
        donly = p.decisions.get('dir_only')
        errs = [k for k in p.decisions if k.startswith('exc')]
        want = (donly is False) or (isdir is True)
        if donly is None and isdir is None and not reals:
            continue  # the entry loop did not reach the decision (an entry raised OSError)
        if len(reals) != (1 if want else 0):
            bad_y.append(f'dir_only={donly} is_dir={isdir}: {len(reals)} entry yield(s)')
            continue
        if reals:
            n_real += 1
            v = reals[0][1][1]
            # the name: the entry's own, except that scanning a descriptor reports str names whatever the pattern type is, so a bytes
            # walker must encode them (os.fsencode) -- decided by a type test of one of the walker's str/bytes twins
            nm = _tag(v[0]) if isinstance(v, tuple) and v else ''
            raw = nm.startswith('elem(os.scandir(') and nm.endswith(').name')
            enc = nm.startswith('os.fsencode(elem(os.scandir(') and nm.endswith(').name)')
            by_fd = 'elem(os.scandir(os.open(' in nm
            tt = [v2 for k2, v2 in p.decisions.items() if k2.startswith('isinstance(self.') and k2.endswith(', bytes)')]
            if by_fd and any(k2.startswith('os.open(') and k2.endswith(' is not None') and v2 is False for k2, v2 in p.decisions.items()):
                pass  # os.open() returns a descriptor, never None: an infeasible row
            elif by_fd:
                n_fd += 1
                if len(tt) != 1:
                    bad_t.append('names read from a descriptor are str: the walker does not ask whether it is a bytes walker')
                elif tt[0] != enc or not (raw or enc):
                    bad_t.append(f'bytes walker={tt[0]}: the name yielded is {nm[:70]}')
            elif not raw:
                bad_t.append(f'path scan: the name yielded is {nm[:70]}')
            hid = _tag(v[2]) if isinstance(v, tuple) and len(v) > 2 else ''
            okv = isinstance(v, tuple) and len(v) == 4 and (raw or enc) and \
                (v[1] is isdir or _tag(v[1]) == ent[0] if ent else _tag(v[1]).endswith('.is_dir()')) and hid == f'glob:Glob._is_hidden({nm})'
            if not okv:
                bad_y.append(f'yields {_tag(v)[:100]}')
            else:
                link = v[3]
                if isdir is True:
                    okl = _tag(link).endswith('.is_symlink()') and _tag(link).startswith('elem(os.scandir(')
                    if isinstance(link, bool):  # `is_dir and entry.is_symlink()`: the truth of the link test, decided on this row
                        sl = [v for k, v in p.decisions.items() if k.endswith('.is_symlink()') and k.startswith('elem(os.scandir(')]
                        okl = len(sl) == 1 and sl[0] is link
                elif isdir is False:
                    okl = link is False or (bool(ent) and _tag(link) == ent[0])  # `is_dir and entry.is_symlink()`: the false is_dir itself
                else:
                    okl = False
                if not okl:
                    bad_l.append(f'is_dir={isdir}: is_link = {_tag(link)[:60]}')
    if n_fake < 2 or n_real < 2:
        raise AnalysisError(f'Glob._iter: only {n_fake} fake-entry / {n_real} entry rows')
    ctx.ob(rule, 'glob:Glob._iter/fake-entries', not bad_f, site, 'for each of self.specials: yield it, True, True, False', f'{n_fake} rows agree' if not bad_f else bad_f[0],
           witness="glob('.*', flags=SCANDOTDIR) returns `.` and `..` as hidden directories, never as links")
    ctx.ob(rule, 'glob:Glob._iter/fake-entries-after-scandir', not bad_w, site, 'nothing is yielded unless os.scandir succeeded, the fake entries come after it',
           'as expected' if not bad_w else bad_w[0], witness="with a regular file f, glob('f/..') returns ['f/..'] although the path does not exist")
    ctx.ob(rule, 'glob:Glob._iter/entry-yield', not bad_y, site, 'not dir_only or is_dir: yield entry.name, is_dir, hidden, is_link', f'{n_real} rows agree' if not bad_y else sorted(set(bad_y))[0],
           witness="glob('*/') must return directories only")
    ctx.ob(rule, 'glob:Glob._iter/names-have-the-pattern-type', not bad_t and n_fd >= 2, site,
           'entry names are yielded as they come, except after a descriptor scan (str names) in a bytes walker: os.fsencode(name)',
           f'{n_fd} descriptor rows agree' if not bad_t and n_fd >= 2 else (sorted(set(bad_t))[0] if bad_t else f'{n_fd} descriptor rows'),
           witness="glob.glob(b'*', dir_fd=fd) must return what glob.glob(b'*', root_dir=b'.') returns, not raise TypeError (str and bytes mixed in os.path.join)")
    ctx.ob(rule, 'glob:Glob._iter/is_link', not bad_l, site, 'is_link = entry.is_symlink() for directories, False otherwise', 'as expected' if not bad_l else sorted(set(bad_l))[0],
           witness="glob('**', GLOBSTAR) must not descend a symlinked directory")
    sp = repo.func('glob', 'Glob._get_starting_paths')
    _ev, sps = tabulate_method(repo, 'glob', 'Glob._get_starting_paths', {}, [Opaque('curdir'), Opaque('dir_only')], inline=False)
    bad_g, bad_k = [], []
    n_scan = 0
    for p in sps:
        focus(p)
        d = p.decisions
        scan = p.calls_to('glob:Glob._iter')
        literal = d.get('self.is_abs_pattern') is True or d.get('glob:Glob._is_parent(curdir)') is True or d.get('glob:Glob._is_this(curdir)') is True
        if literal:
            if scan or not (isinstance(p.ret, list) and len(p.ret) == 1 and p.ret[0] == (Opaque('curdir'), True)):
                bad_g.append(f'literal start: returns {_tag(p.ret)[:60]}, {len(scan)} scan(s)')
            continue
        if len(scan) != 1 or [_tag(x) for x in scan[0][1]] != ['None', 'dir_only', 'False']:
            bad_g.append(f'scan: {[[_tag(x) for x in c[1]] for c in scan]}')
            continue
        n_scan += 1
        S = [v for k, v in d.items() if k.endswith('[0] in self.specials') and k.startswith('elem(')]
        N = d.get('glob:Glob._get_matcher(curdir) is not None')
        Mt = [v for k, v in d.items() if k.startswith('glob:Glob._get_matcher(curdir)(elem(')]
        want = (S == [False]) and (N is False or Mt == [True])
        apps = [e for e in p.of('call') if e[1].endswith('.append')]
        kept = bool(apps) or (isinstance(p.ret, Opaque) and p.ret.tag.startswith('comp(('))
        if len(S) != 1 or kept != want:
            bad_k.append(f'special={S} matcher-present={N} matcher-accepts={Mt}: kept={kept}')
        elif apps:
            v = apps[0][2][0]
            if not (isinstance(v, tuple) and len(v) == 2 and _tag(v[0]).endswith(')[0]') and _tag(v[1]).endswith(')[1]')):
                bad_k.append(f'keeps {_tag(v)[:60]}')
    # `.` / `..` are recognised by whole-name equality
    from .common import as_bool
    for meth, want_atoms in (('_is_parent', [{'name == self.specials[1]'}]), ('_is_this', [{'name == self.specials[0]', 'name == self.sep'}])):
        fm_ = repo.func('glob', f'Glob.{meth}')
        _e, ps_ = tabulate_method(repo, 'glob', f'Glob.{meth}', {}, [Opaque('name')], inline=False)
        atoms = set()
        okm = True
        for p in ps_:
            atoms |= set(p.decisions)
            r = as_bool(p, p.ret)
            okm = okm and isinstance(r, bool) and r == any(p.decisions.values())
        if len(ps_) == 1 and isinstance(ps_[0].ret, Opaque):
            atoms, okm = {ps_[0].ret.tag}, True
        okm = okm and atoms in want_atoms
        ctx.ob(rule, f'glob:Glob.{meth}/whole-name', okm, repo.loc('glob', fm_.node), ' or '.join(sorted(want_atoms[0])), str(sorted(atoms)),
               witness="glob('..cache/') must look `..cache` up like any other name, not treat it as the parent directory")
    ctx.ob(rule, 'glob:Glob._get_starting_paths/guard', not bad_g and n_scan >= 2, repo.loc('glob', sp.node),
           'absolute pattern, `.` or `..`: [(curdir, True)] without scanning; otherwise scan the root with _iter(None, dir_only, False)',
           'as expected' if not bad_g else bad_g[0], witness="glob('../x') must follow `..` as written")
    ctx.ob(rule, 'glob:Glob._get_starting_paths/filter', not bad_k and n_scan >= 2, repo.loc('glob', sp.node),
           'a scanned name is kept iff it is not in self.specials and (there is no matcher or the matcher accepts it)', f'{n_scan} rows agree' if not bad_k else sorted(set(bad_k))[0],
           witness="glob('ab*') must not start from `.` or `..`")


def rule_globstar_handover(ctx: Ctx, rule: str) -> None:
    ctx.text(rule, 'Glob._glob(curdir, part, rest) as a decision table with call / yield events: a magic globstar part takes the '
                   'following part (if any) as the thing to find at every depth and searches with deep=True, '
                   'globstar_follow=part.is_globstarlong; when nothing follows and curdir is non-empty it first yields (curdir + '
                   'separator, True); a part that is not dir_only searches one level and yields what is found; a dir_only part '
                   'searches one level for directories; in the globstar and directory arms every result is handed to _glob with the '
                   'next remaining part and a copy of the rest, or yielded when no part remains')
    from .common import tabulate_method
    from ..symeval import focus, _tag
    repo = ctx.repo
    gl = repo.func('glob', 'Glob._glob')
    site = repo.loc('glob', gl.node)
    _ev, paths = tabulate_method(repo, 'glob', 'Glob._glob', {}, [Opaque('curdir'), Opaque('part'), Opaque('rest')], inline=False, max_paths=5000)
    bad = {'globstar-arm': [], 'file-arm': [], 'dir-arm': [], 'zero-segment': [], 'hand-over': [], 'globstar_end': []}
    seen = {'globstar': 0, 'file': 0, 'dir': 0}
    GD, GM, G = 'glob:Glob._glob_dir', 'glob:Glob._get_matcher', 'glob:Glob._glob'
    for p in paths:
        focus(p)
        d = p.decisions
        star = d.get('part.is_magic') is True and d.get('part.is_globstar') is True
        if any(k.endswith('.pop(0) is not None') and v and d.get(k[:-len(' is not None')]) is False for k, v in d.items()):
            continue  # a part that is not None but falsy: _GlobPart is a six-field tuple, always truthy
        gds = p.calls_to(GD)
        if len(gds) != 1:
            bad['globstar-arm' if star else 'dir-arm'].append(f'{len(gds)} searches on one path')
            continue
        name, a, k, _c = gds[0]
        b = {'curdir': a[0] if a else k.get('curdir'), 'matcher': a[1] if len(a) > 1 else k.get('matcher'),
             'dir_only': a[2] if len(a) > 2 else k.get('dir_only', False), 'deep': a[3] if len(a) > 3 else k.get('deep', False),
             'globstar_follow': a[4] if len(a) > 4 else k.get('globstar_follow', False)}
        res = f'{GD}(' + ', '.join([_tag(x) for x in a] + [f'{kk}={_tag(v)}' for kk, v in k.items()]) + ')'
        pops = [e for e in p.of('call') if e[1].replace("'", '') == 'rest.pop' and e[2] == [0]]
        ys = p.of('yield')
        rec = p.calls_to(G)

        def popped(i: int) -> str:
            return 'rest' + "'" * i + '.pop(0)'

        def handover(after: str | None, arm: str) -> None:
            """after: tag of the part to continue with (None: no pop happened)."""
            elem = f'elem({res})'
            want_rec = after is not None and (d.get(after) is True or (after not in d and d.get(f'{after} is not None') is True))
            final = ys[-1][1] if ys else None
            if want_rec:
                okh = len(rec) == 1 and [_tag(x) for x in rec[0][1]] == [f'{elem}[0]', after, popped_rest + '[:]'] and not rec[0][2] and \
                    isinstance(final, tuple) and final[0] == 'from' and _tag(final[1]).startswith(f'{G}(')
            else:
                okh = not rec and ((isinstance(final, tuple) and len(final) == 2 and final[0] != 'from' and
                                    [_tag(x) for x in final] == [f'{elem}[0]', f'{elem}[1]']) or
                                   (isinstance(final, Opaque) and final.tag == elem))  # the (path, is_dir) pair as it came
            if not okh:
                bad['hand-over'].append(f'{arm}: continues with {after} (truthy={d.get(after) if after else None}): {len(rec)} recursive call(s), last yield {_tag(final)[:70] if final is not None else None}')

        if star:
            seen['globstar'] += 1
            has_rest = d.get('rest')
            follow = popped(0) if has_rest else None
            end = (follow is None) or d.get(f'{follow} is not None') is False
            # (the parts of `rest` are records, never None: whether a part follows is decided by `rest` being empty; an additional
            # `is None` test of the popped part is accepted, not required)
            if has_rest is None:
                bad['globstar_end'].append('the end of the globstar is not decided by whether a part follows')
            tgt = 'None' if end else f'{follow}.pattern'
            donly = 'part.dir_only' if end else f'{follow}.dir_only'
            okg = _tag(b['curdir']) == 'curdir' and _tag(b['matcher']) == f'{GM}({tgt})' and _tag(b['dir_only']) == donly and b['deep'] is True and \
                _tag(b['globstar_follow']) == 'part.is_globstarlong'
            if not okg:
                bad['globstar-arm'].append(f'end={end}: {res[:140]}')
            zero = [y for y in ys if isinstance(y[1], tuple) and len(y[1]) == 2 and _tag(y[1][0]) == 'os.path.join(curdir, self.empty)' and y[1][1] is True]
            want_zero = end and d.get('curdir') is True
            if len(zero) != (1 if want_zero else 0) or (end and 'curdir' not in d) or \
                    (zero and p.events.index(next(e for e in p.events if e[0] == 'yield' and e[1] is zero[0][1])) >
                     p.events.index(next(e for e in p.events if e[0] == 'call' and e[1] == GD))):
                bad['zero-segment'].append(f'end={end} curdir={d.get("curdir")}: {len(zero)} zero-segment yield(s)')
            # the part after the one searched for
            npop = len(pops)
            if has_rest:
                # second pop only if something is left
                rest1 = "rest'"
                left = d.get(rest1)
                after = ("rest'" + '.pop(0)') if left else None
                popped_rest = "rest''" if left else "rest'"
            else:
                after = None
                popped_rest = 'rest'
            handover(after, 'globstar')
        elif d.get('part.dir_only') is False:
            seen['file'] += 1
            okf = _tag(b['curdir']) == 'curdir' and _tag(b['matcher']) == f'{GM}(part.pattern)' and b['dir_only'] is False and b['deep'] is False and \
                b['globstar_follow'] is False and not rec and len(ys) == 1 and isinstance(ys[0][1], tuple) and ys[0][1][0] == 'from' and _tag(ys[0][1][1]) == res
            if not okf:
                bad['file-arm'].append(res[:120])
        else:
            seen['dir'] += 1
            okd = _tag(b['curdir']) == 'curdir' and _tag(b['matcher']) == f'{GM}(part.pattern)' and b['dir_only'] is True and b['deep'] is False and \
                b['globstar_follow'] is False
            if not okd:
                bad['dir-arm'].append(res[:120])
            has_rest = d.get('rest')
            after = popped(0) if has_rest else None
            popped_rest = "rest'" if has_rest else 'rest'
            handover(after, 'directory')
    if min(seen.values()) < 1 or len(paths) < 10:
        raise AnalysisError(f'Glob._glob: arms not all reached in the table: {seen}')
    ctx.count(f'{rule}:rows', len(paths))
    texts = {'globstar-arm': '_glob_dir(curdir, matcher(<following or None>), <its dir_only>, deep=True, globstar_follow=part.is_globstarlong)',
             'file-arm': 'yield from _glob_dir(curdir, matcher(part.pattern)) -- no recursion', 'dir-arm': '_glob_dir(curdir, matcher(part.pattern), True)',
             'zero-segment': 'globstar at the end and curdir non-empty: yield os.path.join(curdir, self.empty), True -- before searching',
             'globstar_end': 'the globstar is at the end iff no part follows', 'hand-over': 'each result goes to self._glob(path, <next part>, rest[:]) if a part remains, else it is yielded'}
    wit = {'globstar-arm': "glob('**/x', GLOBSTAR) must search all depths; `***` follows links", 'zero-segment': "glob('d/**', GLOBSTAR) includes 'd/'; glob('**') does not include ''",
           'hand-over': "glob('a/**/b/c') must continue with `c` below every `b` found"}
    for key in ('globstar-arm', 'file-arm', 'dir-arm', 'zero-segment', 'globstar_end', 'hand-over'):
        ctx.ob(rule, f'glob:Glob._glob/{key}', not bad[key], site, texts[key], f'{len(paths)} rows agree' if not bad[key] else sorted(set(bad[key]))[0][:220], witness=wit.get(key, ''))


def glob_dir_table(repo):
    """Decision table of Glob._glob_dir for one directory entry e = (name, is_dir, hidden, is_link) as yielded by _iter.

    Returns a dict key -> list of disagreeing rows (empty = holds) and the number of rows; values are named by provenance, so the
    names of the loop variables and of intermediate locals do not matter.
    """
    def build():
        from ..symeval import focus, _tag
        gd = repo.func('glob', 'Glob._glob_dir')
        GD = 'glob:Glob._glob_dir'
        pars = gd.params()[1:] if gd.params() and gd.params()[0] == 'self' else gd.params()
        if len(pars) != 5:
            raise AnalysisError(f'Glob._glob_dir takes {len(pars)} parameters (5 expected: curdir, matcher, dir_only, deep, globstar_follow)')
        canon = ['curdir', 'matcher', 'dir_only', 'deep', 'globstar_follow']
        ev = SymEval(repo, inline=False)
        paths = ev.tabulate(gd, {p: Opaque(c) for p, c in zip(pars, canon)}, Obj(('glob', 'Glob'), {}))
        bad = {k: [] for k in ('iter-call', 'special-yield', 'entry-yield', 'descent', 'recursion-arguments')}
        E = 'elem(list(glob:Glob._iter(curdir, dir_only, deep)))'

        def K_not(a): return None if a is None else (not a)
        def K_and(*xs): return False if any(x is False for x in xs) else (None if any(x is None for x in xs) else True)
        def K_or(*xs): return True if any(x is True for x in xs) else (None if any(x is None for x in xs) else False)
        n = 0
        for p in paths:
            focus(p)
            d = {k.replace(E, 'e'): v for k, v in p.decisions.items()}
            its = p.calls_to(lambda s: s == 'glob:Glob._iter')
            if len(its) != 1 or [_tag(x) for x in its[0][1]] != ['curdir', 'dir_only', 'deep'] or its[0][2]:
                bad['iter-call'].append(f'{len(its)} call(s) of _iter: ' + '; '.join(str([_tag(x) for x in c[1]]) for c in its))
                continue
            if not any(k.startswith('e[') for k in d):
                continue  # empty listing
            n += 1
            ys = [(_tag(y[1]) if not isinstance(y[1], tuple) else tuple(y[1])) for y in p.of('yield')]
            plain = [y for y in p.of('yield') if isinstance(y[1], tuple) and y[1] and y[1][0] != 'from']
            rec = p.calls_to(lambda s: s == GD)
            frm = [y for y in p.of('yield') if isinstance(y[1], tuple) and y[1] and y[1][0] == 'from']
            row = ', '.join(f'{k}={v}' for k, v in d.items())[:200]
            special = d.get('e[0] in self.specials')
            if special is None:
                bad['special-yield'].append('the entry is not tested against self.specials: ' + row)
                continue
            m_some = d.get('matcher is not None')
            m_true = d.get('matcher', True if m_some else (False if m_some is False else None))
            if m_some is None and m_true is not None:
                m_some = True if m_true else None
            acc = d.get('matcher(e[0])')
            hidden, is_dir, is_link = d.get('e[2]'), d.get('e[1]'), d.get('e[3]')
            path_tag = 'os.path.join(curdir, e[0])'
            got_plain = [tuple(_tag(x).replace(E, 'e') if not isinstance(x, bool) else x for x in y[1]) for y in plain]
            if special:
                want = K_and(m_some, acc)
                exp = [(path_tag, True)] if want else []
                if want is None or got_plain != exp or rec or frm:
                    bad['special-yield'].append(f'{row}: yields {got_plain}, {len(rec)} recursive call(s)')
                continue
            want = K_or(K_and(K_not(m_some), K_not(hidden)), K_and(m_true, acc))
            exp = [(path_tag, 'e[1]')] if want else []
            if want is None or got_plain != exp:
                bad['entry-yield'].append(f'{row}: yields {got_plain}, expected {exp if want is not None else "a decided verdict"}')
            follow = K_or(K_not(is_link), d.get('self.follow_links'), d.get('globstar_follow'))
            desc = K_and(d.get('deep'), K_not(hidden), is_dir, follow)
            if desc is None or (len(rec) == 1) != bool(desc) or len(rec) > 1 or len(frm) != len(rec):
                bad['descent'].append(f'{row}: {len(rec)} recursive call(s), expected {desc}')
            for c in rec:
                a = [_tag(x).replace(E, 'e') for x in c[1]] + [f'{k}={_tag(v)}' for k, v in c[2].items()]
                if a != [path_tag, 'matcher', 'dir_only', 'deep', 'globstar_follow']:
                    bad['recursion-arguments'].append(str(a))
                if not frm or not _tag(frm[-1][1][1]).startswith(GD + '('):
                    bad['recursion-arguments'].append('the recursive results are not yielded')
        if n < 20:
            raise AnalysisError(f'Glob._glob_dir: only {n} entry rows in the table')
        return bad, n
    return cached(repo, '_glob_dir_table', build)


# ================================================================================================ C06
def rule_link_test(ctx: Ctx, rule: str) -> None:
    ctx.text(rule, 'recursive descent is dominated by the link test: `follow` is `not is_link or self.follow_links or '
                   'globstar_follow` (nothing else can make it true) and the recursion forwards deep and globstar_follow unchanged')
    repo = ctx.repo
    gd = repo.func('glob', 'Glob._glob_dir')
    bad, n = glob_dir_table(repo)
    site = repo.loc('glob', gd.node)
    ctx.count(f'{rule}:_glob_dir rows', n)
    ctx.ob(rule, 'glob:Glob._glob_dir/follow-definition', not bad['descent'], site, 'descent iff deep ∧ ¬hidden ∧ is_dir ∧ (¬is_link ∨ self.follow_links ∨ globstar_follow)',
           f'{n} rows agree' if not bad['descent'] else bad['descent'][0], witness="`follow = True` makes glob('**', GLOBSTAR) loop forever on a symlink cycle")
    ctx.ob(rule, 'glob:Glob._glob_dir/recursion-arguments', not bad['recursion-arguments'], site,
           'yield from self._glob_dir(<joined path>, matcher, dir_only, deep, globstar_follow)', 'agree' if not bad['recursion-arguments'] else bad['recursion-arguments'][0])
    ctx.ob(rule, 'glob:Glob._glob_dir/tuple-order', not bad['iter-call'] and not bad['entry-yield'], site,
           'entries come from self._iter(curdir, dir_only, deep) and are used as (name, is_dir, hidden, is_link)',
           'agree' if not (bad['iter-call'] or bad['entry-yield']) else (bad['iter-call'] + bad['entry-yield'])[0],
           witness='swapping hidden and is_link makes hidden directories look like links')
    sp = repo.func('glob', '_GlobSplit.split')
    ins = [c for c in walk_no_nested(sp.node) if isinstance(c, ast.Call) and norm_src(c.func) == 'parts.insert']
    oki = len(ins) == 1 and norm_src(ins[0].args[1]) == '_GlobPart(gstar, True, True, is_globstarlong, True, False)'
    ctx.ob(rule, 'glob:_GlobSplit.split/implicit-part', oki, repo.loc('glob', ins[0] if ins else sp.node), '_GlobPart(gstar, True, True, is_globstarlong, True, False)',
           norm_src(ins[0].args[1]) if ins else 'none')
    from ..symeval import focus, _tag
    st = repo.func('glob', '_GlobSplit.store')
    bad = []
    n = 0
    for p, parts, comp, puts in store_rows(repo):
        focus(p)
        d = p.decisions
        if not parts:
            if puts:
                bad.append('stores without building a part')
            continue
        n += 1
        if len(parts) != 1 or len(puts) != 1:
            bad.append(f'{len(parts)} parts built, {len(puts)} stored')
            continue
        a_ = parts[0][1]
        long_ = d.get('self.globstarlong') is True and any(d.get(k) for k in ("value == '***'", "value == b'***'"))
        star = long_ or (d.get('self.globstar') is True and any(d.get(k) for k in ("value == '**'", "value == b'**'")))
        if len(a_) != 6 or a_[1] != Opaque('glob:_GlobSplit.is_magic(value)') and a_[1] is not d.get('glob:_GlobSplit.is_magic(value)') or \
                a_[2] is not star or a_[3] is not long_ or a_[4] != Opaque('dir_only') or a_[5] is not False:
            bad.append(f'_GlobPart({[_tag(x)[:30] for x in a_]}) with globstar={star} globstarlong={long_}')
        merge = star and d.get('l') is True and d.get('l[-1].is_globstar') is True
        e = puts[0]
        if merge != (e[0] == 'setitem' and e[2] == -1):
            bad.append(f'consecutive globstars={merge}: stored by {e[0]}')
    ctx.ob(rule, 'glob:_GlobSplit.store/part-fields', not bad and n >= 8, repo.loc('glob', st.node),
           '_GlobPart(v, magic, globstar, globstarlong, dir_only, False); a globstar directly after a globstar replaces it, everything else is appended',
           f'{n} rows agree' if not bad else sorted(set(bad))[0][:200], witness="glob('**/**/x') must behave like '**/x'; swapped fields turn every part into a globstar")
    fields = None
    for c in walk_no_nested(repo.cls('glob', '_GlobPart').node):
        if isinstance(c, ast.Call) and norm_src(c.func) == 'namedtuple':
            fields = ast.literal_eval(c.args[1])
    ctx.ob(rule, 'glob:_GlobPart/fields', fields == ['pattern', 'is_magic', 'is_globstar', 'is_globstarlong', 'dir_only', 'is_drive'],
           repo.loc('glob', repo.cls('glob', '_GlobPart').node), 'pattern, is_magic, is_globstar, is_globstarlong, dir_only, is_drive', str(fields))


def _innermost_loop(root: ast.AST, node: ast.AST) -> ast.AST | None:
    best = None
    for l in ast.walk(root):
        if isinstance(l, (ast.For, ast.While)) and any(x is node for x in ast.walk(l)) and l is not node:
            if best is None or any(x is l for x in ast.walk(best)):
                best = l
    return best


def rule_fs_match_links(ctx: Ctx, rule: str) -> None:
    ctx.text(rule, 'matcher side: in _fs_match the symlink inspection runs only when not follow, iterates all captured groups, and '
                   'skips only the last part of a capture that ends the path; a symlink found makes the match fail')
    repo = ctx.repo
    fm = repo.func('_wcmatch', '_Match._fs_match')
    q = fq(fm)
    loops = [l for l in walk_no_nested(fm.node) if isinstance(l, ast.For) and 'm.groups()' in norm_src(l.iter)]
    ok = len(loops) == 1 and q.guarded(loops[0], 'follow', 'F') and q.guarded(loops[0], 'm', 'T') and \
        norm_src(loops[0].iter) == 'enumerate(m.groups(), 1)'
    ctx.ob(rule, '_wcmatch:_Match._fs_match/inspect-all-captures', ok, repo.loc('_wcmatch', loops[0] if loops else fm.node),
           'if m: … if not follow: for i, star in enumerate(m.groups(), 1)', norm_src(loops[0].iter) if loops else 'none',
           witness="globmatch('link/x', '**/x', G, REALPATH) must be False when link is a symlinked directory")
    from .common import tabulate_method
    from ..symeval import focus, _tag
    import re as _re
    pars = [x for x in fm.params() if x != 'self']
    if pars != ['pattern', 'filename', 'is_win', 'follow', 'symlinks', 'root', 'dir_fd']:
        raise AnalysisError(f'_fs_match: parameters changed: {pars}')
    rows = []
    for pt in (0, 1):
        _ev, ps = tabulate_method(repo, '_wcmatch', '_Match._fs_match', {'ptype': pt}, [Opaque(x) for x in pars], inline=False, max_paths=50000)
        rows += ps
    M_ = 'pattern.fullmatch(filename)'
    bad_w, bad_e, bad_d, bad_v, bad_f = [], [], [], [], []
    n_in = n_v = 0
    for p in rows:
        focus(p)
        d = p.decisions
        ae = [(k, v) for k, v in d.items() if '.end(' in k and k.endswith(' == (len(filename)-1)')]
        lp = [(k, v) for k, v in d.items() if k.startswith('elem(enumerate(') and ' == len(' in k]
        gets = [e for e in p.of('call') if e[1] == 'symlinks.get']
        inner = any(c and c[-1].startswith('for:enumerate(') and len(c) == 2 for c in (e[-1] for e in p.events if e[0] in ('call', 'setitem') and isinstance(e[-1], tuple)))
        if not ae and not gets:
            continue
        if len(ae) != 1 or ae[0][0] != f'{M_}.end(elem(enumerate({M_}.groups(), 1))[0]) == (len(filename)-1)':
            bad_e.append(f'end-of-path test: {[k for k, _v in ae]}')
            continue
        if d.get('follow') is not False or d.get(M_) is not True:
            bad_w.append('links inspected although follow / no match')
        last = lp[0][1] if lp else None
        skip = ae[0][1] is True and last is True
        if ae[0][1] is True and last is None and not gets:
            continue  # the per-part loop body was not entered on this row
        n_in += 1
        if bool(gets) == skip or (ae[0][1] is True and last is None):
            bad_w.append(f'capture-at-end={ae[0][1]} last-part={last}: {len(gets)} link lookup(s)')
            continue
        if not gets:
            continue
        key = gets[0][2][0]
        if not (isinstance(key, tuple) and len(key) == 2 and key[0] == Opaque('dir_fd')) or len(gets) != 1:
            bad_d.append(f'cache key {_tag(key)[:80]}')
            continue
        B = key[1]
        # the verdict: a part that is a symlink fails the match for good -- the function answers False and no enclosing loop goes on
        kt = _tag(gets[0][2][0]) if len(gets[0][2]) == 1 else ', '.join(_tag(x) for x in gets[0][2])
        cands = [f'symlinks.get({kt})', f'os.path.islink({_tag(B)})', f'stat.S_ISLNK(os.lstat({_tag(B)}, dir_fd=dir_fd).st_mode)']
        Ls = [d[k] for k in cands if k in d]
        if not Ls and any(e[0] == 'except' for e in p.events):
            Ls = [False]  # lstat failed: not a link
        if len(Ls) != 1:
            bad_v.append(f'the link verdict is not decided on the row ({len(Ls)} candidates among {sorted(k[:40] for k in d)[-3:]})')
        else:
            n_v += 1
            at = p.events.index(gets[0])
            goes_on = [e for e in p.events[at:] if e[0] == 'iterend' and e[2] == 'next']
            if Ls[0]:
                if p.ret is not False:
                    bad_v.append(f'a symlinked part: the function returns {_tag(p.ret)}')
                if goes_on:
                    bad_f.append('after a symlinked part an enclosing loop goes on to its next iteration')
            elif p.ret is not True and not p.raised and not (isinstance(p.ret, Opaque) and p.ret.tag.startswith('loop@')):
                # (a result that depends on the iterations still to come is not this iteration's verdict)
                bad_v.append(f'no symlink found: the function returns {_tag(p.ret)}')
        miss = [v for k, v in d.items() if k.startswith('symlinks.get(') and k.endswith(' is not None')]
        fs = [e for e in p.of('call') if e[1] in ('os.path.islink', 'os.lstat')]
        sets = [e for e in p.of('setitem') if e[1] == Opaque('symlinks')]
        if miss == [True]:
            if fs or sets:
                bad_d.append('cached verdict but the file system is asked / the cache rewritten')
            continue
        if miss != [False]:
            bad_d.append(f'cache test {miss}')
            continue
        nofd = d.get('dir_fd is not None')
        if nofd is False:
            okf = len(fs) == 1 and fs[0][1] == 'os.path.islink' and fs[0][2] == [B]
            val = f'os.path.islink({_tag(B)})'
        else:
            okf = len(fs) == 1 and fs[0][1] == 'os.lstat' and fs[0][2] == [B] and fs[0][3] == {'dir_fd': Opaque('dir_fd')}
            val = None
        oks = len(sets) == 1 and sets[0][2] == key and (val is None and (sets[0][3] is False or _tag(sets[0][3]).startswith('stat.S_ISLNK(os.lstat(')) or
                                                         val is not None and _tag(sets[0][3]) == val)
        if not okf or not oks or nofd is None:
            bad_d.append(f'dir_fd given={nofd}: fs calls {[(e[1], [_tag(x)[:30] for x in e[2]]) for e in fs]}, cached {[_tag(e[3])[:40] for e in sets]}')
    if n_in < 8:
        raise AnalysisError(f'_fs_match: only {n_in} rows enter the per-part inspection')
    ctx.ob(rule, '_wcmatch:_Match._fs_match/which-parts', not bad_w, repo.loc('_wcmatch', fm.node), 'a part is inspected iff not (the capture ends the path and it is the last part), only when not follow and matched',
           f'{n_in} rows agree' if not bad_w else sorted(set(bad_w))[0], witness="globmatch('link', '**', G, REALPATH) is True: `**` matches the symlink itself")
    ctx.ob(rule, '_wcmatch:_Match._fs_match/at_end', not bad_e, repo.loc('_wcmatch', fm.node), 'capture ends the path iff m.end(i) == len(filename) - 1', 'as expected' if not bad_e else bad_e[0][:200])
    ctx.ob(rule, '_wcmatch:_Match._fs_match/is_link-definitions', not bad_d, repo.loc('_wcmatch', fm.node),
           'verdict = cache[(dir_fd, base)], else os.path.islink(base) (no dir_fd) / S_ISLNK(os.lstat(base, dir_fd=dir_fd)) or False on error, written back to the cache',
           'as expected' if not bad_d else sorted(set(bad_d))[0][:220], witness="globmatch(..., dir_fd=fd) must lstat relative to the descriptor")
    if n_v < 8:
        raise AnalysisError(f'_fs_match: only {n_v} rows decide a link verdict')
    ctx.ob(rule, '_wcmatch:_Match._fs_match/link-fails-match', not bad_v, repo.loc('_wcmatch', fm.node), 'the result is False iff an inspected part is a symlink',
           f'{n_v} rows agree' if not bad_v else sorted(set(bad_v))[0][:200])
    ctx.ob(rule, '_wcmatch:_Match._fs_match/link-verdict-is-final', not bad_f, repo.loc('_wcmatch', fm.node),
           'once a symlink has been found neither the per-part loop nor the per-capture loop goes on', 'as expected' if not bad_f else bad_f[0],
           witness="globmatch('link/x/real/deep/y.txt', '**/x/**/*.txt', G, REALPATH) must be False: a later symlink-free `**` must not revive the match")
    # the inspected path is built on the root: base := join(root, <name up to the capture>), then join(base, part) per part
    fsargs = {norm_src(c.args[0]) for c in walk_no_nested(fm.node) if isinstance(c, ast.Call) and norm_src(c.func) in ('os.path.islink', 'os.lstat') and c.args}
    okb = len(fsargs) == 1 and next(iter(fsargs)).isidentifier()
    vals = []
    if okb:
        bn = next(iter(fsargs))
        base = [s for s in walk_no_nested(fm.node) if isinstance(s, ast.Assign) and norm_src(s.targets[0]) == bn]
        vals = sorted(norm_src(s.value) for s in base)
        outer = [l for l in walk_no_nested(fm.node) if isinstance(l, ast.For) and '.groups()' in norm_src(l.iter)]
        inner = [l for o in outer for l in ast.walk(o) if isinstance(l, ast.For) and l is not o]
        mname = next((norm_src(s.targets[0]) for s in walk_no_nested(fm.node) if isinstance(s, ast.Assign) and norm_src(s.value) == 'pattern.fullmatch(filename)'), None)
        okb = len(outer) == 1 and len(inner) == 1 and mname is not None and isinstance(outer[0].target, ast.Tuple) and isinstance(inner[0].target, ast.Tuple)
        if okb:
            idx, part = norm_src(outer[0].target.elts[0]), norm_src(inner[0].target.elts[1])
            okb = sorted(set(vals) - {'None'}) == sorted([f'os.path.join(root, filename[:{mname}.start({idx})])', f'os.path.join({bn}, {part})'])
            # the prefix is taken afresh for every capture: not kept from an earlier capture under an `is None` test
            start = [s for s in base if norm_src(s.value).startswith('os.path.join(root, ')]
            okb = okb and len(start) == 1 and not any(bn in t and 'None' in t for t, _p in q.guards(start[0])) and \
                any(x is start[0] for x in ast.walk(outer[0])) and not any(x is start[0] for x in ast.walk(inner[0]))
    ctx.ob(rule, '_wcmatch:_Match._fs_match/base-rooted', okb, repo.loc('_wcmatch', fm.node), 'for every capture base restarts at os.path.join(root, <name up to that capture>) and grows by one part', str(vals),
           witness="globmatch('a/link/x', 'a/**/x', G, REALPATH, root_dir=r) must lstat r/a/link")
