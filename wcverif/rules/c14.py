"""C14 (WcMatch selection) and C15 (kill / reset / re-run)."""
from __future__ import annotations

import ast
from typing import Any

from ..model import AnalysisError, norm_src, walk_no_nested
from ..pathq import fq
from ..report import Ctx
from ..symeval import BV, Obj, Opaque, SymEval
from ..tables import compare_table, pretty_assign

WM = 'wcmatch'
WP = '_wcparse'


# ================================================================================================ C14
def rule_wcmatch_flags(ctx: Ctx, rule: str) -> None:
    ctx.text(rule, '_parse_flags: user flags are masked with wcmatch.FLAG_MASK; NEGATE|DOTMATCH|NEGATEALL|SPLIT are in the '
                   'must-set of self.flags at exit; the final mask removes every WcMatch-only bit and MATCHBASE; the boolean '
                   'options are the like-named bits; _compile_wildcard adds PATHNAME|_ANCHOR iff pathname and MATCHBASE iff '
                   'additionally self.matchbase; file / folder patterns are compiled with file_pathname / dir_pathname')
    repo = ctx.repo
    pf = repo.func(WM, 'WcMatch._parse_flags')
    ev = SymEval(repo, call_models={'util:platform': lambda fr, n, a, k: Opaque('platform')})
    paths = ev.tabulate(pf, {'flags': BV('flags')}, Obj((WM, 'WcMatch')))
    forced = repo.const(WP, 'NEGATE') | repo.const(WP, 'DOTMATCH') | repo.const(WP, 'NEGATEALL') | repo.const(WP, 'SPLIT')
    own = 0
    for nm in ('DIRPATHNAME', 'FILEPATHNAME', 'SYMLINKS', 'HIDDEN', 'RECURSIVE'):
        own |= repo.const(WM, nm)
    mb = repo.const(WP, 'MATCHBASE')
    user_ok = repo.const(WM, 'FLAG_MASK') & ~own & ~mb
    site = repo.loc(WM, pf.node)
    bad = []
    for p in paths:
        fl = p.attrs.get('flags')
        if not isinstance(fl, BV):
            bad.append(f'self.flags not a flag word: {fl!r}')
            continue
        if not fl.must_set(forced):
            bad.append('NEGATE|DOTMATCH|NEGATEALL|SPLIT not all forced')
        if not fl.must_clear(own | mb):
            bad.append('WcMatch-only bits or MATCHBASE survive into the matcher flags')
        extra = fl.passthrough() & ~user_ok
        if extra & ((1 << 40) - 1):
            bad.append(f'bits outside wcmatch.FLAG_MASK pass through: {extra & ((1 << 40) - 1):#x}')
        if (fl.passthrough() & user_ok) != user_ok:
            bad.append('a user flag of wcmatch.FLAG_MASK is dropped or forced')
    ctx.count('decision_table_rows', len(paths))
    ctx.ob(rule, f'{WM}:WcMatch._parse_flags/self.flags', not bad and bool(paths), site,
           'forced ⊇ NEGATE|DOTMATCH|NEGATEALL|SPLIT; cleared ⊇ own bits ∪ MATCHBASE; passthrough = FLAG_MASK∖(own ∪ MATCHBASE)',
           f'{len(paths)} paths agree' if not bad else '; '.join(sorted(set(bad))),
           witness="WcMatch('.', '*.txt|!a*') relies on SPLIT and NEGATE; hidden '.x.txt' relies on DOTMATCH")
    fw = repo.const(WP, 'FORCEWIN')
    okw = all((isinstance(p.attrs.get('flags'), BV) and p.attrs['flags'].must_set(fw)) == bool(p.decisions.get("platform == 'windows'"))
              or not isinstance(p.attrs.get('flags'), BV) for p in paths)
    ctx.ob(rule, f'{WM}:WcMatch._parse_flags/FORCEWIN-on-windows', okw, site, 'FORCEWIN forced iff the host is windows', str(okw))
    opts = {'follow_links': 'SYMLINKS', 'show_hidden': 'HIDDEN', 'recursive': 'RECURSIVE', 'dir_pathname': 'DIRPATHNAME',
            'file_pathname': 'FILEPATHNAME', 'matchbase': 'MATCHBASE'}
    for attr, flag in opts.items():
        bit = repo.const(WM, flag)
        vals = {repr(p.attrs.get(attr)) for p in paths}
        ok = vals == {f'<bit:flags:{bit:x}>'}
        ctx.ob(rule, f'{WM}:WcMatch._parse_flags/self.{attr}', ok, site, f'bool(flags & {flag})', str(sorted(vals)),
               witness=f'{flag} must control {attr} and nothing else')
    # _compile_wildcard
    cw = repo.func(WM, 'WcMatch._compile_wildcard')
    ev2 = SymEval(repo, watch_calls=True, inline=False)
    paths2 = ev2.tabulate(cw, {'pattern': Opaque('pattern'), 'pathname': Opaque('pathname')},
                          Obj((WM, 'WcMatch'), {'flags': BV('wflags'), 'matchbase': Opaque('matchbase'), 'limit': Opaque('limit')}))
    pn, an = repo.const(WP, 'PATHNAME'), repo.const(WP, '_ANCHOR')
    bad2 = []
    rows = 0
    for p in paths2:
        comp = [(a, k) for (_n, name, a, k) in p.calls if name == '_wcparse:compile']
        if not p.decisions.get('pattern', True):
            if comp:
                bad2.append('compiles an empty pattern')
            continue
        if len(comp) != 1:
            bad2.append(f'{len(comp)} compile calls on a path')
            continue
        rows += 1
        a, k = comp[0]
        fl = a[1] if len(a) > 1 else k.get('flags')
        path = p.decisions.get('pathname')
        mbase = p.decisions.get('matchbase')
        if not isinstance(fl, BV):
            bad2.append(f'flags argument {fl!r}')
            continue
        if path:
            if not fl.must_set(pn | an):
                bad2.append('pathname=True without PATHNAME|_ANCHOR')
            if bool(fl.must_set(mb)) != bool(mbase):
                bad2.append('MATCHBASE not tied to self.matchbase')
        else:
            if fl.known & (pn | an | mb):
                bad2.append('pathname=False but path bits forced')
        if repr(a[0]) != '[<pattern>]':
            bad2.append(f'pattern argument {a[0]!r}')
    ctx.count('decision_table_rows', rows)
    ctx.ob(rule, f'{WM}:WcMatch._compile_wildcard/flags', not bad2 and rows >= 3, repo.loc(WM, cw.node),
           'PATHNAME|_ANCHOR iff pathname; MATCHBASE iff pathname ∧ self.matchbase; None for an empty pattern',
           f'{rows} rows agree' if not bad2 else '; '.join(sorted(set(bad2))),
           witness="WcMatch('.', 'a.txt', flags=FILEPATHNAME|MATCHBASE|RECURSIVE) must find sub/a.txt; without MATCHBASE only ./a.txt")
    cp = repo.func(WM, 'WcMatch._compile')
    calls = [c for c in walk_no_nested(cp.node) if isinstance(c, ast.Call) and norm_src(c.func) == 'self._compile_wildcard']
    want = {('file_pattern', 'self.file_pathname'), ('folder_exclude_pattern', 'self.dir_pathname')}
    got = {(norm_src(c.args[0]), norm_src(c.args[1]) if len(c.args) > 1 else '') for c in calls if c.args}
    ctx.ob(rule, f'{WM}:WcMatch._compile/pathname-arguments', got == want, repo.loc(WM, cp.node), str(sorted(want)), str(sorted(got)),
           witness='swapping them applies FILEPATHNAME to the folder exclude pattern')


def _iter_paths(q: Any, start: int, stops: set[int], limit: int = 5000) -> list[list[int]]:
    """All acyclic paths from `start` until a node in `stops` (exceptional edges to the exit are not followed).

    Path-sensitive for boolean locals: after `x = True/False` on the path, a test of plain `x` follows only the
    consistent edge (the `valid = False ... if valid:` idiom of the except arm).
    """
    out: list[list[int]] = []
    stack: list[tuple[int, list[int], dict[str, bool]]] = [(start, [start], {})]
    while stack:
        n, path, env = stack.pop()
        if n in stops and len(path) > 1:
            out.append(path)
            continue
        node = q.cfg.nodes[n]
        env2 = env
        if node.kind == 'stmt' and isinstance(node.ast, ast.Assign):
            for t in node.ast.targets:
                if isinstance(t, ast.Name):
                    env2 = dict(env2)
                    if isinstance(node.ast.value, ast.Constant) and isinstance(node.ast.value.value, bool):
                        env2[t.id] = node.ast.value.value
                    else:
                        env2.pop(t.id, None)
        for lab, d in node.succ:
            if d == q.cfg.xexit.id:
                continue
            if d in path and d not in stops:
                continue
            if node.kind == 'cond' and isinstance(node.ast, ast.Name) and node.ast.id in env2 and lab in ('T', 'F'):
                if (lab == 'T') != env2[node.ast.id]:
                    continue
            stack.append((d, path + [d], env2))
            if len(out) + len(stack) > limit:
                raise AnalysisError('path enumeration exceeded its budget')
    return out


def rule_match_or_skip(ctx: Ctx, rule: str) -> None:
    ctx.text(rule, 'on every path through one iteration of the file loop of WcMatch._walk exactly one of on_match / on_skip is '
                   'called; `self._skipped += 1` lies on exactly the on_skip paths; the except arm forces valid = False and '
                   'calls on_error in addition; _skipped has no writer other than __init__, imatch (reset) and that arm')
    repo = ctx.repo
    wk = repo.func(WM, 'WcMatch._walk')
    q = fq(wk)
    loops = [n for n in q.cfg.nodes if n.kind == 'for' and norm_src(n.ast.iter) == 'files']
    if len(loops) != 1:
        raise AnalysisError('_walk: file loop not found')
    head = loops[0]
    body_entry = [d for lab, d in head.succ if lab == 'T'][0]
    after = [d for lab, d in head.succ if lab == 'F']
    stops = {head.id, q.cfg.exit.id} | set(after)
    paths = _iter_paths(q, body_entry, stops)
    ctx.count('cfg_paths_enumerated', len(paths))
    bad = []

    def has(node: Any, txt: str) -> bool:
        return node.ast is not None and node.kind in ('stmt', 'cond', 'return') and txt in norm_src(node.ast)
    for p in paths:
        nodes = [q.cfg.nodes[i] for i in p]
        m = sum(1 for n in nodes if has(n, 'self.on_match('))
        s = sum(1 for n in nodes if has(n, 'self.on_skip('))
        k = sum(1 for n in nodes if n.kind == 'stmt' and norm_src(n.ast) == 'self._skipped += 1')
        via_exc = any(n.kind == 'except' for n in nodes)
        e = sum(1 for n in nodes if has(n, 'self.on_error('))
        if m + s != 1:
            bad.append(f'path with {m} on_match and {s} on_skip calls')
        if k != s:
            bad.append('_skipped incremented on a path without on_skip (or the reverse)')
        if via_exc and (e != 1 or m != 0):
            bad.append('exception arm does not call on_error exactly once and skip the file')
        if not via_exc and e:
            bad.append('on_error called without an exception')
    ctx.ob(rule, f'{WM}:WcMatch._walk/file-loop-routing', not bad and len(paths) >= 4, repo.loc(WM, head.ast),
           'exactly one of on_match/on_skip per file; _skipped += 1 exactly with on_skip; on_error only (and always) in the except arm',
           f'{len(paths)} paths agree' if not bad else '; '.join(sorted(set(bad))),
           witness="get_skipped() must equal files visited minus files returned, also when on_validate_file raises")
    writers: dict[str, list[str]] = {}
    for fi in repo.cls(WM, 'WcMatch').methods.values():
        for s in walk_no_nested(fi.node):
            if isinstance(s, (ast.Assign, ast.AugAssign)):
                for t in (s.targets if isinstance(s, ast.Assign) else [s.target]):
                    if norm_src(t) == 'self._skipped':
                        writers.setdefault(fi.name, []).append(norm_src(s))
    writers = _owners(repo, writers)
    want = {'__init__': ['self._skipped = 0'], 'imatch': ['self._skipped = 0'], '_walk': ['self._skipped += 1']}
    ctx.ob(rule, f'{WM}:WcMatch/_skipped-writers', writers == want, repo.loc(WM, wk.node), str(want), str(writers),
           witness='a second writer breaks "skipped = visited − returned"')


def rule_wcmatch_predicates(ctx: Ctx, rule: str) -> None:
    ctx.text(rule, 'decision tables: _valid_file = compare_file(rel|name) ∧ ¬(¬show_hidden ∧ hidden) ∧ on_validate_file; '
                   '_valid_folder = recursive ∧ ¬(exclude_check ∧ ¬compare_directory(rel|name)) ∧ ¬(¬show_hidden ∧ hidden) ∧ '
                   'on_validate_directory; compare_directory negates the exclude match and appends the separator iff '
                   'dir_pathname; an empty file pattern compiles to match-everything, an empty exclude pattern to the empty matcher')
    repo = ctx.repo
    stub = {f'{WM}:WcMatch.compare_file': lambda fr, n, a, k: Opaque('cmp(' + repr(a[0]) + ')'),
            f'{WM}:WcMatch.compare_directory': lambda fr, n, a, k: Opaque('cmpdir(' + repr(a[0]) + ')'),
            f'{WM}:WcMatch.on_validate_file': lambda fr, n, a, k: Opaque('hook'),
            f'{WM}:WcMatch.on_validate_directory': lambda fr, n, a, k: Opaque('hook'),
            'util:is_hidden': lambda fr, n, a, k: Opaque('hidden'),
            'os.path.join': lambda fr, n, a, k: Opaque('full')}
    attrs = {'file_check': Opaque('file_check'), 'folder_exclude_check': Opaque('xcheck'), 'show_hidden': Opaque('show_hidden'),
             'file_pathname': Opaque('FP'), 'dir_pathname': Opaque('DP'), 'recursive': Opaque('recursive'), '_base_len': Opaque('bl')}
    ev = SymEval(repo, call_models=stub)
    vf = repo.func(WM, 'WcMatch._valid_file')
    paths = ev.tabulate(vf, {'base': Opaque('base'), 'name': Opaque('name')}, Obj((WM, 'WcMatch'), attrs))

    def proj(p: Any) -> Any:
        r = p.ret
        return ('hook',) if isinstance(r, Opaque) and r.tag == 'hook' else r

    def oracle(g: Any) -> Any:
        arg = 'cmp(<full[bl:]>)' if g('FP') else 'cmp(<name>)'
        if not (g('file_check is not None') and g(arg)):
            return False
        if not g('show_hidden') and g('hidden'):
            return False
        return ('hook',)
    ok, why, rows = compare_table(paths, ev.bitnames, oracle, proj, None, where='_valid_file')
    ctx.count('decision_table_rows', rows)
    ctx.ob(rule, f'{WM}:WcMatch._valid_file/table', ok, repo.loc(WM, vf.node),
           'compare_file(rel if FILEPATHNAME else name) ∧ (show_hidden ∨ ¬hidden) ∧ on_validate_file', f'{rows} rows agree' if ok else why,
           witness="WcMatch('.', '*.txt') must skip '.a.txt' unless HIDDEN; FILEPATHNAME compares the root-relative path")
    vd = repo.func(WM, 'WcMatch._valid_folder')
    paths = ev.tabulate(vd, {'base': Opaque('base'), 'name': Opaque('name')}, Obj((WM, 'WcMatch'), attrs))

    def oracle2(g: Any) -> Any:
        if not g('recursive'):
            return False
        arg = 'cmpdir(<full[bl:]>)' if g('DP') else 'cmpdir(<name>)'
        if g('xcheck') and not g(arg):
            return False
        if not g('show_hidden') and g('hidden'):
            return False
        return ('hook',)
    ok, why, rows = compare_table(paths, ev.bitnames, oracle2, proj, None, where='_valid_folder')
    ctx.count('decision_table_rows', rows)
    ctx.ob(rule, f'{WM}:WcMatch._valid_folder/table', ok, repo.loc(WM, vd.node),
           'recursive ∧ (¬exclude_check ∨ compare_directory(rel if DIRPATHNAME else name)) ∧ (show_hidden ∨ ¬hidden) ∧ on_validate_directory',
           f'{rows} rows agree' if ok else why, witness="WcMatch('.', '*', 'build', RECURSIVE) must not descend into build/")
    from .common import api_table, tabulate_method
    from ..symeval import focus, _tag
    cd = repo.func(WM, 'WcMatch.compare_directory')
    _ev, cps = api_table(repo, WM, 'WcMatch.compare_directory')
    bad = []
    for p in cps:
        focus(p)
        dp = p.decisions.get('self.dir_pathname')
        arg = f'{WM}:WcMatch._add_sep(directory)' if dp else 'directory'
        m = p.decisions.get(f'self.folder_exclude_check.match({arg})')
        from .common import as_bool
        r = as_bool(p, p.ret)
        if dp is None or (m is None and _tag(p.ret) != f'not(self.folder_exclude_check.match({arg}))') or (m is not None and r is not (not m)):
            bad.append(f'dir_pathname={dp}: decides {sorted(k for k in p.decisions if k.startswith("self.folder_exclude_check"))} returns {_tag(p.ret)[:60]}')
    ctx.ob(rule, f'{WM}:WcMatch.compare_directory/shape', not bad and len(cps) >= 2, repo.loc(WM, cd.node),
           'not exclude.match(directory + sep if dir_pathname else directory)', f'{len(cps)} rows agree' if not bad else bad[0][:200],
           witness="DIRPATHNAME exclude 'a/b/' must match the directory a/b")
    cf = repo.func(WM, 'WcMatch.compare_file')
    _ev, fps = api_table(repo, WM, 'WcMatch.compare_file')
    okf = len(fps) >= 1 and all(_tag(p.ret) == 'self.file_check.match(filename)' or
                                (p.decisions.get('self.file_check.match(filename)') is not None and p.ret is p.decisions.get('self.file_check.match(filename)')) for p in fps)
    ctx.ob(rule, f'{WM}:WcMatch.compare_file/shape', okf, repo.loc(WM, cf.node), 'self.file_check.match(filename)', str([_tag(p.ret)[:60] for p in fps]))
    # empty patterns
    cp = repo.func(WM, 'WcMatch._compile')
    _ev, rows_ = tabulate_method(repo, WM, 'WcMatch._compile', {'file_check': Opaque('fc'), 'folder_exclude_check': Opaque('xc')},
                                 [Opaque('file_pattern'), Opaque('folder_exclude_pattern')], inline=False)
    bad1, bad2, bad3 = [], [], []
    import re as _re
    for p in rows_:
        focus(p)
        d = p.decisions
        fc, xc = _tag(p.attrs.get('file_check')), _tag(p.attrs.get('folder_exclude_check'))
        if d.get('fc is not None') is True:
            if fc != 'fc':
                bad3.append('an existing file_check is replaced')
        elif d.get('file_pattern') is True:
            if fc != f'{WM}:WcMatch._compile_wildcard(file_pattern, self.file_pathname)':
                bad3.append(f'file_check = {fc[:70]}')
        else:
            isb = d.get('isinstance(file_pattern, bytes)')
            want = "_wcmatch:WcRegexp((<re.compile(" + ("b'^.*$'" if isb else "'^.*$'") + ", re.DOTALL)>,))"
            if isb is None or fc != want:
                bad1.append(f'bytes={isb}: file_check = {fc[:80]}')
        if d.get('xc is not None') is True:
            if xc != 'xc':
                bad3.append('an existing folder_exclude_check is replaced')
        elif d.get('folder_exclude_pattern') is True:
            if xc != f'{WM}:WcMatch._compile_wildcard(folder_exclude_pattern, self.dir_pathname)':
                bad3.append(f'folder_exclude_check = {xc[:70]}')
        elif xc != '_wcmatch:WcRegexp(())':
            bad2.append(f'folder_exclude_check = {xc[:70]}')
    ctx.ob(rule, f'{WM}:WcMatch._compile/empty-file-pattern', not bad1 and len(rows_) >= 9, repo.loc(WM, cp.node), "WcRegexp((re.compile('^.*$' | b'^.*$', re.DOTALL),)) by pattern type",
           'as expected' if not bad1 else bad1[0], witness="WcMatch('.', '') selects every file, including names with newlines")
    ctx.ob(rule, f'{WM}:WcMatch._compile/empty-exclude-pattern', not bad2, repo.loc(WM, cp.node), 'WcRegexp(()) (falsy, matches nothing)', 'as expected' if not bad2 else bad2[0])
    ctx.ob(rule, f'{WM}:WcMatch._compile/given-patterns', not bad3, repo.loc(WM, cp.node),
           'given patterns go through _compile_wildcard with their own pathname switch; existing matchers are kept', 'as expected' if not bad3 else bad3[0])


def _owners(repo: Any, writers: dict[str, list[str]]) -> dict[str, list[str]]:
    """Attribute writes found in a helper that is not part of the pinned vocabulary are credited to the pinned methods that call it."""
    from ..vocabulary import PINNED_FUNCTIONS
    ci = repo.cls(WM, 'WcMatch')
    callers: dict[str, set[str]] = {}
    for fi in ci.methods.values():
        for c in walk_no_nested(fi.node):
            if isinstance(c, ast.Call) and isinstance(c.func, ast.Attribute) and isinstance(c.func.value, ast.Name) and c.func.value.id == 'self':
                callers.setdefault(c.func.attr, set()).add(fi.name)
    out: dict[str, list[str]] = {}
    for name, stmts in writers.items():
        todo, seen = [name], set()
        while todo:
            n = todo.pop()
            if n in seen:
                continue
            seen.add(n)
            if f'{WM}:WcMatch.{n}' in PINNED_FUNCTIONS or not callers.get(n):
                out.setdefault(n, []).extend(stmts)
            else:
                todo.extend(callers[n])
    return {k: sorted(v) for k, v in out.items()}


def walk_rows(repo: Any) -> list:
    from .common import api_table, cached

    def build() -> list:
        _ev, paths = api_table(repo, WM, 'WcMatch._walk', explore_handlers=True, max_paths=50000)
        return paths
    return cached(repo, 'c14:walk_rows', build)


def rule_pruning(ctx: Ctx, rule: str) -> None:
    ctx.text(rule, 'WcMatch._walk (decision table with call / yield events, exception handlers explored): os.walk(self._root_dir, '
                   'followlinks=self.follow_links) top-down; a directory name is removed from the very list os.walk handed out, while a '
                   'copy of that list is being iterated, exactly when _valid_folder(base, name) is false or the check raised')
    from ..symeval import focus, _tag
    repo = ctx.repo
    wk = repo.func(WM, 'WcMatch._walk')
    site = repo.loc(WM, wk.node)
    rows = walk_rows(repo)
    bad_w, bad_l, bad_c, bad_k = [], [], [], []
    n_dir = 0
    for p in rows:
        focus(p)
        ws = p.calls_to('os.walk')
        if len(ws) != 1:
            bad_w.append(f'{len(ws)} os.walk calls')
            continue
        if [_tag(a) for a in ws[0][1]] != ['self._root_dir'] or {k: _tag(v) for k, v in ws[0][2].items()} != {'followlinks': 'self.follow_links'}:
            bad_w.append(f'os.walk({[_tag(a) for a in ws[0][1]]}, {({k: _tag(v) for k, v in ws[0][2].items()})})')
        W = 'os.walk(' + ', '.join([_tag(a) for a in ws[0][1]] + [f'{k}={_tag(v)}' for k, v in ws[0][2].items()]) + ')'
        E = f'elem({W})'
        copies = (f'for:{E}[1][:]', f'for:list({E}[1])', f'for:{E}[1].copy()', f'for:tuple({E}[1])', f'for:reversed({E}[1][:])', f'for:sorted({E}[1])')
        removes = [e for e in p.of('call') if e[1].endswith('.remove')]
        in_dirs = [e for e in p.events if e[0] in ('call', 'except') and isinstance(e[-1], tuple) and len(e[-1]) == 2 and e[-1][1].startswith(f'for:') and f'{E}[1]' in e[-1][1]]
        if not in_dirs:
            continue
        n_dir += 1
        for e in removes:
            if e[1] != f'{E}[1].remove':
                bad_l.append(f'removes from {e[1][:70]}')
            if len(e[5]) != 2 or e[5][1] not in copies:
                bad_k.append(f'removal while iterating {e[5][1][4:70] if len(e[5]) == 2 else e[5]}')
            elif [_tag(a) for a in e[2]] != [f'elem({e[5][1][4:]})']:
                bad_l.append(f'removes {[_tag(a)[:50] for a in e[2]]}')
        vf = [v for k, v in p.decisions.items() if k.startswith(f'{WM}:WcMatch._valid_folder({E}[0], elem(')]
        exc = any(e[0] == 'except' and len(e[-1]) == 2 and f'{E}[1]' in e[-1][1] for e in p.events)
        want = exc or vf == [False]
        if (len(removes) == 1) != want or len(removes) > 1 or (not exc and len(vf) != 1):
            bad_c.append(f'valid_folder={vf} raised={exc}: {len(removes)} removal(s)')
    if n_dir < 3:
        raise AnalysisError(f'_walk: only {n_dir} rows enter the directory loop')
    ctx.ob(rule, f'{WM}:WcMatch._walk/followlinks', not bad_w, site, 'os.walk(self._root_dir, followlinks=self.follow_links), top-down', 'as expected' if not bad_w else bad_w[0],
           witness='WcMatch without SYMLINKS must terminate on a symlink cycle; pruning needs top-down')
    ctx.ob(rule, f'{WM}:WcMatch._walk/remove-on-walk-list', not bad_l, site, 'the name being examined is removed from the list yielded by os.walk itself',
           'as expected' if not bad_l else bad_l[0], witness="WcMatch('.', '*', 'skip', RECURSIVE) must not return files below skip/; a rebound list prunes nothing")
    ctx.ob(rule, f'{WM}:WcMatch._walk/iterates-copy', not bad_k, site, 'the loop runs over a copy (dirs[:], list(dirs), tuple(dirs), dirs.copy(), sorted(dirs)) of the list it prunes',
           'as expected' if not bad_k else bad_k[0], witness='removing from the list being iterated skips every other directory')
    ctx.ob(rule, f'{WM}:WcMatch._walk/remove-condition', not bad_c, site, 'removed iff not _valid_folder(base, name), or the check raised', f'{n_dir} rows agree' if not bad_c else sorted(set(bad_c))[0])


def rule_abort_polls(ctx: Ctx, rule: str) -> None:
    ctx.text(rule, 'every cycle of the CFG of WcMatch._walk (with yield nodes and exceptional edges) contains a node that tests '
                   'self.is_aborted() and whose true edge leaves that cycle: removing those polls leaves no natural loop able '
                   'to reach its header again')
    repo = ctx.repo
    wk = repo.func(WM, 'WcMatch._walk')
    q = fq(wk)
    loops = q.cfg.natural_loops()
    ctx.floor(rule, 'natural loops of _walk', len(loops), 3)
    ctx.count('cfg_nodes', len(q.cfg.nodes))
    for header, body in loops:
        polls = set()
        for n in body:
            node = q.cfg.nodes[n]
            if node.kind == 'cond' and norm_src(node.ast) == 'self.is_aborted()':
                t = [d for lab, d in node.succ if lab == 'T']
                if t and all(d not in body for d in t):
                    polls.add(n)
        # can the header reach itself inside the loop without passing a poll?
        seen = set()
        todo = [d for _l, d in q.cfg.nodes[header].succ if d in body and d not in polls]
        cyc = False
        while todo:
            x = todo.pop()
            if x == header:
                cyc = True
                break
            if x in seen:
                continue
            seen.add(x)
            for _l, d in q.cfg.nodes[x].succ:
                if d in body and d not in polls:
                    todo.append(d)
        h = q.cfg.nodes[header]
        what = norm_src(h.ast.iter) if h.kind == 'for' else 'while'
        ctx.ob(rule, f'{WM}:WcMatch._walk/loop[{what}]', not cyc and bool(polls), repo.loc(WM, h.ast),
               'every iteration passes an is_aborted() test whose true edge leaves the loop',
               f'{len(polls)} poll(s), unpolled cycle={cyc}',
               witness='after kill() the remaining files of the directory would still be yielded')
    ia = repo.func(WM, 'WcMatch.is_aborted')
    rets = [s for s in walk_no_nested(ia.node) if isinstance(s, ast.Return)]
    from ..boolform import resolved_src
    ctx.ob(rule, f'{WM}:WcMatch.is_aborted/returns-flag', len(rets) == 1 and resolved_src(ia.node, rets[0].value) == 'self._abort', repo.loc(WM, ia.node),
           'return self._abort', resolved_src(ia.node, rets[0].value) if rets else 'none')


def rule_abort_flag_writers(ctx: Ctx, rule: str) -> None:
    ctx.text(rule, 'sticky flag: _abort is written only in __init__ (False), kill (True) and reset (False); neither _walk, imatch, '
                   'match nor the default hooks write it (attribute stores and setattr)')
    repo = ctx.repo
    writers: dict[str, list[str]] = {}
    for fi in repo.cls(WM, 'WcMatch').methods.values():
        for s in walk_no_nested(fi.node):
            if isinstance(s, (ast.Assign, ast.AugAssign, ast.AnnAssign)):
                for t in (s.targets if isinstance(s, ast.Assign) else [s.target]):
                    if norm_src(t) == 'self._abort':
                        writers.setdefault(fi.name, []).append(norm_src(s))
            if isinstance(s, ast.Call) and isinstance(s.func, ast.Name) and s.func.id in ('setattr', 'delattr') and len(s.args) > 1 and \
                    '_abort' in norm_src(s.args[1]):
                writers.setdefault(fi.name, []).append(norm_src(s))
            if isinstance(s, ast.Delete) and any(norm_src(t) == 'self._abort' for t in s.targets):
                writers.setdefault(fi.name, []).append(norm_src(s))
    writers = _owners(repo, writers)
    want = {'__init__': ['self._abort = False'], 'kill': ['self._abort = True'], 'reset': ['self._abort = False']}
    ctx.ob(rule, f'{WM}:WcMatch/_abort-writers', writers == want, repo.loc(WM, repo.cls(WM, 'WcMatch').node), str(want), str(writers),
           witness='if imatch() cleared the flag, a kill() issued before match() would be lost')


def rule_run_prologue(ctx: Ctx, rule: str) -> None:
    ctx.text(rule, 'per-run prologue: in imatch the call self.on_reset() and the store self._skipped = 0 both dominate the '
                   'iteration of self._walk(), once each; match is list(self.imatch()); _walk recomputes _base_len first')
    repo = ctx.repo
    im = repo.func(WM, 'WcMatch.imatch')
    q = fq(im)
    # (`for f in self._walk(): yield f` is canonicalised to `yield from self._walk()`, K12)
    sites = [s for s in q.stmts(lambda n: isinstance(n, ast.Expr) and isinstance(n.value, ast.YieldFrom) and norm_src(n.value.value) == 'self._walk()')]
    heads = [n for n in q.cfg.nodes if n.kind == 'for' and norm_src(n.ast.iter) == 'self._walk()']
    if len(sites) + len(heads) != 1:
        # no iteration inside imatch (e.g. `return self._walk()`): then imatch is not a generator and its prologue runs when it is called,
        # not when the run starts -- a violation of the per-run prologue, not an obstacle to the analysis
        gen = any(isinstance(n, (ast.Yield, ast.YieldFrom)) for n in walk_no_nested(im.node))
        ctx.ob(rule, f'{WM}:WcMatch.imatch/prologue', False, repo.loc(WM, im.node), 'on_reset() and _skipped = 0 dominate the walk, once each, inside the generator',
               'imatch does not iterate self._walk() itself' + ('' if gen else ': it is not a generator, so the prologue runs at call time'),
               witness='a = imatch(); b = imatch(); list(a); list(b): each run must reset the skipped counter when it starts')
        return
    h = q.node_of(sites[0]) if sites else heads[0].id
    resets = q.calls(lambda s: s == 'self.on_reset')
    zero = q.stmts(lambda n: isinstance(n, ast.Assign) and norm_src(n) == 'self._skipped = 0')
    ok = len(resets) == 1 and len(zero) == 1 and q.cfg.dominates(q.node_of(resets[0]), h) and q.cfg.dominates(q.node_of(zero[0]), h)
    ctx.ob(rule, f'{WM}:WcMatch.imatch/prologue', ok, repo.loc(WM, im.node), 'on_reset() and _skipped = 0 dominate the walk, once each',
           f'on_reset calls={len(resets)}, resets of _skipped={len(zero)}', witness='a second match() must restart get_skipped() at 0 and call on_reset once')
    ys = [n for n in walk_no_nested(im.node) if isinstance(n, (ast.Yield, ast.YieldFrom))]
    oky = len(ys) == 1 and (norm_src(ys[0].value) == 'f' or norm_src(ys[0].value) == 'self._walk()')
    ctx.ob(rule, f'{WM}:WcMatch.imatch/passes-through', oky, repo.loc(WM, im.node), 'yields exactly what _walk yields', '; '.join(norm_src(y) for y in ys))
    mt = repo.func(WM, 'WcMatch.match')
    rets = [s for s in mt.node.body if isinstance(s, ast.Return)]
    ctx.ob(rule, f'{WM}:WcMatch.match/is-list-of-imatch', bool(rets) and norm_src(rets[0].value) == 'list(self.imatch())', repo.loc(WM, mt.node),
           'return list(self.imatch())', norm_src(rets[0].value) if rets else 'none')
    wk = repo.func(WM, 'WcMatch._walk')
    qw = fq(wk)
    bl = qw.stmts(lambda n: isinstance(n, ast.Assign) and norm_src(n.targets[0]) == 'self._base_len')
    fors = [n.id for n in qw.cfg.nodes if n.kind == 'for']
    okb = len(bl) == 1 and norm_src(bl[0].value) == 'len(self._root_dir)' and all(qw.cfg.dominates(qw.node_of(bl[0]), f) for f in fors)
    ctx.ob(rule, f'{WM}:WcMatch._walk/base_len-first', okb, repo.loc(WM, wk.node), 'self._base_len = len(self._root_dir) before any loop', str(okb))


def rule_yield_passthrough(ctx: Ctx, rule: str) -> None:
    ctx.text(rule, 'WcMatch._walk (decision table, handlers explored): everything yielded is the direct result of on_match(base, name), '
                   'or of on_error / on_skip(base, name) on a path that found it not None; per file exactly one of on_match / on_skip is '
                   'called: on_match iff _valid_file held and did not raise, otherwise _skipped is incremented and on_skip called')
    from ..symeval import focus, _tag
    repo = ctx.repo
    wk = repo.func(WM, 'WcMatch._walk')
    site = repo.loc(WM, wk.node)
    bad_y, bad_h = [], []
    n_file = 0
    for p in walk_rows(repo):
        focus(p)
        ws = p.calls_to('os.walk')
        if len(ws) != 1:
            continue
        W = 'os.walk(' + ', '.join([_tag(a) for a in ws[0][1]] + [f'{k}={_tag(v)}' for k, v in ws[0][2].items()]) + ')'
        E = f'elem({W})'
        for e in p.of('yield'):
            t = _tag(e[1])
            ok = False
            for hook in ('on_match', 'on_skip', 'on_error'):
                pre = f'{WM}:WcMatch.{hook}({E}[0], elem('
                if t.startswith(pre) and t.endswith('))') and len(e[3]) == 2 and t[len(pre) - 5:-1] == f'elem({e[3][1][4:]})':
                    ok = hook == 'on_match' or p.decisions.get(f'{t} is not None') is True
            if not ok:
                bad_y.append(f'yields {t[:100]}')
        in_files = [e for e in p.events if e[0] in ('call', 'except') and isinstance(e[-1], tuple) and len(e[-1]) == 2 and e[-1][1] == f'for:{E}[2]']
        if not in_files:
            continue
        n_file += 1
        exc = any(e[0] == 'except' for e in in_files)
        vf = [v for k, v in p.decisions.items() if k.startswith(f'{WM}:WcMatch._valid_file({E}[0], elem({E}[2]))')]
        valid = (not exc) and vf == [True]
        hooks = {h: [e for e in in_files if e[0] == 'call' and e[1] == f'{WM}:WcMatch.{h}'] for h in ('on_match', 'on_skip', 'on_error')}
        skipped = [e for e in p.of('store') if e[1] == 'self._skipped' and len(e[4]) == 2]
        if len(hooks['on_match']) != (1 if valid else 0) or len(hooks['on_skip']) != (0 if valid else 1) or len(hooks['on_error']) != (1 if exc else 0) or \
                len(skipped) != (0 if valid else 1) or (not exc and len(vf) != 1):
            bad_h.append(f'valid_file={vf} raised={exc}: on_match×{len(hooks["on_match"])} on_skip×{len(hooks["on_skip"])} on_error×{len(hooks["on_error"])} skipped+{len(skipped)}')
        for h, es in hooks.items():
            for e in es:
                if [_tag(a) for a in e[2]] != [f'{E}[0]', f'elem({E}[2])']:
                    bad_h.append(f'{h}({[_tag(a)[:40] for a in e[2]]})')
    # abort discipline: each directory, each sub-directory check and each file is followed / preceded by the abort test
    bad_a = []
    for p in walk_rows(repo):
        focus(p)
        ws = p.calls_to('os.walk')
        if len(ws) != 1:
            continue
        outer = [e for e in p.events if e[0] in ('call', 'yield', 'except', 'store') and isinstance(e[-1], tuple) and len(e[-1]) >= 1]
        if not outer:
            continue
        first = outer[0]
        if not (first[0] == 'call' and first[1] == f'{WM}:WcMatch.is_aborted' and len(first[-1]) == 1):
            bad_a.append(f'a directory is entered with {first[1] if first[0] == "call" else first[0]} before the abort test')
            continue
        ab = [(i, e) for i, e in enumerate(p.events) if e[0] == 'call' and e[1] == f'{WM}:WcMatch.is_aborted']
        decided = [k for k in p.decisions if k.startswith(f'{WM}:WcMatch.is_aborted()')]
        if p.decisions.get(f'{WM}:WcMatch.is_aborted()') is True and len(outer) > 1:
            bad_a.append('work continues in a directory although the walk was aborted before it')
        for loop_tag in ('[1]', '[2]'):
            inner = [e for e in p.events if e[0] in ('call', 'yield', 'except', 'store') and isinstance(e[-1], tuple) and len(e[-1]) == 2 and loop_tag in e[-1][1][-12:]]
            if inner and not (inner[-1][0] == 'call' and inner[-1][1] == f'{WM}:WcMatch.is_aborted'):
                bad_a.append(f'an iteration over {"directories" if loop_tag == "[1]" else "files"} does not end with the abort test')
    # the abort flag can change between two polls (kill() from a hook): with every poll its own unknown, once a poll has answered
    # "aborted" nothing of the walk may follow -- no further check, no hook, no yield
    from .common import api_table
    def fresh(fr: Any, n: Any, a: list, k: dict) -> Any:
        # numbered by position on the path (the evaluator forks by replaying a path, so the name must not depend on anything else)
        done = sum(1 for e in fr.ev.events if e[0] == 'poll')
        fr.ev.events.append(('poll', done + 1, tuple(fr.ev.ctx)))
        if any(k2.startswith('aborted?') and v2 is True and int(k2[len('aborted?'):]) <= done for k2, v2 in fr.ev.decisions.items()):
            return True  # the flag stays set until reset(): a later poll cannot answer "not aborted"
        return Opaque(f'aborted?{done + 1}')
    _ev2, rows2 = api_table(repo, WM, 'WcMatch._walk', explore_handlers=True, max_paths=200000, call_models={f'{WM}:WcMatch.is_aborted': fresh})
    bad_k = []
    n_k = 0
    for p in rows2:
        focus(p)
        yes = [k for k, v in p.decisions.items() if k.startswith('aborted?') and v is True]
        if not yes:
            continue
        n_k += 1
        # the event stream after the call that produced the first positive answer
        first_yes = min(int(k[len('aborted?'):]) for k in yes)
        idx = next((i for i, e in enumerate(p.events) if e[0] == 'poll' and e[1] == first_yes), None)
        if idx is None:
            continue
        later = [e for e in p.events[idx + 1:] if (e[0] == 'call' and e[1].startswith(f'{WM}:WcMatch.') and not e[1].endswith('.is_aborted')) or e[0] == 'yield']
        if later:
            e0 = later[0]
            bad_k.append(f'after a positive abort poll the walk still does {e0[1].split(".")[-1] if e0[0] == "call" else "a yield"}')
    ctx.ob(rule, f'{WM}:WcMatch._walk/nothing-after-abort', n_k >= 3 and not bad_k, site, 'once is_aborted() has answered True no check, hook or yield follows',
           f'{n_k} rows agree' if n_k >= 3 and not bad_k else (sorted(set(bad_k))[0] if bad_k else f'only {n_k} rows see an abort'),
           witness='kill() from on_validate_directory: match() must not go on to examine (and return) a file of that directory')
    if n_file < 4:
        raise AnalysisError(f'_walk: only {n_file} rows enter the file loop')
    ctx.ob(rule, f'{WM}:WcMatch._walk/yield-values', not bad_y, site, 'yield on_match(base, name) | non-None result of on_error / on_skip(base, name)',
           'as expected' if not bad_y else sorted(set(bad_y))[0], witness='values returned by the hooks must be passed through unchanged')
    ctx.ob(rule, f'{WM}:WcMatch._walk/abort-tests', not bad_a, site, 'is_aborted() is the first thing asked in every directory and the last in every directory / file iteration',
           'as expected' if not bad_a else sorted(set(bad_a))[0], witness='kill() before or during a walk stops it at the next directory / file boundary without visiting anything further')
    # what counts as "the check raised": any Exception -- the handlers around _valid_folder / _valid_file catch exactly `Exception`
    hn = sorted({str(e[3]) for p in walk_rows(repo) for e in p.events if e[0] == 'except'})
    ctx.ob(rule, f'{WM}:WcMatch._walk/handlers-catch-Exception', hn == ['Exception'], site, "the handlers of the walker's loops are `except Exception`", str(hn),
           witness='a compare_file / on_validate_file that raises KeyError must be routed to on_error and on_skip, not escape from match()')
    ctx.ob(rule, f'{WM}:WcMatch._walk/one-hook-per-file', not bad_h, site, 'per file: on_match iff valid, else _skipped += 1 and on_skip; on_error exactly when the check raised',
           f'{n_file} rows agree' if not bad_h else sorted(set(bad_h))[0], witness='get_skipped() + len(matches) == number of files seen')
