"""C14 (WcMatch selection) and C15 (kill / reset / re-run)."""
from __future__ import annotations

import ast
from typing import Any

from ..model import AnalysisError, norm_src, walk_no_nested
from ..pathq import fq
from ..report import Ctx
from ..symeval import BV, Obj, Opaque, SymEval
from ..tables import compare_table, pretty_assign

WM = 'wcmatch'
WP = '_wcparse'


# ================================================================================================ C14
def rule_wcmatch_flags(ctx: Ctx, rule: str) -> None:
    ctx.text(rule, '_parse_flags: user flags are masked with wcmatch.FLAG_MASK; NEGATE|DOTMATCH|NEGATEALL|SPLIT are in the '
                   'must-set of self.flags at exit; the final mask removes every WcMatch-only bit and MATCHBASE; the boolean '
                   'options are the like-named bits; _compile_wildcard adds PATHNAME|_ANCHOR iff pathname and MATCHBASE iff '
                   'additionally self.matchbase; file / folder patterns are compiled with file_pathname / dir_pathname')
    repo = ctx.repo
    pf = repo.func(WM, 'WcMatch._parse_flags')
    ev = SymEval(repo, call_models={'util:platform': lambda fr, n, a, k: Opaque('platform')})
    paths = ev.tabulate(pf, {'flags': BV('flags')}, Obj((WM, 'WcMatch')))
    forced = repo.const(WP, 'NEGATE') | repo.const(WP, 'DOTMATCH') | repo.const(WP, 'NEGATEALL') | repo.const(WP, 'SPLIT')
    own = 0
    for nm in ('DIRPATHNAME', 'FILEPATHNAME', 'SYMLINKS', 'HIDDEN', 'RECURSIVE'):
        own |= repo.const(WM, nm)
    mb = repo.const(WP, 'MATCHBASE')
    user_ok = repo.const(WM, 'FLAG_MASK') & ~own & ~mb
    site = repo.loc(WM, pf.node)
    bad = []
    for p in paths:
        fl = p.attrs.get('flags')
        if not isinstance(fl, BV):
            bad.append(f'self.flags not a flag word: {fl!r}')
            continue
        if not fl.must_set(forced):
            bad.append('NEGATE|DOTMATCH|NEGATEALL|SPLIT not all forced')
        if not fl.must_clear(own | mb):
            bad.append('WcMatch-only bits or MATCHBASE survive into the matcher flags')
        extra = fl.passthrough() & ~user_ok
        if extra & ((1 << 40) - 1):
            bad.append(f'bits outside wcmatch.FLAG_MASK pass through: {extra & ((1 << 40) - 1):#x}')
        if (fl.passthrough() & user_ok) != user_ok:
            bad.append('a user flag of wcmatch.FLAG_MASK is dropped or forced')
    ctx.count('decision_table_rows', len(paths))
    ctx.ob(rule, f'{WM}:WcMatch._parse_flags/self.flags', not bad and bool(paths), site,
           'forced ⊇ NEGATE|DOTMATCH|NEGATEALL|SPLIT; cleared ⊇ own bits ∪ MATCHBASE; passthrough = FLAG_MASK∖(own ∪ MATCHBASE)',
           f'{len(paths)} paths agree' if not bad else '; '.join(sorted(set(bad))),
           witness="WcMatch('.', '*.txt|!a*') relies on SPLIT and NEGATE; hidden '.x.txt' relies on DOTMATCH")
    fw = repo.const(WP, 'FORCEWIN')
    okw = all((isinstance(p.attrs.get('flags'), BV) and p.attrs['flags'].must_set(fw)) == bool(p.decisions.get("platform == 'windows'"))
              or not isinstance(p.attrs.get('flags'), BV) for p in paths)
    ctx.ob(rule, f'{WM}:WcMatch._parse_flags/FORCEWIN-on-windows', okw, site, 'FORCEWIN forced iff the host is windows', str(okw))
    opts = {'follow_links': 'SYMLINKS', 'show_hidden': 'HIDDEN', 'recursive': 'RECURSIVE', 'dir_pathname': 'DIRPATHNAME',
            'file_pathname': 'FILEPATHNAME', 'matchbase': 'MATCHBASE'}
    for attr, flag in opts.items():
        bit = repo.const(WM, flag)
        vals = {repr(p.attrs.get(attr)) for p in paths}
        ok = vals == {f'<bit:flags:{bit:x}>'}
        ctx.ob(rule, f'{WM}:WcMatch._parse_flags/self.{attr}', ok, site, f'bool(flags & {flag})', str(sorted(vals)),
               witness=f'{flag} must control {attr} and nothing else')
    # _compile_wildcard
    cw = repo.func(WM, 'WcMatch._compile_wildcard')
    ev2 = SymEval(repo, watch_calls=True, inline=False)
    paths2 = ev2.tabulate(cw, {'pattern': Opaque('pattern'), 'pathname': Opaque('pathname')},
                          Obj((WM, 'WcMatch'), {'flags': BV('wflags'), 'matchbase': Opaque('matchbase'), 'limit': Opaque('limit')}))
    pn, an = repo.const(WP, 'PATHNAME'), repo.const(WP, '_ANCHOR')
    bad2 = []
    rows = 0
    for p in paths2:
        comp = [(a, k) for (_n, name, a, k) in p.calls if name == '_wcparse:compile']
        if not p.decisions.get('pattern', True):
            if comp:
                bad2.append('compiles an empty pattern')
            continue
        if len(comp) != 1:
            bad2.append(f'{len(comp)} compile calls on a path')
            continue
        rows += 1
        a, k = comp[0]
        fl = a[1] if len(a) > 1 else k.get('flags')
        path = p.decisions.get('pathname')
        mbase = p.decisions.get('matchbase')
        if not isinstance(fl, BV):
            bad2.append(f'flags argument {fl!r}')
            continue
        if path:
            if not fl.must_set(pn | an):
                bad2.append('pathname=True without PATHNAME|_ANCHOR')
            if bool(fl.must_set(mb)) != bool(mbase):
                bad2.append('MATCHBASE not tied to self.matchbase')
        else:
            if fl.known & (pn | an | mb):
                bad2.append('pathname=False but path bits forced')
        if repr(a[0]) != '[<pattern>]':
            bad2.append(f'pattern argument {a[0]!r}')
    ctx.count('decision_table_rows', rows)
    ctx.ob(rule, f'{WM}:WcMatch._compile_wildcard/flags', not bad2 and rows >= 3, repo.loc(WM, cw.node),
           'PATHNAME|_ANCHOR iff pathname; MATCHBASE iff pathname ∧ self.matchbase; None for an empty pattern',
           f'{rows} rows agree' if not bad2 else '; '.join(sorted(set(bad2))),
           witness="WcMatch('.', 'a.txt', flags=FILEPATHNAME|MATCHBASE|RECURSIVE) must find sub/a.txt; without MATCHBASE only ./a.txt")
    cp = repo.func(WM, 'WcMatch._compile')
    calls = [c for c in walk_no_nested(cp.node) if isinstance(c, ast.Call) and norm_src(c.func) == 'self._compile_wildcard']
    want = {('file_pattern', 'self.file_pathname'), ('folder_exclude_pattern', 'self.dir_pathname')}
    got = {(norm_src(c.args[0]), norm_src(c.args[1]) if len(c.args) > 1 else '') for c in calls if c.args}
    ctx.ob(rule, f'{WM}:WcMatch._compile/pathname-arguments', got == want, repo.loc(WM, cp.node), str(sorted(want)), str(sorted(got)),
           witness='swapping them applies FILEPATHNAME to the folder exclude pattern')


def _iter_paths(q: Any, start: int, stops: set[int], limit: int = 5000) -> list[list[int]]:
    """All acyclic paths from `start` until a node in `stops` (exceptional edges to the exit are not followed).

    Path-sensitive for boolean locals: after `x = True/False` on the path, a test of plain `x` follows only the
    consistent edge (the `valid = False ... if valid:` idiom of the except arm).
    """
    out: list[list[int]] = []
    stack: list[tuple[int, list[int], dict[str, bool]]] = [(start, [start], {})]
    while stack:
        n, path, env = stack.pop()
        if n in stops and len(path) > 1:
            out.append(path)
            continue
        node = q.cfg.nodes[n]
        env2 = env
        if node.kind == 'stmt' and isinstance(node.ast, ast.Assign):
            for t in node.ast.targets:
                if isinstance(t, ast.Name):
                    env2 = dict(env2)
                    if isinstance(node.ast.value, ast.Constant) and isinstance(node.ast.value.value, bool):
                        env2[t.id] = node.ast.value.value
                    else:
                        env2.pop(t.id, None)
        for lab, d in node.succ:
            if d == q.cfg.xexit.id:
                continue
            if d in path and d not in stops:
                continue
            if node.kind == 'cond' and isinstance(node.ast, ast.Name) and node.ast.id in env2 and lab in ('T', 'F'):
                if (lab == 'T') != env2[node.ast.id]:
                    continue
            stack.append((d, path + [d], env2))
            if len(out) + len(stack) > limit:
                raise AnalysisError('path enumeration exceeded its budget')
    return out


def rule_match_or_skip(ctx: Ctx, rule: str) -> None:
    ctx.text(rule, 'on every path through one iteration of the file loop of WcMatch._walk exactly one of on_match / on_skip is '
                   'called; `self._skipped += 1` lies on exactly the on_skip paths; the except arm forces valid = False and '
                   'calls on_error in addition; _skipped has no writer other than __init__, imatch (reset) and that arm')
    repo = ctx.repo
    wk = repo.func(WM, 'WcMatch._walk')
    q = fq(wk)
    loops = [n for n in q.cfg.nodes if n.kind == 'for' and norm_src(n.ast.iter) == 'files']
    if len(loops) != 1:
        raise AnalysisError('_walk: file loop not found')
    head = loops[0]
    body_entry = [d for lab, d in head.succ if lab == 'T'][0]
    after = [d for lab, d in head.succ if lab == 'F']
    stops = {head.id, q.cfg.exit.id} | set(after)
    paths = _iter_paths(q, body_entry, stops)
    ctx.count('cfg_paths_enumerated', len(paths))
    bad = []

    def has(node: Any, txt: str) -> bool:
        return node.ast is not None and node.kind in ('stmt', 'cond', 'return') and txt in norm_src(node.ast)
    for p in paths:
        nodes = [q.cfg.nodes[i] for i in p]
        m = sum(1 for n in nodes if has(n, 'self.on_match('))
        s = sum(1 for n in nodes if has(n, 'self.on_skip('))
        k = sum(1 for n in nodes if n.kind == 'stmt' and norm_src(n.ast) == 'self._skipped += 1')
        via_exc = any(n.kind == 'except' for n in nodes)
        e = sum(1 for n in nodes if has(n, 'self.on_error('))
        if m + s != 1:
            bad.append(f'path with {m} on_match and {s} on_skip calls')
        if k != s:
            bad.append('_skipped incremented on a path without on_skip (or the reverse)')
        if via_exc and (e != 1 or m != 0):
            bad.append('exception arm does not call on_error exactly once and skip the file')
        if not via_exc and e:
            bad.append('on_error called without an exception')
    ctx.ob(rule, f'{WM}:WcMatch._walk/file-loop-routing', not bad and len(paths) >= 4, repo.loc(WM, head.ast),
           'exactly one of on_match/on_skip per file; _skipped += 1 exactly with on_skip; on_error only (and always) in the except arm',
           f'{len(paths)} paths agree' if not bad else '; '.join(sorted(set(bad))),
           witness="get_skipped() must equal files visited minus files returned, also when on_validate_file raises")
    writers: dict[str, list[str]] = {}
    for fi in repo.cls(WM, 'WcMatch').methods.values():
        for s in walk_no_nested(fi.node):
            if isinstance(s, (ast.Assign, ast.AugAssign)):
                for t in (s.targets if isinstance(s, ast.Assign) else [s.target]):
                    if norm_src(t) == 'self._skipped':
                        writers.setdefault(fi.name, []).append(norm_src(s))
    want = {'__init__': ['self._skipped = 0'], 'imatch': ['self._skipped = 0'], '_walk': ['self._skipped += 1']}
    ctx.ob(rule, f'{WM}:WcMatch/_skipped-writers', writers == want, repo.loc(WM, wk.node), str(want), str(writers),
           witness='a second writer breaks "skipped = visited − returned"')


def rule_wcmatch_predicates(ctx: Ctx, rule: str) -> None:
    ctx.text(rule, 'decision tables: _valid_file = compare_file(rel|name) ∧ ¬(¬show_hidden ∧ hidden) ∧ on_validate_file; '
                   '_valid_folder = recursive ∧ ¬(exclude_check ∧ ¬compare_directory(rel|name)) ∧ ¬(¬show_hidden ∧ hidden) ∧ '
                   'on_validate_directory; compare_directory negates the exclude match and appends the separator iff '
                   'dir_pathname; an empty file pattern compiles to match-everything, an empty exclude pattern to the empty matcher')
    repo = ctx.repo
    stub = {f'{WM}:WcMatch.compare_file': lambda fr, n, a, k: Opaque('cmp(' + repr(a[0]) + ')'),
            f'{WM}:WcMatch.compare_directory': lambda fr, n, a, k: Opaque('cmpdir(' + repr(a[0]) + ')'),
            f'{WM}:WcMatch.on_validate_file': lambda fr, n, a, k: Opaque('hook'),
            f'{WM}:WcMatch.on_validate_directory': lambda fr, n, a, k: Opaque('hook'),
            'util:is_hidden': lambda fr, n, a, k: Opaque('hidden'),
            'os.path.join': lambda fr, n, a, k: Opaque('full')}
    attrs = {'file_check': Opaque('file_check'), 'folder_exclude_check': Opaque('xcheck'), 'show_hidden': Opaque('show_hidden'),
             'file_pathname': Opaque('FP'), 'dir_pathname': Opaque('DP'), 'recursive': Opaque('recursive'), '_base_len': Opaque('bl')}
    ev = SymEval(repo, call_models=stub)
    vf = repo.func(WM, 'WcMatch._valid_file')
    paths = ev.tabulate(vf, {'base': Opaque('base'), 'name': Opaque('name')}, Obj((WM, 'WcMatch'), attrs))

    def proj(p: Any) -> Any:
        r = p.ret
        return ('hook',) if isinstance(r, Opaque) and r.tag == 'hook' else r

    def oracle(g: Any) -> Any:
        arg = 'cmp(<full[bl:]>)' if g('FP') else 'cmp(<name>)'
        if not (g('file_check is not None') and g(arg)):
            return False
        if not g('show_hidden') and g('hidden'):
            return False
        return ('hook',)
    ok, why, rows = compare_table(paths, ev.bitnames, oracle, proj, None, where='_valid_file')
    ctx.count('decision_table_rows', rows)
    ctx.ob(rule, f'{WM}:WcMatch._valid_file/table', ok, repo.loc(WM, vf.node),
           'compare_file(rel if FILEPATHNAME else name) ∧ (show_hidden ∨ ¬hidden) ∧ on_validate_file', f'{rows} rows agree' if ok else why,
           witness="WcMatch('.', '*.txt') must skip '.a.txt' unless HIDDEN; FILEPATHNAME compares the root-relative path")
    vd = repo.func(WM, 'WcMatch._valid_folder')
    paths = ev.tabulate(vd, {'base': Opaque('base'), 'name': Opaque('name')}, Obj((WM, 'WcMatch'), attrs))

    def oracle2(g: Any) -> Any:
        if not g('recursive'):
            return False
        arg = 'cmpdir(<full[bl:]>)' if g('DP') else 'cmpdir(<name>)'
        if g('xcheck') and not g(arg):
            return False
        if not g('show_hidden') and g('hidden'):
            return False
        return ('hook',)
    ok, why, rows = compare_table(paths, ev.bitnames, oracle2, proj, None, where='_valid_folder')
    ctx.count('decision_table_rows', rows)
    ctx.ob(rule, f'{WM}:WcMatch._valid_folder/table', ok, repo.loc(WM, vd.node),
           'recursive ∧ (¬exclude_check ∨ compare_directory(rel if DIRPATHNAME else name)) ∧ (show_hidden ∨ ¬hidden) ∧ on_validate_directory',
           f'{rows} rows agree' if ok else why, witness="WcMatch('.', '*', 'build', RECURSIVE) must not descend into build/")
    cd = repo.func(WM, 'WcMatch.compare_directory')
    body = [s for s in cd.node.body if isinstance(s, ast.Return)]
    src = norm_src(body[0].value) if body else ''
    okc = src in ('not self.folder_exclude_check.match(self._add_sep(directory) if self.dir_pathname else directory)',)
    ctx.ob(rule, f'{WM}:WcMatch.compare_directory/shape', okc, repo.loc(WM, cd.node),
           'not exclude.match(directory + sep if dir_pathname else directory)', src[:100],
           witness="DIRPATHNAME exclude 'a/b/' must match the directory a/b")
    cf = repo.func(WM, 'WcMatch.compare_file')
    bodyf = [s for s in cf.node.body if isinstance(s, ast.Return)]
    okf = bool(bodyf) and norm_src(bodyf[0].value) == 'self.file_check.match(filename)'
    ctx.ob(rule, f'{WM}:WcMatch.compare_file/shape', okf, repo.loc(WM, cf.node), 'self.file_check.match(filename)',
           norm_src(bodyf[0].value) if bodyf else 'none')
    # empty patterns
    cp = repo.func(WM, 'WcMatch._compile')
    src_all = norm_src(cp.node)
    ok1 = "re.compile(b'^.*$' if isinstance(file_pattern, bytes) else '^.*$', re.DOTALL)" in src_all
    ok2 = '_wcmatch.WcRegexp(())' in src_all
    ctx.ob(rule, f'{WM}:WcMatch._compile/empty-file-pattern', ok1, repo.loc(WM, cp.node), 'match-everything regex with DOTALL', str(ok1),
           witness="WcMatch('.', '') selects every file, including names with newlines")
    ctx.ob(rule, f'{WM}:WcMatch._compile/empty-exclude-pattern', ok2, repo.loc(WM, cp.node), 'WcRegexp(()) (falsy, matches nothing)', str(ok2))


def rule_pruning(ctx: Ctx, rule: str) -> None:
    ctx.text(rule, 'directories are pruned in place: dirs.remove(name) on the very list bound by the os.walk loop target while '
                   'iterating a copy (dirs[:]); `dirs` is never rebound; os.walk(followlinks=self.follow_links)')
    repo = ctx.repo
    wk = repo.func(WM, 'WcMatch._walk')
    walks = [n for n in walk_no_nested(wk.node) if isinstance(n, ast.For) and isinstance(n.iter, ast.Call) and norm_src(n.iter.func) == 'os.walk']
    if len(walks) != 1:
        raise AnalysisError('_walk: os.walk loop not found')
    w = walks[0]
    tgt = [norm_src(e) for e in w.target.elts] if isinstance(w.target, ast.Tuple) else []
    dirs = tgt[1] if len(tgt) == 3 else None
    fl = next((norm_src(k.value) for k in w.iter.keywords if k.arg == 'followlinks'), None)
    ctx.ob(rule, f'{WM}:WcMatch._walk/followlinks', fl == 'self.follow_links', repo.loc(WM, w), 'os.walk(…, followlinks=self.follow_links)',
           f'followlinks={fl}', witness='WcMatch without SYMLINKS must terminate on a symlink cycle')
    top = norm_src(w.iter.args[0]) if w.iter.args else None
    ctx.ob(rule, f'{WM}:WcMatch._walk/topdown-root', top == 'self._root_dir' and not any(k.arg == 'topdown' for k in w.iter.keywords),
           repo.loc(WM, w), 'os.walk(self._root_dir) top-down (pruning needs top-down)', norm_src(w.iter)[:80])
    removes = [c for c in walk_no_nested(w) if isinstance(c, ast.Call) and isinstance(c.func, ast.Attribute) and c.func.attr == 'remove']
    ctx.floor(rule, 'pruning calls', len(removes), 1)
    okr = dirs is not None and all(norm_src(c.func.value) == dirs for c in removes)
    ctx.ob(rule, f'{WM}:WcMatch._walk/remove-on-walk-list', okr, repo.loc(WM, w), f'{dirs}.remove(name)', '; '.join(norm_src(c) for c in removes),
           witness="WcMatch('.', '*', 'skip', RECURSIVE) must not return files below skip/")
    inner = [n for n in walk_no_nested(w) if isinstance(n, ast.For) and any(c in list(ast.walk(n)) for c in removes)]
    okc = bool(inner) and norm_src(inner[0].iter) in (f'{dirs}[:]', f'list({dirs})', f'{dirs}.copy()')
    ctx.ob(rule, f'{WM}:WcMatch._walk/iterates-copy', okc, repo.loc(WM, inner[0] if inner else w), f'for name in {dirs}[:]',
           norm_src(inner[0].iter) if inner else 'none', witness='removing from the list being iterated skips every other directory')
    rebinds = [s for s in walk_no_nested(w) if isinstance(s, (ast.Assign, ast.AugAssign)) and
               any(norm_src(t) == dirs for t in (s.targets if isinstance(s, ast.Assign) else [s.target]))]
    ctx.ob(rule, f'{WM}:WcMatch._walk/dirs-never-rebound', not rebinds, repo.loc(WM, w), f'`{dirs}` is never assigned', str([norm_src(r) for r in rebinds]),
           witness='`dirs = [d for d in dirs if …]` prunes nothing: os.walk keeps its own list')
    # removal happens exactly when the folder is not valid (or the check raised)
    q = fq(wk)
    for i, c in enumerate(removes, 1):
        g = q.guards(c)
        ok = ('self._valid_folder(base, name)', 'F') in g or q.in_handler(c, {'Exception'})
        ctx.ob(rule, f'{WM}:WcMatch._walk/remove-condition@{i}', ok, repo.loc(WM, c), 'removed iff not _valid_folder (or the check raised)', str(sorted(g))[:120])


# ================================================================================================ C15
def rule_abort_polls(ctx: Ctx, rule: str) -> None:
    ctx.text(rule, 'every cycle of the CFG of WcMatch._walk (with yield nodes and exceptional edges) contains a node that tests '
                   'self.is_aborted() and whose true edge leaves that cycle: removing those polls leaves no natural loop able '
                   'to reach its header again')
    repo = ctx.repo
    wk = repo.func(WM, 'WcMatch._walk')
    q = fq(wk)
    loops = q.cfg.natural_loops()
    ctx.floor(rule, 'natural loops of _walk', len(loops), 3)
    ctx.count('cfg_nodes', len(q.cfg.nodes))
    for header, body in loops:
        polls = set()
        for n in body:
            node = q.cfg.nodes[n]
            if node.kind == 'cond' and norm_src(node.ast) == 'self.is_aborted()':
                t = [d for lab, d in node.succ if lab == 'T']
                if t and all(d not in body for d in t):
                    polls.add(n)
        # can the header reach itself inside the loop without passing a poll?
        seen = set()
        todo = [d for _l, d in q.cfg.nodes[header].succ if d in body and d not in polls]
        cyc = False
        while todo:
            x = todo.pop()
            if x == header:
                cyc = True
                break
            if x in seen:
                continue
            seen.add(x)
            for _l, d in q.cfg.nodes[x].succ:
                if d in body and d not in polls:
                    todo.append(d)
        h = q.cfg.nodes[header]
        what = norm_src(h.ast.iter) if h.kind == 'for' else 'while'
        ctx.ob(rule, f'{WM}:WcMatch._walk/loop[{what}]', not cyc and bool(polls), repo.loc(WM, h.ast),
               'every iteration passes an is_aborted() test whose true edge leaves the loop',
               f'{len(polls)} poll(s), unpolled cycle={cyc}',
               witness='after kill() the remaining files of the directory would still be yielded')
    ia = repo.func(WM, 'WcMatch.is_aborted')
    rets = [s for s in walk_no_nested(ia.node) if isinstance(s, ast.Return)]
    from ..boolform import resolved_src
    ctx.ob(rule, f'{WM}:WcMatch.is_aborted/returns-flag', len(rets) == 1 and resolved_src(ia.node, rets[0].value) == 'self._abort', repo.loc(WM, ia.node),
           'return self._abort', resolved_src(ia.node, rets[0].value) if rets else 'none')


def rule_abort_flag_writers(ctx: Ctx, rule: str) -> None:
    ctx.text(rule, 'sticky flag: _abort is written only in __init__ (False), kill (True) and reset (False); neither _walk, imatch, '
                   'match nor the default hooks write it (attribute stores and setattr)')
    repo = ctx.repo
    writers: dict[str, list[str]] = {}
    for fi in repo.cls(WM, 'WcMatch').methods.values():
        for s in walk_no_nested(fi.node):
            if isinstance(s, (ast.Assign, ast.AugAssign, ast.AnnAssign)):
                for t in (s.targets if isinstance(s, ast.Assign) else [s.target]):
                    if norm_src(t) == 'self._abort':
                        writers.setdefault(fi.name, []).append(norm_src(s))
            if isinstance(s, ast.Call) and isinstance(s.func, ast.Name) and s.func.id in ('setattr', 'delattr') and len(s.args) > 1 and \
                    '_abort' in norm_src(s.args[1]):
                writers.setdefault(fi.name, []).append(norm_src(s))
            if isinstance(s, ast.Delete) and any(norm_src(t) == 'self._abort' for t in s.targets):
                writers.setdefault(fi.name, []).append(norm_src(s))
    want = {'__init__': ['self._abort = False'], 'kill': ['self._abort = True'], 'reset': ['self._abort = False']}
    ctx.ob(rule, f'{WM}:WcMatch/_abort-writers', writers == want, repo.loc(WM, repo.cls(WM, 'WcMatch').node), str(want), str(writers),
           witness='if imatch() cleared the flag, a kill() issued before match() would be lost')


def rule_run_prologue(ctx: Ctx, rule: str) -> None:
    ctx.text(rule, 'per-run prologue: in imatch the call self.on_reset() and the store self._skipped = 0 both dominate the '
                   'iteration of self._walk(), once each; match is list(self.imatch()); _walk recomputes _base_len first')
    repo = ctx.repo
    im = repo.func(WM, 'WcMatch.imatch')
    q = fq(im)
    heads = [n for n in q.cfg.nodes if n.kind == 'for']
    walk_iter = [n for n in heads if norm_src(n.ast.iter) == 'self._walk()']
    if len(walk_iter) != 1:
        raise AnalysisError('imatch: iteration of self._walk() not found')
    h = walk_iter[0].id
    resets = q.calls(lambda s: s == 'self.on_reset')
    zero = q.stmts(lambda n: isinstance(n, ast.Assign) and norm_src(n) == 'self._skipped = 0')
    ok = len(resets) == 1 and len(zero) == 1 and q.cfg.dominates(q.node_of(resets[0]), h) and q.cfg.dominates(q.node_of(zero[0]), h)
    ctx.ob(rule, f'{WM}:WcMatch.imatch/prologue', ok, repo.loc(WM, im.node), 'on_reset() and _skipped = 0 dominate the walk, once each',
           f'on_reset calls={len(resets)}, resets of _skipped={len(zero)}', witness='a second match() must restart get_skipped() at 0 and call on_reset once')
    ys = [n for n in walk_no_nested(im.node) if isinstance(n, (ast.Yield, ast.YieldFrom))]
    oky = len(ys) == 1 and (norm_src(ys[0].value) == 'f' or norm_src(ys[0].value) == 'self._walk()')
    ctx.ob(rule, f'{WM}:WcMatch.imatch/passes-through', oky, repo.loc(WM, im.node), 'yields exactly what _walk yields', '; '.join(norm_src(y) for y in ys))
    mt = repo.func(WM, 'WcMatch.match')
    rets = [s for s in mt.node.body if isinstance(s, ast.Return)]
    ctx.ob(rule, f'{WM}:WcMatch.match/is-list-of-imatch', bool(rets) and norm_src(rets[0].value) == 'list(self.imatch())', repo.loc(WM, mt.node),
           'return list(self.imatch())', norm_src(rets[0].value) if rets else 'none')
    wk = repo.func(WM, 'WcMatch._walk')
    qw = fq(wk)
    bl = qw.stmts(lambda n: isinstance(n, ast.Assign) and norm_src(n.targets[0]) == 'self._base_len')
    fors = [n.id for n in qw.cfg.nodes if n.kind == 'for']
    okb = len(bl) == 1 and norm_src(bl[0].value) == 'len(self._root_dir)' and all(qw.cfg.dominates(qw.node_of(bl[0]), f) for f in fors)
    ctx.ob(rule, f'{WM}:WcMatch._walk/base_len-first', okb, repo.loc(WM, wk.node), 'self._base_len = len(self._root_dir) before any loop', str(okb))


def rule_yield_passthrough(ctx: Ctx, rule: str) -> None:
    ctx.text(rule, 'the operand of every yield in _walk is the direct result of self.on_match(base, name), or a variable whose '
                   'only reaching definition is the direct result of self.on_error(...) / self.on_skip(...) under `is not None`')
    repo = ctx.repo
    wk = repo.func(WM, 'WcMatch._walk')
    q = fq(wk)
    ys = [n for n in walk_no_nested(wk.node) if isinstance(n, ast.Yield)]
    ctx.floor(rule, 'yield sites of _walk', len(ys), 4)
    for i, y in enumerate(ys, 1):
        v = y.value
        if isinstance(v, ast.Call):
            ok = norm_src(v) == 'self.on_match(base, name)'
            ctx.ob(rule, f'{WM}:WcMatch._walk/yield@{i}', ok, repo.loc(WM, y), 'yield self.on_match(base, name)', norm_src(y))
            continue
        if isinstance(v, ast.Name):
            g = q.guards(y)
            guarded = (f'{v.id} is not None', 'T') in g
            # nearest preceding definition in the same block
            from .common import enclosing_map
            par = enclosing_map(wk.node)
            st = par.get(id(par.get(id(y))))  # Expr -> enclosing If
            blk = par.get(id(st))
            body = None
            for fld in ('body', 'orelse', 'handlers'):
                seq = getattr(blk, fld, None)
                if isinstance(seq, list) and st in seq:
                    body = seq
            d = None
            if body is not None:
                idx = body.index(st)
                for prev in reversed(body[:idx]):
                    if isinstance(prev, ast.Assign) and any(isinstance(t, ast.Name) and t.id == v.id for t in prev.targets):
                        d = prev
                        break
            okd = d is not None and norm_src(d.value) in ('self.on_error(base, name)', 'self.on_skip(base, name)')
            ctx.ob(rule, f'{WM}:WcMatch._walk/yield@{i}', guarded and okd, repo.loc(WM, y),
                   'value = self.on_error/on_skip(base, name); if value is not None: yield value',
                   f'definition={norm_src(d) if d is not None else None}, guarded={guarded}',
                   witness='values returned by the hooks must be passed through unchanged')
        else:
            ctx.ob(rule, f'{WM}:WcMatch._walk/yield@{i}', False, repo.loc(WM, y), 'hook result', norm_src(y))
