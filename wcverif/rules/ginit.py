"""Glob.__init__ as a function from the constructor arguments to the walker's attributes.

For a set of wanted attributes the backward slice of __init__ (slicer.py, exits dropped) is tabulated with the flag word as
a symbolic bit-vector; `_flag_transform` and `no_negate_flags` are inlined.  Every rule below states what an attribute is on
every path that reaches the end of the constructor -- how the statements are arranged, whether a bit is removed by `^=` under
a test or by `&= ~mask`, what the temporaries are called, is irrelevant.
"""
from __future__ import annotations

from typing import Any

from ..model import AnalysisError, Repo
from ..report import Ctx
from ..slicer import slice_function
from ..symeval import BV, Obj, Opaque, Path, SymEval, _tag, focus
from .common import cached

WP = '_wcparse'


def rows(repo: Repo, attrs: tuple[str, ...]) -> list[Path]:
    def build() -> list[Path]:
        fi = repo.func('glob', 'Glob.__init__')
        sl = slice_function(fi, {f'self.{a}' for a in attrs}, keep_exits=False, name='+'.join(attrs))
        ev = SymEval(repo, inline_only={f'{WP}:no_negate_flags', 'glob:_flag_transform'}, max_paths=30000)
        args = {p: (BV('flags') if p == 'flags' else Opaque(p)) for p in fi.params() if p != 'self'}
        paths = ev.tabulate(sl, args, Obj(('glob', 'Glob')))
        for p in paths:
            for a in attrs:
                if a not in p.attrs:
                    raise AnalysisError(f'Glob.__init__: self.{a} is not assigned on the path {p.decisions}')
        return paths
    return cached(repo, 'ginit:' + ','.join(attrs), build)


def tail_rows(repo: Repo, attrs: tuple[str, ...]) -> list[Path] | None:
    """Table of the statements after the last assignment of self.flags, with self.flags a fresh symbolic word `flags`.

    None when one of the attributes is not assigned there (the caller then falls back on the full slice).
    """
    def build() -> list[Path] | None:
        import ast
        import copy
        from ..slicer import stores
        fi = repo.func('glob', 'Glob.__init__')
        body = fi.node.body
        last = max((i for i, st in enumerate(body) if 'self.flags' in stores(st)[0]), default=None)
        if last is None:
            raise AnalysisError('Glob.__init__ never assigns self.flags')
        node = copy.copy(fi.node)
        node.body = body[last + 1:]
        from ..model import FuncInfo
        tail = FuncInfo(fi.module, fi.qualname + '::after-flags', node, fi.cls, fi.parent)
        sl = slice_function(tail, {f'self.{a}' for a in attrs}, keep_exits=False, name='+'.join(attrs))
        ev = SymEval(repo, inline_only=set(), max_paths=4000)
        args = {p: Opaque(p) for p in fi.params() if p != 'self'}
        # locals defined before the cut that the tail reads appear as opaque names; `pats` keeps its meaning through its tag
        paths = ev.tabulate(sl, args, Obj(('glob', 'Glob'), {'flags': BV('flags')}))
        for p in paths:
            if any(a not in p.attrs for a in attrs):
                return None
        return paths
    return cached(repo, 'ginit-tail:' + ','.join(attrs), build)


def bit(p: Path, b: int) -> bool | None:
    return p.decisions.get(f'bit:flags:{b:x}')


def excluded(p: Path) -> bool | None:
    """Did the caller pass exclude= (None: the path did not look)?"""
    for k, v in p.decisions.items():
        if k in ('exclude is not None',) or (k.startswith('[exclude]') and 'is not None' in k):
            return v
    # epats = [exclude] if isinstance(exclude, (str, bytes)) else exclude ; epats is not None
    isstr = p.decisions.get('isinstance(exclude, (str, bytes))')
    if isstr is True:
        return True
    return None


def rule_walker_bits(ctx: Ctx, rule: str, which: set[str] | None = None) -> None:
    if which is None:
        ctx.text(rule, 'walker-only flags in Glob.__init__ (slice tables over the flag word): self.mark / self.negateall / self.nodir / '
                       'self.pathlib / self.scandotdir equal the caller\'s MARK / NEGATEALL (cleared by exclude=) / NODIR / _PATHLIB / '
                       'SCANDOTDIR bits; MARK, NEGATEALL, NODIR and _PATHLIB never reach self.flags; self.flags gets NODOTDIR unless '
                       'SCANDOTDIR was requested; REALPATH and PATHNAME are forced')
    repo = ctx.repo
    gi = repo.func('glob', 'Glob.__init__')
    site = repo.loc('glob', gi.node)
    g = repo.mod('glob').env
    w = repo.mod(WP).env
    MARK, SD, PL = g['MARK'], g['SCANDOTDIR'], g['_PATHLIB']
    NA, ND, NDD, RP, PN, NEG = w['NEGATEALL'], w['NODIR'], w['NODOTDIR'], w['REALPATH'], w['PATHNAME'], w['NEGATE']

    def emit(key: str, ok: bool, expect: str, got: str, witness: str = '') -> None:
        if which is None or key in which:
            ctx.ob(rule, f'glob:Glob.__init__/{key}', ok, site, expect, got, witness=witness)

    def attr_is_bit(attr: str, b: int, cleared_by_exclude: bool = False) -> list[str]:
        bad = []
        ps = rows(repo, (attr,))
        if len(ps) < 2:
            raise AnalysisError(f'Glob.__init__: table of self.{attr} has {len(ps)} rows')
        for p in ps:
            v = p.attrs[attr]
            d = bit(p, b)
            if isinstance(v, Opaque) and v.tag == f'bit:flags:{b:x}':
                # the attribute *is* the caller's bit (lazy form)
                if cleared_by_exclude and excluded(p) is not False:
                    bad.append('the bit is taken although exclude= was given')
                continue
            want = d
            if cleared_by_exclude and excluded(p) is True:
                want = False
            if not isinstance(v, bool) or (want is not None and v is not want) or (want is None and v is not False):
                bad.append(f'{p.decisions}: self.{attr} = {v!r}')
        ctx.count(f'{rule}:rows of self.{attr}', len(ps))
        return bad

    for attr, b, name, cbe, wit in (
            ('mark', MARK, 'MARK', False, "glob('*', flags=MARK) appends a separator to directories"),
            ('negateall', NA, 'NEGATEALL', True, "glob('!a', flags=NEGATE|NEGATEALL) lists everything but a"),
            ('nodir', ND, 'NODIR', False, "glob('*', flags=NODIR) returns no directories"),
            ('pathlib', PL, '_PATHLIB', False, 'Path.glob results are normalised the pathlib way'),
            ('scandotdir', SD, 'SCANDOTDIR', False, "glob('.*', flags=SCANDOTDIR) returns `.` and `..`")):
        bad = attr_is_bit(attr, b, cbe)
        emit(attr, not bad, f'self.{attr} = caller\'s {name} bit' + (' (False when exclude= is given: no_negate_flags)' if cbe else ''),
             'as expected' if not bad else bad[0][:200], wit)
    ps = rows(repo, ('flags',))
    stripped, nodot, forced = [], [], []
    for p in ps:
        focus(p)
        v = p.attrs['flags']
        if not isinstance(v, BV):
            stripped.append(f'self.flags = {v!r}')
            continue
        for b, name in ((MARK, 'MARK'), (NA, 'NEGATEALL'), (ND, 'NODIR'), (PL, '_PATHLIB')):
            if not v.must_clear(b):
                stripped.append(f'{name} can reach self.flags')
        sd = bit(p, SD)
        if sd is not True and not v.must_set(NDD):
            nodot.append('without SCANDOTDIR self.flags lacks NODOTDIR')
        if sd is True and v.must_set(NDD) and bit(p, NDD) is not True:
            nodot.append('NODOTDIR forced although SCANDOTDIR was requested')
        if not v.must_set(RP) or not v.must_set(PN):
            forced.append(f'REALPATH/PATHNAME not forced: {_tag(v)}')
    ctx.count(f'{rule}:rows of self.flags', len(ps))
    if len(ps) < 32:
        raise AnalysisError(f'Glob.__init__: table of self.flags has only {len(ps)} rows')
    emit('walker-bits-stripped', not stripped, 'MARK, NEGATEALL, NODIR, _PATHLIB are cleared in self.flags on every path',
         'as expected' if not stripped else sorted(set(stripped))[0], "the pattern parser must not see walker-only bits: _PATHLIB shares no meaning with _wcparse")
    emit('NODOTDIR-default', not nodot, 'self.flags ⊇ NODOTDIR unless SCANDOTDIR', 'as expected' if not nodot else sorted(set(nodot))[0],
         "glob('.*') must not return `.` and `..`")
    emit('realpath-forced', not forced, 'self.flags ⊇ REALPATH | PATHNAME', 'as expected' if not forced else forced[0][:160],
         "glob() always matches against the file system with path semantics")


def rule_derived_attrs(ctx: Ctx, rule: str, which: set[str] | None = None) -> None:
    if which is None:
        ctx.text(rule, 'attributes derived from self.flags in Glob.__init__ (slice tables): negate_flags = self.flags | DOTMATCH | '
                       '_NO_GLOBSTAR_CAPTURE (taken before NODOTDIR is added or not -- either is fine); raw_chars / dot / negate / braces / '
                       'matchbase / globstarlong are the like-named bits of self.flags; unix = ¬FORCEWIN; globstar = GLOBSTARLONG ∨ '
                       'GLOBSTAR; follow_links = FOLLOW ∧ ¬GLOBSTARLONG; stars / specials / current / empty / sep / seps / re_no_dir / '
                       're_pathlib_norm are the str or bytes twin chosen by the pattern type and FORCEWIN')
    repo = ctx.repo
    gi = repo.func('glob', 'Glob.__init__')
    site = repo.loc('glob', gi.node)
    w = repo.mod(WP).env
    g = repo.mod('glob').env

    def emit(key: str, ok: bool, expect: str, got: str, witness: str = '') -> None:
        ctx.ob(rule, f'glob:Glob.__init__/{key}', ok, site, expect, got, witness=witness)

    def flags_of(p: Path) -> BV | None:
        v = p.attrs.get('flags')
        return v if isinstance(v, BV) else None

    def value_bit(fl: BV, p: Path, b: int) -> bool | None:
        if fl.known & b:
            return bool(fl.val & b)
        return p.decisions.get(f'bit:{fl.origin}:{b:x}')

    simple = (('raw_chars', 'RAWCHARS', False), ('dot', 'DOTMATCH', False), ('negate', 'NEGATE', False), ('braces', 'BRACE', False),
              ('matchbase', 'MATCHBASE', False), ('globstarlong', 'GLOBSTARLONG', False), ('unix', 'FORCEWIN', True))
    for attr, cname, inverted in simple:
        if which is not None and attr not in which:
            continue
        b = w[cname]
        ps = tail_rows(repo, (attr,)) or rows(repo, (attr, 'flags'))
        bad = []
        for p in ps:
            fl = flags_of(p)
            v = p.attrs[attr]
            if fl is None:
                bad.append('self.flags not a flag word')
                continue
            fb = value_bit(fl, p, b)
            if isinstance(v, Opaque):
                # lazy bit of the transformed word: bit:<origin>:<hex> of the same origin, only if the bit passes through self.flags
                if v.tag == f'bit:flags:{b:x}' and not (fl.known & b) and not inverted:
                    continue
                if v.tag == f'not(bit:flags:{b:x})' and not (fl.known & b) and inverted:
                    continue
                bad.append(f'self.{attr} = {v.tag}')
                continue
            if fb is None:
                bad.append(f'self.{attr} = {v!r} although the bit is undecided')
            elif v is not ((not fb) if inverted else fb):
                bad.append(f'{cname}={fb}: self.{attr} = {v!r}')
        emit(attr, not bad and len(ps) >= 1, f'self.{attr} = {"not " if inverted else ""}bool(self.flags & {cname})', 'as expected' if not bad else bad[0][:160])
    if which is None or 'case_sensitive' in which:
        ps = tail_rows(repo, ('case_sensitive',)) or rows(repo, ('case_sensitive', 'flags'))
        bad = []
        for p in ps:
            focus(p)
            fl = flags_of(p)
            v = p.attrs['case_sensitive']
            if fl is None or not isinstance(v, Opaque) or v.tag != f'{WP}:get_case({_tag(fl)})':
                bad.append(f'self.case_sensitive = {v!r}')
        emit('case_sensitive', not bad and len(ps) >= 1, 'self.case_sensitive = _wcparse.get_case(self.flags)', 'as expected' if not bad else bad[0][:160],
             "glob('a', flags=IGNORECASE) must use the same case rule as the compiled patterns")
    if which is None or 'root_dir' in which:
        ps = rows(repo, ('root_dir',))
        bad = []
        for p in ps:
            focus(p)
            given = p.decisions.get('root_dir is not None')
            isb = [v for k, v in p.decisions.items() if k.startswith('isinstance(') and k.endswith(', bytes)') and 'fspath' not in k]
            v = p.attrs['root_dir']
            if given is True:
                okv = v == Opaque('os.fspath(root_dir)')
            elif given is False:
                okv = len(isb) == 1 and v == (b'.' if isb[0] else '.')
            else:
                okv = False
            if not okv:
                bad.append(f'root_dir given={given} bytes={isb}: self.root_dir = {_tag(v)[:60]}')
        emit('root_dir', not bad and len(ps) >= 3, 'self.root_dir = os.fspath(root_dir) unchanged, or the current-directory name of the pattern type', 'as expected' if not bad else bad[0],
             "glob('*', root_dir='/') must list the file-system root: the root is used exactly as given")
    # ---- negate_flags
    if which is None or 'negate_flags' in which:
        D, NC, NDD = w['DOTMATCH'], w['_NO_GLOBSTAR_CAPTURE'], w['NODOTDIR']
        ps = rows(repo, ('negate_flags', 'flags'))
        bad = []
        for p in ps:
            fl, nf = flags_of(p), p.attrs['negate_flags']
            if fl is None or not isinstance(nf, BV):
                bad.append(f'negate_flags = {nf!r}')
                continue
            if not nf.must_set(D | NC):
                bad.append('DOTMATCH / _NO_GLOBSTAR_CAPTURE not forced')
            rest = ~(D | NC | NDD)
            if (nf.known & rest) != (fl.known & rest) or (nf.val & rest) != (fl.val & rest):
                bad.append('differs from self.flags in other bits')
        emit('self.negate_flags', not bad and len(ps) >= 8, 'self.flags | DOTMATCH | _NO_GLOBSTAR_CAPTURE', 'as expected' if not bad else bad[0],
             "glob('*', flags=NEGATE, exclude='*') must also drop dot files found through `.*`")
    # ---- globstar / follow_links
    GS, GSL, FO = w['GLOBSTAR'], w['GLOBSTARLONG'], w['FOLLOW']
    for attr, fn_, text in (('globstar', lambda a, b_, c: a or b_, 'GLOBSTARLONG ∨ GLOBSTAR'), ('follow_links', lambda a, b_, c: c and not a, 'FOLLOW ∧ ¬GLOBSTARLONG')):
        if which is not None and attr not in which:
            continue
        ps = tail_rows(repo, (attr,)) or rows(repo, (attr, 'flags'))
        bad = []
        for p in ps:
            fl = flags_of(p)
            v = p.attrs[attr]
            if fl is None:
                bad.append('self.flags not a flag word')
                continue
            vals = {n: value_bit(fl, p, b) for n, b in (('l', GSL), ('s', GS), ('f', FO))}
            if isinstance(v, Opaque):
                # undecided single bit left lazily
                okl = (attr == 'globstar' and vals['l'] is False and v.tag == f'bit:flags:{GS:x}') or \
                      (attr == 'follow_links' and vals['f'] is True and False)
                if not okl:
                    bad.append(f'self.{attr} = {v.tag} with {vals}')
                continue
            need = [vals['l'], vals['s']] if attr == 'globstar' else [vals['l'], vals['f']]
            known = [x for x in need if x is not None]
            exp = None
            if attr == 'globstar':
                exp = True if True in need else (False if need == [False, False] else None)
            else:
                exp = False if (vals['f'] is False or vals['l'] is True) else (True if (vals['f'] is True and vals['l'] is False) else None)
            if exp is None or v is not exp:
                bad.append(f'{vals}: self.{attr} = {v!r}')
        emit(attr, not bad and len(ps) >= 3, f'self.{attr} = {text} (bits of self.flags)', 'as expected' if not bad else bad[0][:160],
             "glob('***/x', GLOBSTARLONG) follows links without FOLLOW; FOLLOW|GLOBSTARLONG leaves `**` not following")
    # ---- str / bytes twins
    if which is None or 'twins' in which:
        FW = w['FORCEWIN']
        attrs = ('stars', 'specials', 'current', 'empty', 'sep', 'seps', 're_no_dir', 're_pathlib_norm', 'flags')
        ps = tail_rows(repo, attrs[:-1]) or rows(repo, attrs)
        bad = []
        for p in ps:
            fl = flags_of(p)
            isb = [v for k, v in p.decisions.items() if k.startswith('isinstance(') and k.endswith(', bytes)')]
            if fl is None or len(isb) != 1:
                bad.append(f'pattern type not decided once: {isb}')
                continue
            win = value_bit(fl, p, FW)
            if win is None:
                bad.append('FORCEWIN of self.flags not decided although sep depends on it')
                continue
            k = 1 if isb[0] else 0
            enc = (lambda s_: s_.encode('latin-1')) if isb[0] else (lambda s_: s_)
            sep = enc('\\' if win else '/')
            exp = {'stars': enc('**'), 'specials': (enc('.'), enc('..')), 'current': enc('.'), 'empty': enc(''), 'sep': sep,
                   'seps': (enc('/'), sep) if win else (sep,),
                   're_no_dir': (w['RE_WIN_NO_DIR'] if win else w['RE_NO_DIR'])[k],
                   're_pathlib_norm': (g['_RE_WIN_PATHLIB_DOT_NORM'] if win else g['_RE_PATHLIB_DOT_NORM'])[k]}
            for a, e in exp.items():
                if p.attrs[a] != e:
                    bad.append(f'bytes={isb[0]} win={win}: self.{a} = {str(p.attrs[a])[:50]!r}')
        emit('twins', not bad and len(ps) >= 4, 'every text constant of the walker is the str / bytes, posix / windows twin that fits', 'as expected' if not bad else bad[0][:200],
             "glob(b'*') must compare names with b'.' and join with b'/'")
