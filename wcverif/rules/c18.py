"""C18: bytes and str behave identically (twin constants, twin indexing, latin-1 pairing, type checks)."""
from __future__ import annotations

import ast
from typing import Any

from ..boolform import inline_locals
from ..model import AnalysisError, RegexConst, norm_src, walk_no_nested
from ..pathq import fq
from ..report import Ctx
from .common import enclosing_map

WP = '_wcparse'
TWIN_MODULES = ('_wcparse', '_wcmatch', 'glob', 'util', 'fnmatch', 'wcmatch', 'pathlib')


def _kind(v: Any) -> str:
    if isinstance(v, str):
        return 'str'
    if isinstance(v, bytes):
        return 'bytes'
    if isinstance(v, RegexConst):
        return 're:' + _kind(v.pattern)
    if isinstance(v, frozenset) and v:
        ks = {_kind(x) if not isinstance(x, int) else 'int' for x in v}
        return 'set:' + '/'.join(sorted(ks))
    return type(v).__name__


def twin_tuples(repo: Any) -> dict[tuple[str, str], tuple]:
    out = {}
    for m in TWIN_MODULES:
        for name, v in repo.mod(m).env.items():
            if isinstance(v, tuple) and len(v) == 2:
                k0, k1 = _kind(v[0]), _kind(v[1])
                if k0 in ('str', 're:str', 'set:str') or k1 in ('bytes', 're:bytes'):
                    if k0 in ('str', 're:str', 'set:str') and (k1 in ('bytes', 're:bytes', 'set:int', 'set:bytes', 'str', 're:str', 'set:str')):
                        out[(m, name)] = v
    return out


def rule_twin_constants(ctx: Ctx, rule: str) -> None:
    ctx.text(rule, 'every module-level (str, bytes) twin tuple: the bytes half is the latin-1 encoding of the str half '
                   '(regex text and flags, literal text, or element set); util.UNICODE == 0 and util.BYTES == 1 give the order')
    repo = ctx.repo
    ctx.ob(rule, 'util:UNICODE/BYTES', repo.const('util', 'UNICODE') == 0 and repo.const('util', 'BYTES') == 1,
           repo.loc('util', repo.const_line('util', 'BYTES')), 'UNICODE = 0, BYTES = 1',
           f"UNICODE = {repo.const('util', 'UNICODE')}, BYTES = {repo.const('util', 'BYTES')}",
           witness='swapping them makes every bytes call use the str regexes: TypeError / wrong answers')
    twins = twin_tuples(repo)
    n = 0
    for (m, name), (a, b) in sorted(twins.items()):
        site = repo.loc(m, repo.const_line(m, name))
        ok, got = False, ''
        if isinstance(a, str):
            ok = isinstance(b, bytes) and a.encode('latin-1', 'replace') == b
            got = f'{a!r} / {b!r}'
        elif isinstance(a, RegexConst):
            ok = isinstance(b, RegexConst) and isinstance(a.pattern, str) and isinstance(b.pattern, bytes) and \
                a.pattern.encode('latin-1', 'replace') == b.pattern and a.flags == b.flags
            got = 'equal' if ok else f'{a.pattern!r} flags={a.flags} / {getattr(b, "pattern", b)!r} flags={getattr(b, "flags", None)}'
        elif isinstance(a, frozenset):
            want = {ord(c) for c in a if isinstance(c, str) and len(c) == 1}
            have = {x if isinstance(x, int) else (x[0] if isinstance(x, bytes) and len(x) == 1 else None) for x in b} \
                if isinstance(b, frozenset) else None
            ok = have == want and len(want) == len(a)
            got = f'{sorted(a)} / {sorted(map(repr, b)) if isinstance(b, frozenset) else b!r}'
        n += 1
        ctx.ob(rule, f'{m}:{name}', ok, site, 'second element = first element encoded as latin-1 (same re flags)', got,
               witness=f"an edit to only one half of {name} makes bytes and str calls disagree, e.g. escape(b'~') vs escape('~')")
    ctx.floor(rule, 'twin tuples', n, 26)
    # symbol sets that are tested against a slice of the (str or bytes) pattern must contain both forms of every symbol
    used: dict[tuple[str, str], ast.AST] = {}
    for mod in repo.modules.values():
        for fi in mod.functions.values():
            for c in walk_no_nested(fi.node):
                if isinstance(c, ast.Compare) and len(c.ops) == 1 and isinstance(c.ops[0], (ast.In, ast.NotIn)) and \
                        isinstance(c.left, ast.Subscript) and isinstance(c.left.slice, ast.Slice) and isinstance(c.comparators[0], ast.Name):
                    nm = c.comparators[0].id
                    v = mod.env.get(nm)
                    if isinstance(v, (frozenset, tuple)) and v and all(isinstance(x, (str, bytes)) for x in v):
                        used.setdefault((mod.name, nm), c)
    m2 = 0
    for (mname, name), site_node in sorted(used.items()):
        v = repo.mod(mname).env[name]
        m2 += 1
        s_ = {x for x in v if isinstance(x, str)}
        b_ = {x for x in v if isinstance(x, bytes)}
        ok = {x.encode('latin-1') for x in s_} == b_ and bool(s_)
        ctx.ob(rule, f'{mname}:{name}/mixed-set', ok, repo.loc(mname, repo.const_line(mname, name)), 'every str member has its bytes twin and vice versa',
               f'str {sorted(s_)} / bytes {sorted(b_)}', witness="b'!(a)' with NEGATE|EXTMATCH must be an extended group like '!(a)'")
    ctx.floor(rule, 'mixed str/bytes symbol sets', m2, 3)


def _index_kind(repo: Any, mod: str, idx: ast.AST) -> Any:
    s = norm_src(idx)
    if s in ('util.BYTES', '1'):
        return 1
    if s in ('util.UNICODE', '0'):
        return 0
    return s


def _is_bytes_test(txt: str) -> bool:
    return txt.startswith('isinstance(') and txt.endswith(', bytes)')


def _type_guards(q: Any, node: Any) -> list[tuple[str, str]]:
    """The guards of `node` that fix the string type: (resolved test, polarity).  A guard that is a local holding the result of the
    type test (`is_bytes = isinstance(x, bytes)`; `if is_bytes:`) counts as the test itself; `not` flips the polarity."""
    out = []
    for t, p in q.guards(node):
        if p not in ('T', 'F'):
            continue
        try:
            e = ast.parse(t, mode='eval').body
        except SyntaxError:
            continue
        while isinstance(e, ast.UnaryOp) and isinstance(e.op, ast.Not):
            e, p = e.operand, ('F' if p == 'T' else 'T')
        if isinstance(e, ast.Name):
            e = inline_locals(q.fi.node, e)
            while isinstance(e, ast.UnaryOp) and isinstance(e.op, ast.Not):
                e, p = e.operand, ('F' if p == 'T' else 'T')
        r = norm_src(e)
        if _is_bytes_test(r):
            out.append((r, p))
    return out


def _index_ifexp(fn: ast.AST, idx: ast.AST) -> bool | None:
    """`1 if <bytes test> else 0` (or with util.BYTES/util.UNICODE, or negated and swapped): True if the index follows the type."""
    if not isinstance(idx, ast.IfExp):
        return None
    t = inline_locals(fn, idx.test)
    neg = False
    while isinstance(t, ast.UnaryOp) and isinstance(t.op, ast.Not):
        t, neg = t.operand, not neg
    if isinstance(t, ast.Name):
        t = inline_locals(fn, t)
    b, o = norm_src(idx.body), norm_src(idx.orelse)
    if neg:
        b, o = o, b
    return _is_bytes_test(norm_src(t)) and b in ('util.BYTES', '1') and o in ('util.UNICODE', '0')


def rule_twin_indexing(ctx: Ctx, rule: str) -> None:
    ctx.text(rule, 'a twin tuple is subscripted only by util.BYTES/util.UNICODE/0/1 in a branch that fixes the type by '
                   'isinstance(x, bytes), or by a variable all of whose definitions are `util.BYTES` under such a test and '
                   '`util.UNICODE` otherwise')
    repo = ctx.repo
    twins = twin_tuples(repo)
    names_by_mod: dict[str, set[str]] = {}
    for (m, name) in twins:
        names_by_mod.setdefault(m, set()).add(name)
    n = 0
    for m in repo.modules.values():
        for fi in m.functions.values():
            if not hasattr(fi.node, 'body'):
                continue
            q = None
            for sub in walk_no_nested(fi.node):
                if not isinstance(sub, ast.Subscript):
                    continue
                base = sub.value
                if isinstance(base, ast.Name) and base.id not in names_by_mod.get(m.name, ()):
                    base = inline_locals(fi.node, base)  # a local that names one of the twins
                # (A if c else B)[k]
                cands = [base.body, base.orelse] if isinstance(base, ast.IfExp) else [base]
                tw = []
                for c in cands:
                    r = None
                    if isinstance(c, ast.Name) and c.id in names_by_mod.get(m.name, ()):
                        r = (m.name, c.id)
                    elif isinstance(c, ast.Attribute) and isinstance(c.value, ast.Name):
                        mr = m.env.get(c.value.id)
                        if getattr(mr, 'internal', False) and c.attr in names_by_mod.get(mr.name, ()):
                            r = (mr.name, c.attr)
                    if r:
                        tw.append(r)
                if not tw:
                    continue
                if q is None:
                    q = fq(fi)
                n += 1
                k = _index_kind(repo, m.name, sub.slice)
                key = f'{fi.fq}/{norm_src(sub)}@{n}'
                site = repo.loc(m.name, sub)
                witness = "glob.escape(b'a*') must use the bytes regex; a str index raises TypeError or silently mismatches"
                if isinstance(k, int):
                    tests = _type_guards(q, sub)
                    ok = any(p == ('T' if k else 'F') for _t, p in tests)
                    ctx.ob(rule, key, ok, site, f'index {k} under isinstance(…, bytes) = {bool(k)}',
                           f'guards {sorted(tests)}', witness=witness)
                    continue
                ok, why = _var_index_ok(repo, fi, q, sub.slice)
                ctx.ob(rule, key, ok, site, 'index variable = util.BYTES iff the value is bytes', why, witness=witness)
    ctx.floor(rule, 'twin subscripts', n, 20)


def _var_index_ok(repo: Any, fi: Any, q: Any, idx: ast.AST) -> tuple[bool, str]:
    r = _index_ifexp(fi.node, idx)
    if r is not None:
        return r, norm_src(idx)
    if isinstance(idx, ast.Name):
        defs = [s for s in walk_no_nested(fi.node) if isinstance(s, ast.Assign) and
                any(isinstance(t, ast.Name) and t.id == idx.id for t in s.targets)]
        return _defs_ok(q, defs, idx.id)
    if isinstance(idx, ast.Attribute) and isinstance(idx.value, ast.Name) and idx.value.id == 'self' and fi.cls:
        init = repo.find_method(fi.module, fi.cls, '__init__')
        if init is None:
            return False, 'no __init__'
        defs = [s for s in walk_no_nested(init.node) if isinstance(s, ast.Assign) and
                any(norm_src(t) == norm_src(idx) for t in s.targets)]
        return _defs_ok(fq(init), defs, norm_src(idx))
    return False, f'index expression {norm_src(idx)} not tied to a type test'


def _defs_ok(q: Any, defs: list, name: str) -> tuple[bool, str]:
    if not defs:
        return False, f'{name}: no definition found'
    for d in defs:
        v = d.value
        if isinstance(v, ast.IfExp):
            if _index_ifexp(q.fi.node, v):
                continue
            return False, f'{norm_src(d)}'
        s = norm_src(v)
        if s in ('util.BYTES', '1'):
            if not any(p == 'T' for _t, p in _type_guards(q, d)):
                return False, f'`{norm_src(d)}` not under isinstance(…, bytes)'
        elif s in ('util.UNICODE', '0'):
            if not any(p == 'F' for _t, p in _type_guards(q, d)):
                return False, f'`{norm_src(d)}` not under the str branch'
        else:
            return False, f'{norm_src(d)}'
    return True, f'{name} defined by the type test'


def rule_latin1_pairing(ctx: Ctx, rule: str) -> None:
    ctx.text(rule, 'WcParse.parse, WcSplit.split, _GlobSplit.split (decision tables / per-site slices, argument values): with a bytes '
                   "pattern the text is decoded with 'latin-1' once and every value leaving the function (return, yield, store "
                   "argument, _GlobPart field) is a bytes constant or ends in .encode('latin-1'); with a str pattern nothing is "
                   'transcoded and nothing bytes leaves')
    from .common import api_table, site_events
    from ..symeval import Tok, _tag, focus
    repo = ctx.repo
    n_out = 0
    BT = 'isinstance(self.pattern, bytes)'

    def out_ok(v: Any, is_bytes: bool) -> bool:
        if isinstance(v, (str, bytes)):
            return isinstance(v, bytes) == is_bytes
        t = _tag(v)
        if is_bytes:
            return t.endswith(".encode('latin-1')")
        return '.encode(' not in t and '.decode(' not in t and "b'" not in t

    def codecs_ok(p: Any) -> list[str]:
        bad = []
        for e in p.of('call'):
            if e[1].endswith('.decode') or e[1].endswith('.encode'):
                if e[2] != ['latin-1'] or e[3]:
                    bad.append(f'{e[1][-30:]}({e[2]})')
                if p.decisions.get(BT) is not True:
                    bad.append(f'{e[1][-20:]} on the str path')
        return bad

    # ---- WcParse.parse: the returned regex
    fi = repo.func(WP, 'WcParse.parse')
    _ev, paths = api_table(repo, WP, 'WcParse.parse')
    bad = []
    for p in paths:
        focus(p)
        isb = p.decisions.get(BT)
        n_out += 1
        inner = "self.pattern.decode('latin-1')" if isb else 'self.pattern'
        want = f"{WP}:WcParse._parse({inner})" + (".encode('latin-1')" if isb else '')
        if isb is None or _tag(p.ret) != want:
            bad.append(f'bytes={isb}: returns {_tag(p.ret)[:90]}')
        bad += codecs_ok(p)
    ctx.ob(rule, f'{WP}:WcParse.parse/out', not bad and len(paths) == 2, repo.loc(WP, fi.node),
           "bytes: _parse(pattern.decode('latin-1')).encode('latin-1'); str: _parse(pattern)", f'{len(paths)} rows agree' if not bad else bad[0],
           witness="fnmatch.translate(b'a') must return bytes regexes; fnmatch(b'\\xe9', b'[\\xe0-\\xff]') must be True")
    # ---- WcSplit.split: the yielded pieces
    fi = repo.func(WP, 'WcSplit.split')
    _ev, paths = api_table(repo, WP, 'WcSplit.split')
    bad = []
    for p in paths:
        focus(p)
        isb = p.decisions.get(BT)
        ys = p.of('yield')
        n_out += len(ys)
        if isb is None or len(ys) != 1:
            bad.append(f'bytes={isb}: {len(ys)} yields')
            continue
        y = ys[0][1]
        src = f"{WP}:WcSplit._split(" + ("self.pattern.decode('latin-1')" if isb else 'self.pattern') + ')'
        if isb:
            okv = _tag(y) == f"elem({src}).encode('latin-1')"
        else:
            okv = (isinstance(y, tuple) and y[0] == 'from' and _tag(y[1]) == src) or _tag(y) == f'elem({src})'
        if not okv:
            bad.append(f'bytes={isb}: yields {_tag(y)[:90]}')
        bad += codecs_ok(p)
    ctx.ob(rule, f'{WP}:WcSplit.split/out', not bad and len(paths) == 2, repo.loc(WP, fi.node),
           "bytes: each piece of _split(pattern.decode('latin-1')) re-encoded; str: the pieces of _split(pattern)", f'{len(paths)} rows agree' if not bad else bad[0],
           witness="fnmatch(b'a', b'a|b', flags=SPLIT) must not mix str pieces into a bytes call")
    # ---- _GlobSplit.split: every stored part
    fi = repo.func('glob', '_GlobSplit.split')
    sites = site_events(repo, 'glob', '_GlobSplit.split', lambda c: norm_src(c.func) in ('self.store', '_GlobPart'))
    for k, (c0, hits) in enumerate(sites, 1):
        bad = []
        seen = set()
        for p, e in hits:
            focus(p)
            isb = p.decisions.get(BT)
            seen.add(isb)
            b = e[2][0] if e[2] else e[3].get('value', e[3].get('pattern'))
            if isb is None or not out_ok(b, isb):
                bad.append(f'bytes={isb}: {_tag(b)[:80]}')
            bad += codecs_ok(p)
        n_out += 1
        ctx.ob(rule, f'glob:_GlobSplit.split/out@{k}', not bad and seen == {True, False}, repo.loc('glob', c0),
               "first argument: bytes constant or ….encode('latin-1') iff the pattern is bytes", f'{len(hits)} events agree' if not bad else sorted(set(bad))[0],
               witness="glob(b'*') must build bytes segment patterns")
    ctx.floor(rule, 'outgoing values', n_out, 6)


def rule_type_checks(ctx: Ctx, rule: str) -> None:
    ctx.text(rule, 'the TypeError tests exist and precede use: in _Match.match both tests dominate the first file-system call '
                   'and _match_real; in Glob.__init__ the root_dir/pattern test dominates _parse_patterns')
    repo = ctx.repo
    mm = repo.func('_wcmatch', '_Match.match')
    q = fq(mm)
    raises = [r for r in q.stmts(lambda x: isinstance(x, ast.Raise)) if r.exc is not None and norm_src(r.exc).startswith('TypeError')]
    ctx.floor(rule, 'TypeError raises in _Match.match', len(raises), 2)
    conds = []
    for r in raises:
        g = [t for t, p in q.guards(r) if 'isinstance' in t]
        conds.append(g)
    uses = q.calls(lambda s: s in ('os.path.lexists', 'os.lstat', 'self._match_real'))
    ctx.floor(rule, 'uses after the type checks', len(uses), 3)
    cond_nodes = [n for n in q.cfg.nodes if n.kind == 'cond' and any(norm_src(n.ast) in g for g in conds)]
    for i, u in enumerate(uses, 1):
        un = q.node_of(u)
        ok = all(any(q.cfg.dominates(c.id, un) for c in cond_nodes if norm_src(c.ast) in g) for g in conds if g)
        ctx.ob(rule, f'_wcmatch:_Match.match/{norm_src(u.func)}@{i}', ok and len(conds) >= 2, repo.loc('_wcmatch', u),
               'dominated by both isinstance type tests', str(ok),
               witness="globmatch(b'a', 'a', flags=REALPATH) must raise TypeError, not answer")
    from .common import site_events
    sites = site_events(repo, 'glob', 'Glob.__init__', lambda c: norm_src(c.func) == 'self._parse_patterns', keep_exits=True, all_paths=True,
                        inline_only={'_wcparse:no_negate_flags', 'glob:_flag_transform'}, inline=True, max_paths=60000)
    ctx.floor(rule, 'pattern parsing passes in Glob.__init__', len(sites), 2)
    for i, (c0, hits, paths) in enumerate(sites, 1):
        raising = [p for p in paths if p.raised == 'TypeError']
        tests = {list(p.decisions)[-1] for p in raising if p.decisions}
        ok = bool(raising) and bool(hits) and all(k.startswith('isinstance(') for k in tests) and \
            all(any(t in p.decisions for t in tests) for p, _e in hits)
        ctx.ob(rule, f'glob:Glob.__init__/_parse_patterns@{i}', ok, repo.loc('glob', c0),
               'every path that parses patterns has passed the root_dir / pattern type test (the failing side raises TypeError)',
               f'{len(hits)} parsing paths, {len(raising)} raising paths, tests {sorted(t[:50] for t in tests)}',
               witness="glob('*', root_dir=b'.') must raise TypeError")


def rule_literal_twins(ctx: Ctx, rule: str) -> None:
    ctx.text(rule, 'inside functions that branch on isinstance(x, bytes) and assign the same variables in both arms, '
                   'corresponding constant assignments are latin-1 twins of each other')
    repo = ctx.repo
    n = 0
    for m in repo.modules.values():
        for fi in m.functions.values():
            if not hasattr(fi.node, 'body'):
                continue
            for st in walk_no_nested(fi.node):
                if not (isinstance(st, ast.If) and _is_bytes_test(norm_src(st.test)) and st.orelse):
                    continue

                def consts(body: list) -> dict[str, Any]:
                    out = {}
                    for s in body:
                        if isinstance(s, ast.Assign) and len(s.targets) == 1 and isinstance(s.value, ast.Constant) and \
                                isinstance(s.value.value, (str, bytes)):
                            out[norm_src(s.targets[0])] = s.value.value
                        elif isinstance(s, ast.Assign) and len(s.targets) == 1 and isinstance(s.value, ast.Tuple) and \
                                all(isinstance(e, ast.Constant) and isinstance(e.value, (str, bytes)) for e in s.value.elts):
                            out[norm_src(s.targets[0])] = tuple(e.value for e in s.value.elts)
                    return out
                a, b = consts(st.body), consts(st.orelse)
                for k in sorted(set(a) & set(b)):
                    n += 1
                    va, vb = a[k], b[k]

                    def enc(x: Any) -> Any:
                        return tuple(enc(e) for e in x) if isinstance(x, tuple) else (x.encode('latin-1') if isinstance(x, str) else None)
                    ok = enc(vb) == va
                    ctx.ob(rule, f'{fi.fq}/{k}', ok, repo.loc(m.name, st), f'bytes arm = latin-1 of str arm ({vb!r})', f'{va!r}',
                           witness=f"{fi.qualname}: bytes and str inputs would be treated differently")
            # conditional expressions `b'x' if <bytes test> else 'x'`
            for e in walk_no_nested(fi.node):
                if isinstance(e, ast.IfExp) and isinstance(e.body, ast.Constant) and isinstance(e.orelse, ast.Constant) and \
                        isinstance(e.body.value, bytes) and isinstance(e.orelse.value, str):
                    n += 1
                    ok = e.orelse.value.encode('latin-1') == e.body.value
                    ctx.ob(rule, f'{fi.fq}/ifexp[{norm_src(e)[:50]}]', ok, repo.loc(m.name, e), 'latin-1 twins', norm_src(e)[:80],
                           witness='bytes and str inputs would be treated differently')
    ctx.floor(rule, 'literal twin assignments', n, 10)
