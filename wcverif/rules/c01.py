"""C01: file-name matching follows the documented wildcard language (rules R2, R3ii, R4, R5)."""
from __future__ import annotations

import ast
from typing import Any

from .. import rx
from ..boolform import resolved_src
from ..model import AnalysisError, norm_src, walk_no_nested
from ..report import Ctx
from .common import enclosing_map
from .frag import SLOT, ref_slots

EXT_DOC = {'?': r'(?:X0)?', '*': r'(?:X0)*', '+': r'(?:X0)+', '@': r'(?:X0)'}


def _template_names(node: ast.AST) -> tuple[str | None, str | None]:
    """`(A if self.capture else B).format(...)` -> (A, B); `B.format(...)` -> (None, B)."""
    if isinstance(node, ast.IfExp) and isinstance(node.body, ast.Name) and isinstance(node.orelse, ast.Name):
        t = norm_src(node.test)
        if t == 'self.capture':
            return node.body.id, node.orelse.id
        if t == 'not self.capture':
            return node.orelse.id, node.body.id
    if isinstance(node, ast.Name):
        return None, node.id
    return None, None


def rule_extglob_dispatch(ctx: Ctx, rule: str) -> None:
    ctx.text(rule, 'in WcParse.parse_extend (per-site slices of every `<template>.format(<joined alternatives>)` call, argument values): '
                   'for list type T the template that is formatted has the documented repeat bounds for T (? 0..1, * 0..inf, + '
                   '1..inf, @ exactly one, ! negation) in the capture and in the plain variant; its content slot receives the joined '
                   'alternatives of this group; the set of dispatched types equals EXT_TYPES -- however the dispatch is written (if '
                   'chain, table lookup)')
    from .common import site_events
    from ..symeval import focus, _tag
    repo = ctx.repo
    fi = repo.func('_wcparse', 'WcParse.parse_extend')
    ext_types = repo.const('_wcparse', 'EXT_TYPES')
    close = repo.const('_wcparse', '_EXCLA_GROUP_CLOSE')
    site0 = repo.loc('_wcparse', fi.node)
    sites = site_events(repo, '_wcparse', 'WcParse.parse_extend', lambda c: isinstance(c.func, ast.Attribute) and c.func.attr == 'format')
    seen: dict[tuple[str, bool], set[str]] = {}
    content: dict[str, set[str]] = {}
    where: dict[str, ast.AST] = {}
    for c0, hits in sites:
        for p, e in hits:
            focus(p)
            if not e[1].endswith('.format') or not e[2] or not _tag(e[2][0]).startswith("''.join("):
                continue
            try:
                tmpl = ast.literal_eval(e[1][:-len('.format')])
            except (ValueError, SyntaxError):
                continue
            ts = [ast.literal_eval(k[len('c == '):]) for k, v in p.decisions.items() if v and k.startswith('c == ')]
            cap = p.decisions.get('self.capture')
            if len(ts) != 1 or cap is None or not isinstance(tmpl, str):
                raise AnalysisError(f'parse_extend: a group template is formatted without a decided list type / capture mode (types {ts}, capture {cap})')
            seen.setdefault((ts[0], cap), set()).add(tmpl)
            content.setdefault(ts[0], set()).add(_tag(e[2][0]))
            where.setdefault(ts[0], c0)
    types = {t for t, _c in seen}
    ctx.floor(rule, 'dispatch arms', len(types), 3)
    ctx.ob(rule, '_wcparse:WcParse.parse_extend/dispatched-types', types == set(ext_types), site0,
           f'group templates formatted for {sorted(ext_types)}', f'{sorted(types)}',
           witness="a list type in EXT_TYPES without an arm silently drops the group")
    for t in sorted(types):
        key = f'_wcparse:WcParse.parse_extend/arm[{t}]'
        site = repo.loc('_wcparse', where[t])
        for cap, which in ((False, 'plain'), (True, 'capture')):
            tm = seen.get((t, cap), set())
            if len(tm) != 1:
                ctx.ob(rule, f'{key}/{which}', False, site, 'one template per list type and capture mode', f'{sorted(tm)}')
                continue
            tmpl = next(iter(tm))
            try:
                if t == '!':
                    text = tmpl.format(rx.SLOT0) + rx.SLOT1 + close.format(rx.SLOT2)
                    ref = ref_slots(r'(?:(?!(?:X0)X1)X2)')
                else:
                    text = tmpl.format(rx.SLOT0)
                    ref = ref_slots(EXT_DOC[t])
                node = rx.strip_caps(rx.parse(text).node)
                ok, w, _ = rx.equivalent(node, rx.parse(ref).node)
            except (rx.RxParseError, IndexError, KeyError) as e:
                ok, w = False, f'not a well-formed template: {e}'
            ctx.ob(rule, f'{key}/{which}', ok, site, f'template ≡ {EXT_DOC.get(t, "negation template")}',
                   f'{tmpl!r}' + ('' if ok else f' differs on {w}'),
                   witness="swapping the `?` and `@` arms makes `?(a)b` reject `b`")
            if cap and '(?#)' not in tmpl:
                ctx.ob(rule, f'{key}/capture-marker', False, site, 'the capture variant carries the (?#) marker', repr(tmpl))
        cs = content.get(t, set())
        ctx.ob(rule, f'{key}/content', len(cs) == 1, site, "content slot = ''.join(<alternatives of this group>)", str(sorted(cs))[:120])


PATTERN_SOURCES = {'include', 'exclude', 'npatterns', '_include', '_exclude'}
APPLY = {'match', 'fullmatch', 'search', 'findall', 'finditer'}
APPLY_FUNCS = [('_wcmatch', '_Match.match'), ('_wcmatch', '_Match._fs_match'), ('_wcmatch', '_Match._match_real'),
               ('glob', 'Glob._match_excluded'), ('glob', 'Glob._get_matcher'), ('glob', 'Glob._glob_dir'),
               ('glob', 'Glob._is_excluded')]


def pattern_application_sites(ctx: Ctx) -> list[tuple[str, Any, ast.Attribute, str]]:
    """(module, FuncInfo, attribute node, base name) for every application of a compiled pattern to a name."""
    repo = ctx.repo
    out = []
    for mod, q in APPLY_FUNCS:
        if not repo.has_func(mod, q):
            continue
        fi = repo.func(mod, q)
        pat_names: set[str] = set()
        args = fi.node.args
        for a in args.args + args.kwonlyargs:
            if a.annotation is not None and 'Pattern' in norm_src(a.annotation):
                pat_names.add(a.arg)
        for n in walk_no_nested(fi.node):
            if isinstance(n, ast.For) and isinstance(n.target, ast.Name) and isinstance(n.iter, ast.Attribute) and \
                    n.iter.attr in PATTERN_SOURCES:
                pat_names.add(n.target.id)
            if isinstance(n, (ast.GeneratorExp, ast.ListComp, ast.SetComp)):
                for g in n.generators:
                    if isinstance(g.target, ast.Name) and isinstance(g.iter, ast.Attribute) and g.iter.attr in PATTERN_SOURCES:
                        pat_names.add(g.target.id)
        for n in walk_no_nested(fi.node):
            if isinstance(n, ast.Attribute) and n.attr in APPLY and isinstance(n.value, ast.Name) and \
                    n.value.id in pat_names:
                out.append((mod, fi, n, n.value.id))
    return sorted(out, key=lambda t: (t[0], t[2].lineno))


def rule_fullmatch_sites(ctx: Ctx, rule: str) -> None:
    ctx.text(rule, 'every application of a compiled include / exclude / per-segment pattern to a name (method invoked '
                   'on a loop variable over include/exclude/npatterns or on a Pattern-typed parameter) is `.fullmatch`')
    repo = ctx.repo
    sites = pattern_application_sites(ctx)
    ctx.floor(rule, 'pattern application sites', len(sites), 4)
    from . import matchrules
    matchrules.rule_application_mode(ctx, rule, which={'fullmatch'})
    for mod, fi, n, base in sites:
        ctx.ob(rule, f'{mod}:{fi.qualname}/{base}.{n.attr}' if n.attr != 'fullmatch' else
               f'{mod}:{fi.qualname}/{base}.fullmatch@{_ordinal(sites, mod, fi, n)}',
               n.attr == 'fullmatch', repo.loc(mod, n), f'{base}.fullmatch', f'{base}.{n.attr}',
               witness="with `.match`, a directory containing the file 'a\\n' makes glob('[a]') return it although "
                       "globmatch('a\\n', '[a]') is False")


def _ordinal(sites: list, mod: str, fi: Any, n: ast.AST) -> int:
    same = [s for s in sites if s[0] == mod and s[1] is fi and s[2].attr == 'fullmatch']
    return [id(s[2]) for s in same].index(id(n)) + 1


# ------------------------------------------------------------------------------------------------ POSIX tables
def _iv(*pairs: Any) -> tuple:
    out = []
    for p in pairs:
        if isinstance(p, str):
            out.append((ord(p[0]), ord(p[-1])))
        else:
            out.append(p)
    return rx.cs_norm(out)


C_LOCALE = {
    'alnum': _iv('09', 'AZ', 'az'),
    'alpha': _iv('AZ', 'az'),
    'ascii': _iv((0, 0x7f)),
    'blank': _iv((9, 9), (32, 32)),
    'cntrl': _iv((0, 0x1f), (0x7f, 0x7f)),
    'digit': _iv('09'),
    'graph': _iv((0x21, 0x7e)),
    'lower': _iv('az'),
    'print': _iv((0x20, 0x7e)),
    'punct': _iv((0x21, 0x2f), (0x3a, 0x40), (0x5b, 0x60), (0x7b, 0x7e)),
    'space': _iv((9, 13), (32, 32)),
    'upper': _iv('AZ'),
    'word': _iv('09', 'AZ', 'az', '__'),
    'xdigit': _iv('09', 'AF', 'af'),
}


def rule_posix_tables(ctx: Ctx, rule: str) -> None:
    ctx.text(rule, 'posix.unicode_posix_properties / ascii_posix_properties: every positive entry, parsed as a '
                   'character-class body, equals the C-locale definition of the class; every ^name entry is its '
                   'complement in the table universe; the ASCII table is the Unicode table cut to 0..255; RE_POSIX '
                   'recognises exactly the positive keys; get_posix_property selects the ASCII table iff limit_ascii')
    repo = ctx.repo
    n = 0
    tables = {}
    for tname, universe in (('unicode_posix_properties', rx.MAXCP), ('ascii_posix_properties', 255)):
        table = repo.const('posix', tname)
        if not isinstance(table, dict):
            raise AnalysisError(f'posix.{tname} is not a dict literal of constants')
        site = repo.loc('posix', repo.const_line('posix', tname))
        sets = {}
        for k, v in table.items():
            try:
                p = rx.parse('[' + v + ']')
                if p.node[0] != 'lit':
                    raise rx.RxParseError('not a single class')
                cs = rx.cs_inter(p.node[1], ((0, universe),))
            except rx.RxParseError as e:
                ctx.ob(rule, f'posix:{tname}[{k}]', False, site, 'a character-class body', f'{v!r}: {e}')
                continue
            sets[k] = cs
        tables[tname] = sets
        for name, want in C_LOCALE.items():
            got = sets.get(name)
            ctx.ob(rule, f'posix:{tname}[{name}]', got == want, site, rx.cs_show(want, universe),
                   'missing' if got is None else rx.cs_show(got, universe),
                   witness=f"fnmatch(c, '[[:{name}:]]') must be True exactly for the C-locale members of {name}")
            n += 1
            neg = sets.get('^' + name)
            wantn = rx.cs_compl(want, universe)
            ctx.ob(rule, f'posix:{tname}[^{name}]', neg == wantn, site, rx.cs_show(wantn, universe),
                   'missing' if neg is None else rx.cs_show(neg, universe),
                   witness=f"the ^{name} entry must be the complement of {name}")
            n += 1
        extra = set(sets) - set(C_LOCALE) - {'^' + k for k in C_LOCALE}
        ctx.ob(rule, f'posix:{tname}/keys', not extra, site, 'only the 14 POSIX classes and their complements',
               f'extra keys {sorted(extra)}')
    ctx.floor(rule, 'table entries', n, 56)
    # RE_POSIX alternation = positive keys
    rp = repo.const('_wcparse', 'RE_POSIX')
    p = rx.parse(rp.pattern, rp.flags)
    names = _literal_alternatives(p.node)
    site = repo.loc('_wcparse', repo.const_line('_wcparse', 'RE_POSIX'))
    ctx.ob(rule, '_wcparse:RE_POSIX/names', names == set(C_LOCALE), site, f'{sorted(C_LOCALE)}',
           f'{sorted(names) if names is not None else "not a literal alternation"}',
           witness='a name recognised by RE_POSIX but missing from the tables raises ValueError from get_posix_property')
    # shape `:name:]`
    txt = rx.show(rx.strip_caps(p.node))
    ctx.ob(rule, '_wcparse:RE_POSIX/delimiters', txt.startswith('[:]') and txt.endswith('[:][\\]]'.replace('\\]', ']'))
           or (rp.pattern.startswith(':(') and rp.pattern.endswith(r'):\]')), site, r':(names):\]', rp.pattern)
    # get_posix_property: table selection
    from ..symeval import SymEval, Opaque
    fi = repo.func('posix', 'get_posix_property')
    ev = SymEval(repo, inline=False)
    paths = ev.tabulate(fi, {'value': Opaque('value'), 'limit_ascii': Opaque('limit_ascii')})
    sel = {}
    for pth in paths:
        if pth.raised:
            continue
        la = pth.decisions.get('limit_ascii')
        sel[la] = str(pth.ret)
    want = {True: '<' + _tbl_tag(repo, 'ascii_posix_properties') + '[value]>', False: '<' + _tbl_tag(repo, 'unicode_posix_properties') + '[value]>'}
    ctx.ob(rule, 'posix:get_posix_property/table-selection', sel == want, repo.loc('posix', fi.node),
           'ascii table iff limit_ascii', str(sel),
           witness="bytes patterns must use the 0..255 table: fnmatch(b'\\xff', b'[[:^alpha:]]')")
    # caller passes is_bytes
    hp = repo.func('_wcparse', 'WcParse._handle_posix')
    calls = [c for c in walk_no_nested(hp.node) if isinstance(c, ast.Call) and norm_src(c.func).endswith('get_posix_property')]
    ctx.floor(rule, 'get_posix_property call sites', len(calls), 1)
    for c in calls:
        second = c.args[1] if len(c.args) > 1 else next((k.value for k in c.keywords if k.arg == 'limit_ascii'), None)
        ctx.ob(rule, '_wcparse:WcParse._handle_posix/limit_ascii', second is not None and norm_src(second) == 'self.is_bytes',
               repo.loc('_wcparse', c), 'limit_ascii = self.is_bytes', norm_src(second) if second is not None else 'default (False)',
               witness="b'[[:^alpha:]]' would embed code points > 255 into a bytes regex")


def _tbl_tag(repo: Any, name: str) -> str:
    from ..symeval import _tag
    return _tag(repo.const('posix', name))


def _literal_alternatives(node: Any) -> set[str] | None:
    """Names in the first capture group if it is an alternation of literal words."""
    for s in rx.subnodes(node):
        if s[0] == 'cap':
            body = s[2]
            alts = body[1] if body[0] == 'alt' else (body,)
            out = set()
            for a in alts:
                items = a[1] if a[0] == 'seq' else (a,)
                word = ''
                for it in items:
                    if it[0] != 'lit' or rx.cs_size(it[1]) != 1:
                        return None
                    word += chr(it[1][0][0])
                out.add(word)
            return out
    return None


# ------------------------------------------------------------------------------------------------ literal escaping
ESCAPE_FUNCS = ['WcParse.root', 'WcParse.parse_extend', 'WcParse._references', 'WcParse._handle_dot']
RAW_OK = {'|'}  # characters that are meant to reach the regex unescaped (alternation inside a group)


def rule_literal_escaping(ctx: Ctx, rule: str) -> None:
    ctx.text(rule, 'in root / parse_extend / _references / _handle_dot a pattern-derived character (loop variable or '
                   'next(i) result) reaches an emission (append / returned value) only through re.escape, except under '
                   "a guarding equality with a character that is meant to be regex syntax ('|' inside a group)")
    repo = ctx.repo
    n = 0
    for q in ESCAPE_FUNCS:
        fi = repo.func('_wcparse', q)
        parent = enclosing_map(fi.node)
        charvars: set[str] = set()
        for node in walk_no_nested(fi.node):
            if isinstance(node, ast.For) and isinstance(node.target, ast.Name):
                charvars.add(node.target.id)
            if isinstance(node, ast.Assign) and isinstance(node.value, ast.Call) and \
                    isinstance(node.value.func, ast.Name) and node.value.func.id == 'next':
                for t in node.targets:
                    if isinstance(t, ast.Name):
                        charvars.add(t.id)
        if fi.name == 'parse_extend':
            charvars.add('c')
        emitted: list[tuple[ast.AST, ast.AST]] = []  # (statement-ish node, value expr)
        # locals that are handed to `<list>.append(..)` / a range check later: an assignment to one of them is an emission too
        appended = {a.id for node in walk_no_nested(fi.node) if isinstance(node, ast.Call) and isinstance(node.func, ast.Attribute) and
                    node.func.attr in ('append', '_sequence_range_check') for a in node.args if isinstance(a, ast.Name)} | \
                   {node.value.id for node in walk_no_nested(fi.node) if isinstance(node, ast.Return) and isinstance(node.value, ast.Name)}
        appended -= charvars
        for node in walk_no_nested(fi.node):
            if isinstance(node, ast.Call) and isinstance(node.func, ast.Attribute) and node.func.attr == 'append' and node.args:
                emitted.append((node, node.args[0]))
            elif isinstance(node, ast.Assign) and any(isinstance(t, ast.Name) and t.id in appended for t in node.targets):
                emitted.append((node, node.value))
            elif isinstance(node, ast.Assign) and any(isinstance(t, ast.Subscript) and isinstance(t.value, ast.Name) and
                                                      t.value.id in ('current', 'extended') for t in node.targets):
                emitted.append((node, node.value))
        for stmt, val in emitted:
            for nm in [x for x in ast.walk(val) if isinstance(x, ast.Name) and x.id in charvars]:
                # climb to see whether it sits inside re.escape(...)
                cur: ast.AST = nm
                escaped = False
                while id(cur) in parent and cur is not val:
                    cur = parent[id(cur)]
                    if isinstance(cur, ast.Call) and norm_src(cur.func) == 're.escape':
                        escaped = True
                        break
                if isinstance(val, ast.Call) and norm_src(val.func) == 're.escape':
                    escaped = True
                n += 1
                key = f'_wcparse:{q}/emit[{norm_src(stmt)[:60]}]'
                if escaped:
                    ctx.ob(rule, key, True, repo.loc('_wcparse', stmt), 're.escape around the character', 'escaped')
                    continue
                guard = _guarding_equality(stmt, nm.id, parent)
                ok = guard is not None and guard <= RAW_OK
                ctx.ob(rule, key, ok, repo.loc('_wcparse', stmt), f're.escape({nm.id}) or guard {nm.id} in {sorted(RAW_OK)}',
                       f'raw `{nm.id}`' + (f' under guard {sorted(guard)}' if guard else ' unguarded'),
                       witness="`current.append(c)` makes the pattern `a+b` a regex repetition: fnmatch('aab', 'a+b') True")
    ctx.floor(rule, 'emissions of pattern-derived characters', n, 5)


def _guarding_equality(stmt: ast.AST, var: str, parent: dict[int, ast.AST]) -> set[str] | None:
    """Constants that `var` is known to equal at `stmt` (innermost enclosing `if var == K` / `var in (..)` true arm)."""
    cur = stmt
    while id(cur) in parent:
        p = parent[id(cur)]
        if isinstance(p, ast.If) and any(cur is s for s in p.body):
            t = p.test
            if isinstance(t, ast.Compare) and len(t.ops) == 1 and isinstance(t.left, ast.Name) and t.left.id == var:
                c = t.comparators[0]
                if isinstance(t.ops[0], ast.Eq) and isinstance(c, ast.Constant):
                    return {c.value}
                if isinstance(t.ops[0], ast.In) and isinstance(c, (ast.Tuple, ast.Set, ast.List)) and \
                        all(isinstance(e, ast.Constant) for e in c.elts):
                    return {e.value for e in c.elts}
        cur = p
    return None
