"""Meaning of the regex fragments (C01-R1, C02-R1, C03-R1, C08-R1/R2, C04-R5, C17-R5).

Every fragment constant / instantiated WcParse attribute / inline template is compared, by the derivative-based
contextual equivalence of `rx`, with a reference regex that states its documented role (DESIGN appendix A).
"""
from __future__ import annotations

import ast
import re
from typing import Any

from .. import rx
from ..model import AnalysisError, norm_src, walk_no_nested
from ..report import Ctx
from .common import fold_in, wcparse_variants

SEP = {'unix': '/', 'win': r'\\/'}

# role table for WcParse attributes: name -> (reference template over S, [(finding tag, known-deviation template)], rules, witness)
ATTR_ROLES: dict[str, tuple] = {
    'sep': (r'[S]', [], ('C02-R1',), 'separator class'),
    'path_eop': (r'(?:\Z|[S])', [('F8', r'(?:$|[S])')], ('C02-R1', 'C01-R3iii'),
                 "globmatch('a\\n', '!(a)', EXTGLOB) is False"),
    'no_dir': (r'(?!\.{1,2}(?:\Z|[S]))', [('F8', r'(?!\.{1,2}(?:$|[S]))')], ('C03-R1', 'C01-R3iii'),
               "globmatch('.\\n', '*', DOTGLOB) is False"),
    'seq_path': (r'(?![S])', [], ('C02-R1',), "dropping it lets `a?b` match `a/b`"),
    'seq_path_dot': (r'(?![S.])', [], ('C02-R1', 'C03-R1'), "`?` would match a leading dot"),
    'path_star': (r'[^S]*', [], ('C02-R1',), "`.*?` lets `a/*` match `a/b/c`"),
    'path_star_dot1': (r'(?!\.{1,2}(?:\Z|[S]))[^S]*', [('F8', r'(?!\.{1,2}(?:$|[S]))[^S]*')],
                       ('C02-R1', 'C03-R1'), "globmatch('..', '*', DOTGLOB) must stay False"),
    'path_star_dot2': (r'(?!\.)[^S]*',
                       [('F9', r'(?!\.{1,2}(?:$|[S]))(?:(?!\.)[^S]*)?'), ('F9', r'(?!\.{1,2}(?:\Z|[S]))(?:(?!\.)[^S]*)?')],
                       ('C02-R1', 'C03-R1'), "globmatch('.a', '*?a') is True"),
    'path_gstar_dot1': (r'(?:(?!(?:[S]|^)\.{1,2}(?:\Z|[S])).)*', [('F8', r'(?:(?!(?:[S]|^)\.{1,2}(?:$|[S])).)*')],
                        ('C02-R1', 'C03-R1'), "`**` with DOTGLOB must not match through `..`"),
    'path_gstar_dot2': (r'(?:(?!(?:[S]|^)\.).)*', [], ('C02-R1', 'C03-R1'), "`**` must not cross hidden directories"),
    'need_char': (r'(?=[^S])', [], ('C02-R1',), "`a/*` would match `a/`"),
}
NAME_ROLES: dict[str, tuple] = {
    'need_char': (r'(?=.)', [], ('C01-R1',), "`*` at the start would match the empty name"),
}

# module-level constants used directly at emission sites (fnmatch mode / platform independent)
CONST_ROLES: dict[str, tuple] = {
    '_QMARK': (r'.', [], ('C01-R1',), "fnmatch('\\n', '?') must be True; fnmatch('ab', '?') False"),
    '_STAR': (r'.*', [], ('C01-R1',), "`.+?` makes `a*` reject `a`"),
    '_NO_DOT': (r'(?!\.)', [], ('C01-R1', 'C03-R1'), "fnmatch('.a', '*') must be False"),
    '_EOP': (r'\Z', [('F8', r'$')], ('C01-R1', 'C01-R3iii'), "fnmatch('a\\n', '!(a)', EXTMATCH) is False"),
    '_NEED_CHAR': (r'(?=.)', [], ('C01-R1',), "leading `*` must not match nothing"),
    '_NO_ROOT': (r'(?!/)', [], ('C04-R8',), "relative pattern under REALPATH must not match /abs"),
    '_NO_WIN_ROOT': (r'(?![\\/]|[a-zA-Z]:)', [], ('C04-R8',), "relative pattern must not match C:/x"),
}

# templates: name -> (slots, reference, rules, witness); X0.. are the opaque content letters
TEMPLATE_ROLES: dict[str, tuple] = {
    '_QMARK_GROUP': (1, r'(?:X0)?', ('C01-R1',), "`?(a)` must match `` and `a` only"),
    '_STAR_GROUP': (1, r'(?:X0)*', ('C01-R1',), "`*(a)` zero or more"),
    '_PLUS_GROUP': (1, r'(?:X0)+', ('C01-R1',), "`(?:{})*` makes `+(a)` match ``"),
    '_GROUP': (1, r'(?:X0)', ('C01-R1',), "`@(a)` exactly one"),
}
CAPTURE_PAIRS = {
    '_QMARK_CAPTURE_GROUP': '_QMARK_GROUP', '_STAR_CAPTURE_GROUP': '_STAR_GROUP', '_PLUS_CAPTURE_GROUP': '_PLUS_GROUP',
    '_CAPTURE_GROUP': '_GROUP', '_EXCLA_CAPTURE_GROUP': '_EXCLA_GROUP',
}
SLOT = [rx.SLOT0, rx.SLOT1, rx.SLOT2]


def inst(template: str, S: str) -> str:
    return template.replace('S', S) if S else template


def ref_slots(t: str) -> str:
    return t.replace('X0', rx.SLOT0).replace('X1', rx.SLOT1).replace('X2', rx.SLOT2)


def check_text(ctx: Ctx, rule: str, key: str, site: str, text: str, ref: str, alts: list, witness: str,
               universe: int = rx.MAXCP, fullmatch: bool = False, standalone: bool = False) -> bool:
    """One obligation: `text` is contextually equivalent to `ref` (or reported as a known deviation)."""
    try:
        p = rx.parse(text, 0, not standalone)
    except rx.RxParseError as e:
        return ctx.ob(rule, key, False, site, f'≡ {ref}', f'does not parse: {e}', witness=witness)
    node = p.node
    refn = rx.parse(ref).node
    ref, text_shown = rx.unslot(ref), rx.unslot(text)
    if fullmatch:
        node = rx.seq([('bol',), node, ('eos',)])
        refn = rx.seq([('bol',), refn, ('eos',)])
    ok, w, states = rx.equivalent(node, refn, universe)
    ctx.count('rx_equivalence_checks')
    ctx.count('rx_derivative_states', states)
    if ok:
        return ctx.ob(rule, key, True, site, f'≡ {ref}', f'{text_shown} (equivalent; {states} derivative states)',
                      witness=witness)
    for tag, alt in alts:
        an = rx.parse(alt).node
        if fullmatch:
            an = rx.seq([('bol',), an, ('eos',)])
        ok2, _w2, st2 = rx.equivalent(node, an, universe)
        ctx.count('rx_equivalence_checks')
        if ok2:
            return ctx.ob(rule, key, False, site, f'≡ {ref}', f'known deviation {tag}: ≡ {alt}',
                          note=f'distinguishing word {w}', witness=witness)
    return ctx.ob(rule, key, False, site, f'≡ {ref}', f'{text_shown}: differs on {w}', witness=witness)


def rule_attr_fragments(ctx: Ctx, rule: str) -> None:
    """Instantiated fragment attributes of WcParse, per platform variant."""
    ctx.text(rule, 'each regex fragment attribute that WcParse.__init__ builds (constant-folded for the unix and the '
                   'windows separator class) is language-equivalent, in every context, to the reference regex of its '
                   'documented role')
    repo = ctx.repo
    variants = wcparse_variants(repo)
    fn = repo.func('_wcparse', 'WcParse.__init__')
    n = 0
    for var in ('unix', 'win'):
        attrs = variants[var]
        S = SEP[var]
        for name, (ref, alts, rules, witness) in ATTR_ROLES.items():
            if rule not in rules:
                continue
            check_text(ctx, rule, f'_wcparse:WcParse.{name}/{var}', repo.loc('_wcparse', fn.node),
                       attrs[name], inst(ref, S), [(t, inst(a, S)) for t, a in alts], witness)
            n += 1
    if rule == 'C01-R1':
        for var in ('unix-name', 'win-name'):
            ref, alts, _r, witness = NAME_ROLES['need_char']
            check_text(ctx, rule, f'_wcparse:WcParse.need_char/{var}', repo.loc('_wcparse', fn.node),
                       variants[var]['need_char'], ref, alts, witness)
            n += 1
    ctx.floor(rule, 'fragment attributes', n, 2)
    if rule == 'C02-R1':
        # the separator classes themselves: exactly `/` for unix, `/` and `\` for windows
        for var, chars in (('unix', '/'), ('win', '/\\')):
            sep = variants[var]['sep']
            try:
                got = rx.consumes(rx.parse(sep).node)
                w = rx.width(rx.parse(sep).node)
            except rx.RxParseError as e:
                ctx.ob(rule, f'_wcparse:WcParse.sep/{var}/class', False, repo.loc('_wcparse', fn.node),
                       f'class of {chars!r}', f'does not parse: {e}')
                continue
            ctx.ob(rule, f'_wcparse:WcParse.sep/{var}/class', got == rx.cs_of(chars) and w == (1, 1),
                   repo.loc('_wcparse', fn.node), f'one character of {chars!r}', f'{sep}: {rx.cs_show(got)} width {w}',
                   witness="FORCEWIN must treat `\\` and `/` alike; unix only `/`")


def rule_const_fragments(ctx: Ctx, rule: str) -> None:
    ctx.text(rule, 'each fragment constant used directly at an emission site is language-equivalent to its role')
    repo = ctx.repo
    n = 0
    for name, (ref, alts, rules, witness) in CONST_ROLES.items():
        if rule not in rules:
            continue
        text = repo.const('_wcparse', name)
        if not isinstance(text, str):
            raise AnalysisError(f'_wcparse.{name} is not a string constant')
        check_text(ctx, rule, f'_wcparse:{name}', repo.loc('_wcparse', repo.const_line('_wcparse', name)),
                   text, ref, alts, witness)
        n += 1
    if rule == 'C01-R1':
        for name, (slots, ref, _rules, witness) in TEMPLATE_ROLES.items():
            tmpl = repo.const('_wcparse', name)
            try:
                text = tmpl.format(*SLOT[:slots])
            except (IndexError, KeyError) as e:
                ctx.ob(rule, f'_wcparse:{name}', False, repo.loc('_wcparse', repo.const_line('_wcparse', name)),
                       f'template with {slots} slot', f'format error {e}')
                continue
            check_text(ctx, rule, f'_wcparse:{name}', repo.loc('_wcparse', repo.const_line('_wcparse', name)),
                       text, ref_slots(ref), [], witness)
            n += 1
        # the negation template is split in two halves
        a = repo.const('_wcparse', '_EXCLA_GROUP')
        b = repo.const('_wcparse', '_EXCLA_GROUP_CLOSE')
        try:
            text = a.format(rx.SLOT0) + rx.SLOT1 + b.format(rx.SLOT2)
        except (IndexError, KeyError) as e:
            text = f'<format error {e}>'
        check_text(ctx, rule, '_wcparse:_EXCLA_GROUP+_EXCLA_GROUP_CLOSE',
                   repo.loc('_wcparse', repo.const_line('_wcparse', '_EXCLA_GROUP')), text,
                   ref_slots(r'(?:(?!(?:X0)X1)X2)'), [],
                   "`!(a)b`: alternatives and the rest of the pattern sit inside one negative assertion, then the star")
        n += 1
    ctx.floor(rule, 'fragment constants', n, 1)


def _format_sites(ctx: Ctx) -> list[tuple[Any, ast.Call, str]]:
    """All `<TEMPLATE>.format(...)` calls on module-level string constants inside WcParse methods (not __init__)."""
    repo = ctx.repo
    env = repo.mod('_wcparse').env
    out = []
    for fi in repo.cls('_wcparse', 'WcParse').methods.values():
        if fi.name == '__init__':
            continue
        for n in walk_no_nested(fi.node):
            if isinstance(n, ast.Call) and isinstance(n.func, ast.Attribute) and n.func.attr == 'format' and \
                    isinstance(n.func.value, ast.Name) and isinstance(env.get(n.func.value.id), str):
                out.append((fi, n, n.func.value.id))
    return sorted(out, key=lambda t: t[1].lineno)


SITE_TEMPLATE_ROLES = {
    '_PATH_TRAIL': (r'[S]*', [], "trailing separators on the path are tolerated, nothing else"),
    '_GLOBSTAR_DIV': (r'(?:^|\Z|[S])+', [('F8', r'(?:^|$|[S])+')],
                      "globmatch('a\\n', '**/?', GLOBSTAR) is True"),
    '_NEED_SEP': (r'(?=[S])', [], "`a/**/b` must not match `ab`"),
}


def rule_site_templates(ctx: Ctx, rule: str) -> None:
    """Templates instantiated at emission sites: `_PATH_TRAIL.format(self.sep)` etc., `self.sep + _ONE_OR_MORE`."""
    ctx.text(rule, 'every `<template>.format(...)` and `self.sep + _ONE_OR_MORE` emission in WcParse, constant-folded '
                   'for both separator classes, is language-equivalent to the role of that template')
    repo = ctx.repo
    variants = wcparse_variants(repo)
    n = 0
    for fi, call, tname in _format_sites(ctx):
        if tname not in SITE_TEMPLATE_ROLES:
            continue
        ref, alts, witness = SITE_TEMPLATE_ROLES[tname]
        for var in ('unix', 'win'):
            v = fold_in(repo, fi, call, variants[var])
            key = f'_wcparse:{fi.qualname}/{tname}.format/{var}'
            if not isinstance(v, str):
                ctx.ob(rule, key, False, repo.loc('_wcparse', call), 'constant-foldable from the separator class',
                       f'{norm_src(call)} -> {v!r}', witness=witness)
                continue
            check_text(ctx, rule, key, repo.loc('_wcparse', call), v, inst(ref, SEP[var]),
                       [(t, inst(a, SEP[var])) for t, a in alts], witness)
            n += 1
    ctx.floor(rule, 'template instantiation sites x variants', n, 6)
    # self.sep + _ONE_OR_MORE
    m = 0
    for fi in repo.cls('_wcparse', 'WcParse').methods.values():
        for node in walk_no_nested(fi.node):
            if isinstance(node, ast.BinOp) and isinstance(node.op, ast.Add) and isinstance(node.right, ast.Name) and \
                    node.right.id == '_ONE_OR_MORE':
                for var in ('unix', 'win'):
                    v = fold_in(repo, fi, node, variants[var])
                    key = f'_wcparse:{fi.qualname}/{norm_src(node)}/{var}'
                    if not isinstance(v, str):
                        ctx.ob(rule, key, False, repo.loc('_wcparse', node), 'foldable', repr(v))
                        continue
                    check_text(ctx, rule, key, repo.loc('_wcparse', node), v, inst(r'[S]+', SEP[var]), [],
                               'runs of separators in the path count as one; `a/b` must not match `ab`')
                    m += 1
    ctx.floor(rule, 'separator-run emissions x variants', m, 4)


def rule_handle_dot_inline(ctx: Ctx, rule: str) -> None:
    """Inline f-string of _handle_dot: one literal dot under the `.`/`..` segment assertion."""
    ctx.text(rule, 'the inline fragment of WcParse._handle_dot consumes exactly one `.` under the assertion that the '
                   'segment is not `.` or `..`; the other arm emits an escaped literal dot')
    repo = ctx.repo
    fi = repo.func('_wcparse', 'WcParse._handle_dot')
    variants = wcparse_variants(repo)
    # the emitted values: arguments of `<list>.append(..)`; the literal-dot arm is `re.escape('.')`, the other one is the fragment
    # (however it is spelled: f-string, concatenation, str.format, or a local holding it)
    from ..boolform import inline_locals
    js = []
    for c in walk_no_nested(fi.node):
        if isinstance(c, ast.Call) and isinstance(c.func, ast.Attribute) and c.func.attr == 'append' and len(c.args) == 1:
            a = c.args[0]
            if isinstance(a, ast.Name):
                a = inline_locals(fi.node, a)
            if isinstance(a, ast.Call) and norm_src(a.func) == 're.escape':
                continue
            js.append(a)
    if len(js) != 1:
        raise AnalysisError(f'WcParse._handle_dot: expected one emitted regex fragment besides the escaped literal dot, found {len(js)}')
    for var in ('unix', 'win'):
        v = fold_in(repo, fi, js[0], variants[var])
        S = SEP[var]
        key = f'_wcparse:WcParse._handle_dot/inline-dot/{var}'
        if not isinstance(v, str):
            ctx.ob(rule, key, False, repo.loc('_wcparse', js[0]), 'foldable', repr(v))
            continue
        check_text(ctx, rule, key, repo.loc('_wcparse', js[0]), v, inst(r'(?!\.{1,2}(?:\Z|[S]))\.', S),
                   [('F8', inst(r'(?!\.{1,2}(?:$|[S]))\.', S))],
                   "with NODOTDIR `.*` must not match `.`/`..`; globmatch('.\\n', '.*', NODOTDIR) is a regular name")


def rule_capture_pairs(ctx: Ctx, rule: str) -> None:
    """C08-R1: each *_CAPTURE_GROUP template = one capturing group around exactly the plain template."""
    ctx.text(rule, 'each capture template parses to exactly one capturing group whose body is language-equivalent to '
                   'the plain template of the same kind; the (?#) marker sits first inside the capturing parenthesis')
    repo = ctx.repo
    n = 0
    for cap, plain in CAPTURE_PAIRS.items():
        ct = repo.const('_wcparse', cap)
        pt = repo.const('_wcparse', plain)
        site = repo.loc('_wcparse', repo.const_line('_wcparse', cap))
        if plain == '_EXCLA_GROUP':
            close = repo.const('_wcparse', '_EXCLA_GROUP_CLOSE')
            ctext = ct.format(rx.SLOT0) + rx.SLOT1 + close.format(rx.SLOT2)
            ptext = pt.format(rx.SLOT0) + rx.SLOT1 + close.format(rx.SLOT2)
        else:
            ctext = ct.format(rx.SLOT0)
            ptext = pt.format(rx.SLOT0)
        key = f'_wcparse:{cap}'
        try:
            cp = rx.parse(ctext)
            pp = rx.parse(ptext)
        except rx.RxParseError as e:
            ctx.ob(rule, key, False, site, 'parses', str(e))
            continue
        groups = rx.capture_groups(cp.node)
        whole = cp.node[0] == 'cap'
        ok, w, _st = rx.equivalent(cp.node, pp.node)
        marker_ok = ct.startswith('((?#)') and ct.count('(?#)') == 1
        ctx.ob(rule, key, groups == 1 and whole and ok and marker_ok, site,
               f'one capturing group around ≡ {plain}, marker `(?#)` first inside it',
               f'groups={groups} whole={whole} equivalent={ok}{" " + w if not ok else ""} marker_ok={marker_ok}',
               witness="translate('+(a)', EXTMATCH) must expose exactly one group capturing the whole `+(a)`")
        n += 1
        ctx.ob(rule, f'_wcparse:{plain}/no-capture', rx.capture_groups(pp.node) == 0, site, '0 capturing groups',
               f'{rx.capture_groups(pp.node)}')
    ctx.floor(rule, 'capture template pairs', n, 5)


def rule_capture_budget(ctx: Ctx, rule: str) -> None:
    """C04-R5 / C08-R2: no non-template fragment contains a capturing group."""
    ctx.text(rule, 'no fragment other than the five capture templates (and the globstar capture emitted under '
                   '`if capture`) contains a capturing group: checked on every folded WcParse attribute and every '
                   'module-level fragment constant of _wcparse')
    repo = ctx.repo
    variants = wcparse_variants(repo)
    fn = repo.func('_wcparse', 'WcParse.__init__')
    n = 0
    for var in ('unix', 'win', 'unix-name'):
        for name in ATTR_ROLES:
            text = variants[var][name]
            try:
                g = rx.capture_groups(rx.parse(text).node)
            except rx.RxParseError as e:
                ctx.ob(rule, f'_wcparse:WcParse.{name}/{var}/groups', False, repo.loc('_wcparse', fn.node), 'parses', str(e))
                continue
            ctx.ob(rule, f'_wcparse:WcParse.{name}/{var}/groups', g == 0, repo.loc('_wcparse', fn.node),
                   '0 capturing groups', f'{g} in {text}',
                   witness="re.compile(glob.translate('**/@(a)x', flags=G|D|E)[0][0]).groups must be 1; under REALPATH "
                           'every group is read as a `**` capture by _fs_match')
            n += 1
    env = repo.mod('_wcparse').env
    for name, val in env.items():
        if not (name.startswith('_') and isinstance(val, str) and name.isupper()) or name in CAPTURE_PAIRS:
            continue
        if name in ('_EXCLA_GROUP', '_EXCLA_GROUP_CLOSE', '_ONE_OR_MORE'):
            text = None
        else:
            try:
                text = val.format(*SLOT, sep='/') if '{' in val else val
            except (IndexError, KeyError, ValueError):
                text = None
        if text is None:
            continue
        try:
            g = rx.capture_groups(rx.parse(text).node)
        except rx.RxParseError:
            continue
        ctx.ob(rule, f'_wcparse:{name}/groups', g == 0, repo.loc('_wcparse', repo.const_line('_wcparse', name)),
               '0 capturing groups', f'{g} in {val}',
               witness="glob.translate('**/@(a)x', flags=G|D|E) must have one group per extended group")
        n += 1
    ctx.floor(rule, 'fragments inspected for capture groups', n, 40)


def rule_parse_wrapper(ctx: Ctx, rule: str) -> None:
    """C01-R3(i): the final f-string of WcParse._parse is `^(?s<i>:` ... `)$`, `i` iff not case_sensitive."""
    ctx.text(rule, 'the regex returned by WcParse._parse is wrapped as ^(?s[i]: ... )$ -- DOTALL always, IGNORECASE '
                   'exactly when the parser is not case sensitive')
    repo = ctx.repo
    fi = repo.func('_wcparse', 'WcParse._parse')
    from ..symeval import SymEval, BV, Obj, Opaque, Tok
    outs = {}
    for cs in (True, False):
        ev = SymEval(repo, inline=False)
        obj = Obj(('_wcparse', 'WcParse'), {'case_sensitive': cs, 'capture': False, 'anchor': False,
                                             'matchbase': False, 'extmatchbase': False})
        paths = ev.tabulate(fi, {'p': ''}, obj)
        vals = {repr(p.ret) for p in paths}
        if len(vals) != 1:
            raise AnalysisError(f'WcParse._parse: wrapper not foldable for the empty pattern: {vals}')
        outs[cs] = paths[0].ret
    site = repo.loc('_wcparse', fi.node)

    def shape(v: Any) -> str:
        if isinstance(v, Tok):
            return ''.join(str(x) for x in v.parts)
        return str(v)
    for cs, flags in ((True, 's'), (False, 'si')):
        s = shape(outs[cs])
        m = re.fullmatch(r'\^\(\?([a-zA-Z]*):(.*)\)(\$|\\Z)', s, re.S)
        got = ''.join(sorted(m.group(1))) if m else None
        ctx.ob(rule, f'_wcparse:WcParse._parse/wrapper/case_sensitive={cs}', m is not None and got == ''.join(sorted(flags)),
               site, f'^(?{flags}:…)$', s,
               witness="without `s`, fnmatch('\\n', '?') is False; with a wrong `i`, fnmatch('A', 'a', CASE) is True")
