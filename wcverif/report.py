"""Obligations, floors, known findings, evidence and the exit protocol."""
from __future__ import annotations

import hashlib
import json
import os
import time
from dataclasses import dataclass, field, asdict
from typing import Any, Callable

from .model import AnalysisError, Repo

VERIF = os.path.dirname(os.path.dirname(os.path.abspath(__file__)))
KNOWN_FILE = os.path.join(VERIF, 'known_findings.json')


@dataclass
class Ob:
    rule: str  # e.g. "C03-R1"
    key: str  # stable: rule/module:function/construct[/fact]
    ok: bool
    site: str  # file:line (for the human; never part of the key)
    expect: str
    got: str
    note: str = ''
    witness: str = ''  # an input on which behaviour breaks when this obligation is violated


@dataclass
class Ctx:
    prop: str
    repo: Repo
    tier: str = 'quick'
    seed: int = 0
    obs: list[Ob] = field(default_factory=list)
    rules_run: list[str] = field(default_factory=list)
    rule_texts: dict[str, str] = field(default_factory=dict)
    counters: dict[str, int] = field(default_factory=dict)
    notes: list[str] = field(default_factory=list)
    rule_errors: list[str] = field(default_factory=list)
    _keys: set[str] = field(default_factory=set)

    def keys_of(self, rule: str) -> list[str]:
        """Keys of the obligations recorded so far under a rule."""
        return [k for k in self._keys if k.startswith(rule + '/')]

    def ob(self, rule: str, key: str, ok: bool, site: str, expect: Any, got: Any, note: str = '',
           witness: str = '') -> bool:
        full = f'{rule}/{key}'
        if full in self._keys:
            # same obligation reached twice (shared rule): keep the first
            n = 2
            while f'{full}#{n}' in self._keys:
                n += 1
            full = f'{full}#{n}'
        self._keys.add(full)
        self.obs.append(Ob(rule, full, bool(ok), site, str(expect), str(got), note, witness))
        return bool(ok)

    def floor(self, rule: str, what: str, count: int, minimum: int) -> None:
        """Fail closed if a rule sees fewer instances than were confirmed by hand on the pinned tree."""
        self.counters[f'{rule}:{what}'] = count
        if count < minimum:
            raise AnalysisError(f'{rule}: only {count} {what} found, floor is {minimum} -- the rule lost its subject')

    def count(self, name: str, n: int = 1) -> None:
        self.counters[name] = self.counters.get(name, 0) + n

    def text(self, rule: str, text: str) -> None:
        self.rule_texts[rule] = text
        if rule not in self.rules_run:
            self.rules_run.append(rule)


def load_known() -> dict:
    if not os.path.exists(KNOWN_FILE):
        return {'open': [], 'fixed': []}
    with open(KNOWN_FILE, encoding='utf-8') as fh:
        return json.load(fh)


def match_known(ob: Ob, known: dict) -> dict | None:
    for k in known.get('open', []):
        if k['key'] == ob.key:
            if 'got' in k and k['got'] != ob.got:
                continue
            return k
    return None


def finish(ctx: Ctx, t0: float, level_explanation: str, assumptions: list[str], write_evidence: bool = True,
           replay_dir: str | None = None) -> int:
    known = load_known()
    violations: list[Ob] = []
    known_hits: list[tuple[Ob, dict]] = []
    for ob in ctx.obs:
        if ob.ok:
            continue
        k = match_known(ob, known)
        if k is not None:
            known_hits.append((ob, k))
        else:
            violations.append(ob)
    for ob, k in known_hits:
        print(f'KNOWN-FINDING: property={ctx.prop} {k.get("finding", "")} {ob.key} at {ob.site}: {k.get("what", ob.note)}'
              f' [witness: {k.get("witness", ob.witness)}]')
    replay_dir = replay_dir or os.path.join(VERIF, 'replay')
    for ob in violations:
        os.makedirs(replay_dir, exist_ok=True)
        h = hashlib.sha1(ob.key.encode()).hexdigest()[:10]
        path = os.path.join(replay_dir, f'{ctx.prop}-{h}.json')
        with open(path, 'w', encoding='utf-8') as fh:
            json.dump({'property': ctx.prop, 'repo': ctx.repo.root, **asdict(ob)}, fh, indent=1)
        print(f'  rule {ob.rule} violated at {ob.site}\n    construct: {ob.key}\n    expected : {ob.expect}\n'
              f'    computed : {ob.got}' + (f'\n    note     : {ob.note}' if ob.note else '') +
              (f'\n    witness  : {ob.witness}' if ob.witness else ''))
        print(f'VIOLATION property={ctx.prop} replay={path}')
    wall = time.time() - t0
    n_ob = len(ctx.obs)
    n_ok = sum(1 for o in ctx.obs if o.ok)
    if write_evidence:
        samples = []
        per_rule_seen: dict[str, int] = {}
        for ob in ctx.obs:
            if per_rule_seen.get(ob.rule, 0) < 2:
                per_rule_seen[ob.rule] = per_rule_seen.get(ob.rule, 0) + 1
                samples.append({'rule': ob.rule, 'obligation': ob.key, 'site': ob.site, 'expected': ob.expect,
                                'computed': ob.got, 'holds': ob.ok})
        ev = {
            'property_id': ctx.prop,
            'tier': ctx.tier,
            'seed': ctx.seed,
            'level': 'other',
            'coverage': {
                'explanation': level_explanation,
                'obligations': n_ob,
                'discharged': n_ok,
                'evaluations': n_ob,
                'distinct_nontrivial': len({o.key for o in ctx.obs}),
                'rule': 'one obligation per rule instance (constant, call site, branch, CFG path, table row) found in '
                        "/repo's current source; distinct = distinct obligation keys; every obligation has a "
                        'non-trivial subject because rules with fewer instances than their hand-confirmed floor abort '
                        'the run (exit 2)',
                'samples': samples[:40],
                'rules_applied': {r: ctx.rule_texts.get(r, '') for r in ctx.rules_run},
                'analysed': ctx.counters,
                'known_findings_reported': [o.key for o, _k in known_hits],
                'violations': [o.key for o in violations],
                'repo': ctx.repo.root,
                'exhaustive': True,
            },
            'assumptions': assumptions + ctx.notes,
            'wall_s': round(wall, 3),
            'violations': len(violations),
        }
        os.makedirs(os.path.join(VERIF, 'evidence'), exist_ok=True)
        with open(os.path.join(VERIF, 'evidence', f'{ctx.prop}.json'), 'w', encoding='utf-8') as fh:
            json.dump(ev, fh, indent=1)
    for e in ctx.rule_errors:
        print(f'ANALYSIS-ERROR: property={ctx.prop} {e}')
    print(f'{ctx.prop}: {n_ob} obligations over {len(ctx.rules_run)} rules, {n_ok} hold, {len(known_hits)} known '
          f'finding(s), {len(violations)} violation(s), {len(ctx.rule_errors)} rule(s) not evaluable; {wall:.2f}s')
    if violations:
        return 1
    return 2 if ctx.rule_errors else 0
