"""Path queries on a function's CFG, phrased over AST nodes and normalised condition text."""
from __future__ import annotations

import ast
from typing import Callable, Iterable

from .cfg import CFG, Node, cfg_of
from .model import AnalysisError, FuncInfo, norm_src, walk_no_nested


class FQ:
    """Function + CFG + lookups."""

    def __init__(self, fi: FuncInfo) -> None:
        self.fi = fi
        self.cfg: CFG = cfg_of(fi.node)
        self._owner: dict[int, int] = {}
        for n in self.cfg.nodes:
            if n.ast is None or n.kind in ('join', 'except', 'finally_x'):
                continue
            if n.kind == 'for':
                # the header owns target only; the iter expression has its own stmt node
                for x in ast.walk(n.ast.target):
                    self._owner.setdefault(id(x), n.id)
                self._owner.setdefault(id(n.ast), n.id)
                continue
            if n.kind == 'with':
                for it in n.ast.items:
                    for x in ast.walk(it):
                        self._owner.setdefault(id(x), n.id)
                self._owner.setdefault(id(n.ast), n.id)
                continue
            if n.kind == 'raise' and isinstance(n.ast, ast.Try):
                continue
            for x in [n.ast, *walk_no_nested(n.ast)]:
                self._owner.setdefault(id(x), n.id)
        self._guard_cache: dict[int, set[tuple[str, str]]] = {}

    def node_of(self, a: ast.AST) -> int:
        """CFG node that evaluates AST node `a` (first copy if finally bodies were duplicated)."""
        if id(a) in self._owner:
            return self._owner[id(a)]
        if isinstance(a, (ast.If, ast.While)):
            t = a.test
            while isinstance(t, (ast.BoolOp, ast.UnaryOp)):
                t = t.values[0] if isinstance(t, ast.BoolOp) else t.operand
                if isinstance(t, ast.UnaryOp) and not isinstance(t.op, ast.Not):
                    break
            return self.node_of(t)
        if isinstance(a, ast.Try) and a.body:
            return self.node_of(a.body[0])
        raise AnalysisError(f'{self.fi.fq}: no CFG node for `{norm_src(a)[:60]}`')

    def has_node(self, a: ast.AST) -> bool:
        return id(a) in self._owner

    def cond_nodes(self, text: str | Callable[[str], bool]) -> list[Node]:
        f = (lambda s: s == text) if isinstance(text, str) else text
        return [n for n in self.cfg.nodes if n.kind == 'cond' and n.ast is not None and f(norm_src(n.ast))]

    def guarded(self, a: ast.AST | int, text: str | Callable[[str], bool], polarity: str) -> bool:
        """Every path from entry to the node of `a` takes the `polarity` edge of a condition whose text matches."""
        nid = a if isinstance(a, int) else self.node_of(a)
        f = (lambda s: s == text) if isinstance(text, str) else text
        return self.cfg.guarded_by(nid, lambda n: n.ast is not None and f(norm_src(n.ast)), polarity)

    def guards(self, a: ast.AST | int) -> set[tuple[str, str]]:
        """All (condition text, polarity) pairs that guard the node."""
        nid = a if isinstance(a, int) else self.node_of(a)
        if nid in self._guard_cache:
            return self._guard_cache[nid]
        out = set()
        texts = {norm_src(n.ast) for n in self.cfg.nodes if n.kind == 'cond' and n.ast is not None}
        for t in texts:
            for pol in ('T', 'F'):
                if self.cfg.guarded_by(nid, lambda n, t=t: n.ast is not None and norm_src(n.ast) == t, pol):
                    out.add((t, pol))
        self._guard_cache[nid] = out
        return out

    def stmts(self, pred: Callable[[ast.AST], bool]) -> list[ast.AST]:
        out = [n for n in walk_no_nested(self.fi.node) if pred(n)]
        return sorted(out, key=lambda x: (getattr(x, 'lineno', 0), getattr(x, 'col_offset', 0)))

    def calls(self, name_pred: Callable[[str], bool]) -> list[ast.Call]:
        return [c for c in self.stmts(lambda n: isinstance(n, ast.Call)) if name_pred(norm_src(c.func))]

    def nodes_of_calls(self, name_pred: Callable[[str], bool]) -> set[int]:
        return {self.node_of(c) for c in self.calls(name_pred) if self.has_node(c)}

    def dominated_by_any(self, a: ast.AST | int, doms: Iterable[int]) -> bool:
        nid = a if isinstance(a, int) else self.node_of(a)
        return any(self.cfg.dominates(d, nid) for d in doms)

    def every_path_from_passes(self, a: ast.AST | int, through: set[int], until: set[int] | None = None) -> bool:
        """Every path from node `a` to the normal/exceptional exit (or to `until`) passes a node in `through`.

        Exceptional edges out of `a`'s successors are followed too; paths that end at the exceptional exit are
        ignored (an exception aborts the whole parse).
        """
        nid = a if isinstance(a, int) else self.node_of(a)
        targets = set(until) if until else {self.cfg.exit.id}
        seen = self.cfg.reachable_from(nid, blocked_nodes=set(through), labels={'n', 'T', 'F'})
        return not (seen & targets) or nid in through

    def in_handler(self, a: ast.AST, exc_names: set[str]) -> bool:
        """AST node `a` sits inside an except handler for one of `exc_names`."""
        for h in walk_no_nested(self.fi.node):
            if isinstance(h, ast.ExceptHandler):
                names = set()
                if h.type is not None:
                    for t in (h.type.elts if isinstance(h.type, ast.Tuple) else [h.type]):
                        names.add(norm_src(t).split('.')[-1])
                if names & exc_names and any(x is a for st in h.body for x in [st, *walk_no_nested(st)]):
                    return True
        return False


def fq(fi: FuncInfo) -> FQ:
    q = getattr(fi.node, '_wc_fq', None)
    if q is None or q.fi.module != fi.module or q.fi.qualname != fi.qualname:
        q = FQ(fi)
        fi.node._wc_fq = q
    return q
